(* C10 -- "when a conversion is not supported the model is left as it was": every request (source s, target t) outside
   smin <= s <= t <= smax, on the native path with the below-minimum pre-check (either variant: a75b415 node versions,
   78f42e9 the container's import), raises and leaves the model exactly as it was; without the pre-check a source below
   the supported minimum is re-stamped (refuted); the node-version variant refuses exporter output inside the supported
   range (refuted); the import variant never fires when every container imports a supported opset. *)
From Coq Require Import ZArith List Bool String Lia.
Import ListNotations.
Require Import OV.Gen.VersionTables OV.Version.Model OV.Version.Model2 OV.Version.Adapters
               OV.Version.ConvertProofs OV.Version.Std OV.Version.Model2Proofs.
Local Open Scope Z_scope.

Definition unsupported (smin smax s t : Z) : bool := (t <? smin) || (t >? smax) || (s <? smin) || (t <? s).

Section Unsupported.
  Variable adapt : adapter.
  Variables smin smax : Z.

  (* a work list that contains a default-domain node at version s > t cannot finish *)
  Lemma conv_downgrade_aborts : forall s t f todo,
    t < s -> forallb (at_version s) todo = true -> existsb n_dflt todo = true ->
    exists e, conv adapt t (Some s) f todo = GAbort e todo [].
  Proof.
    intros s t. induction f as [|f IH]; intros todo Hlt Hu Hex; [cbn; eauto|].
    rewrite conv_S. destruct todo as [|n rest]; [discriminate|].
    cbn [forallb existsb] in Hu, Hex. apply andb_true_iff in Hu as [Hn Hrest].
    destruct (n_dflt n) eqn:Ed; cbn [negb].
    - pose proof Hn as Hn'. rewrite at_version_unfold, Ed in Hn'. cbn in Hn'. apply andb_true_iff in Hn' as [Ho _].
      assert (Ev : (match n_ver n with Some v => Some v | None => Some s end) = Some s).
      { destruct (n_ver n) as [v|]; cbn in Ho; [apply Z.eqb_eq in Ho; subst v|]; reflexivity. }
      rewrite Ev. destruct (n_ref n); [eauto|].
      assert (E : (t <? s) = true) by (apply Z.ltb_lt; lia). rewrite E. eauto.
    - cbn in Hex. destruct (IH rest Hlt Hrest Hex) as (e & ->). cbn. eauto.
  Qed.

  Lemma below_min_exists : forall s todo, s < smin ->
    forallb (at_version s) todo = true -> existsb n_dflt todo = true -> existsb (below_min smin (Some s)) todo = true.
  Proof.
    intros s. induction todo as [|n rest IH]; intros Hlt Hu Hex; [discriminate|].
    cbn [forallb existsb] in *. apply andb_true_iff in Hu as [Hn Hrest].
    destruct (n_dflt n) eqn:Ed.
    - rewrite at_version_unfold, Ed in Hn. cbn in Hn. apply andb_true_iff in Hn as [Ho _].
      destruct n as [o d v r a i sh sb]. cbn in Ed, Ho. subst d. cbn [below_min andb].
      assert (E : match (match v with Some x => Some x | None => Some s end) with Some nv => nv <? smin | None => false end = true).
      { destruct v as [x|]; cbn in Ho; [apply Z.eqb_eq in Ho; subst x|]; apply Z.ltb_lt; lia. }
      rewrite E. reflexivity.
    - cbn in Hex. rewrite (IH Hlt Hrest Hex). apply orb_true_r.
  Qed.

  (* the 78f42e9 variant needs no assumption on node versions: the import alone decides *)
  Lemma has_dflt_of_dflt : forall n, n_dflt n = true -> has_dflt n = true.
  Proof. intros [o d v r a i sh sb] H. cbn in *. now rewrite H. Qed.
  Lemma below_min_decl_exists : forall s todo, s < smin ->
    existsb n_dflt todo = true -> existsb (below_min_decl smin (Some s)) todo = true.
  Proof.
    intros s. induction todo as [|n rest IH]; intros Hlt Hex; [discriminate|].
    cbn [existsb] in *. apply orb_true_iff in Hex as [Hn|Hr].
    - unfold below_min_decl at 1. rewrite (has_dflt_of_dflt n Hn). assert (E : (s <? smin) = true) by (apply Z.ltb_lt; lia). now rewrite E.
    - rewrite (IH Hlt Hr). apply orb_true_r.
  Qed.
  Lemma min_refuses_exists : forall mv s todo, mv <> MinOff -> s < smin ->
    forallb (at_version s) todo = true -> existsb n_dflt todo = true -> existsb (min_refuses mv smin (Some s)) todo = true.
  Proof.
    intros [| |] s todo Hmv Hlt Hu Hex; [congruence| |].
    - exact (below_min_exists s todo Hlt Hu Hex).
    - exact (below_min_decl_exists s todo Hlt Hex).
  Qed.

  (* the exhaustive statement over all (s, t): function-free model (as after the inlining of the public entry) with at
     least one default-domain node, consistent at s; request outside smin <= s <= t <= smax => exception, model untouched.
     Holds for both variants of the below-minimum pre-check (a75b415: node versions; 78f42e9: the import). *)
  Theorem native2_unsupported_unchanged : forall own refuse mv fuel s t M, mv <> MinOff ->
    consistent_at s M = true -> m_funcs M = [] -> existsb n_dflt (m_graph M) = true ->
    unsupported smin smax s t = true ->
    exists e, convert_native2 own refuse mv adapt smin smax fuel M t = MRaised e M [].
  Proof.
    intros own refuse mv fuel s t M Hmv Hc Hf Hex Hu. unfold convert_native2.
    destruct ((t >? smax) || (t <? smin)) eqn:Er; [eauto|].
    apply orb_false_iff in Er as [Er1 Er2].
    rewrite (default_version_consistent s M Hc), Hf. cbn [versions_of existsb orb].
    assert (Hg : forallb (at_version s) (m_graph M) = true) by (apply consistent_at_inv in Hc; tauto).
    unfold unsupported in Hu. rewrite Er1, Er2 in Hu. cbn in Hu.
    destruct (s <? smin) eqn:Es.
    - apply Z.ltb_lt in Es. rewrite (min_refuses_exists mv s _ Hmv Es Hg Hex). rewrite !orb_false_r, orb_true_r. eauto.
    - cbn in Hu. apply Z.ltb_lt in Hu.
      destruct (_ || _); [eauto|].
      destruct (conv_downgrade_aborts s t fuel (m_graph M) Hu Hg Hex) as (e & ->).
      exists e. destruct M; cbn in *. now subst.
  Qed.

  (* 78f42e9, source below the minimum: the import ALONE decides -- whatever versions the nodes carry (no consistency
     hypothesis), functions allowed, any target in range: refused, model exactly as passed in *)
  Lemma decl_below_min_refused : forall own refuse fuel s t M fvs,
    (t >? smax) || (t <? smin) = false -> default_version M = Some (Some s) -> s < smin ->
    versions_of own (Some s) (m_funcs M) = Some fvs ->
    existsb has_dflt (m_graph M) = true ->
    convert_native2 own refuse MinDecl adapt smin smax fuel M t = MRaised ERefused M [].
  Proof.
    intros own refuse fuel s t M fvs Hr Hd Hlt Hv Hex. unfold convert_native2. rewrite Hr, Hd, Hv.
    assert (E : existsb (min_refuses MinDecl smin (Some s)) (m_graph M) = true).
    { change (min_refuses MinDecl smin (Some s)) with (below_min_decl smin (Some s)).
      revert Hex. generalize (m_graph M). induction l as [|n r IH]; intros H; [discriminate|].
      cbn [existsb] in *. apply orb_true_iff in H as [H|H].
      - unfold below_min_decl at 1. rewrite H. assert (E : (s <? smin) = true) by (apply Z.ltb_lt; lia). now rewrite E.
      - rewrite (IH H). apply orb_true_r. }
    rewrite E. now rewrite orb_true_r.
  Qed.

  (* 78f42e9, every container imports a supported opset: the pre-check never fires, whatever versions the nodes carry --
     the converter is the one before a75b415 (this is what a75b415 broke for exporter output) *)
  Lemma decl_nodes_quiet : forall v (l : list node), smin <= v -> existsb (min_refuses MinDecl smin (Some v)) l = false.
  Proof.
    intros v l Hv. change (min_refuses MinDecl smin (Some v)) with (below_min_decl smin (Some v)).
    induction l as [|n r IH]; [reflexivity|]. cbn [existsb]. unfold below_min_decl at 1.
    assert (E : (v <? smin) = false) by (apply Z.ltb_ge; lia). rewrite E. exact IH.
  Qed.
  Definition fv_supported (p : func * option Z) : bool :=
    match snd p with Some v => smin <=? v | None => true end.
  Lemma decl_funcs_quiet : forall (fvs : list (func * option Z)), forallb fv_supported fvs = true ->
    existsb (fun p => existsb (min_refuses MinDecl smin (snd p)) (f_nodes (fst p))) fvs = false.
  Proof.
    induction fvs as [|[f fv] r IH]; intros H; [reflexivity|]. cbn [forallb] in H. apply andb_true_iff in H as [Hf Hr].
    cbn [existsb fst snd]. rewrite (IH Hr), orb_false_r. unfold fv_supported in Hf. cbn [snd] in Hf.
    destruct fv as [v|].
    - apply decl_nodes_quiet. apply Z.leb_le in Hf. lia.
    - clear. induction (f_nodes f) as [|n l IHl]; [reflexivity|]. cbn. exact IHl.
  Qed.
  Theorem decl_supported_import_never_refused : forall own refuse fuel s t M fvs,
    default_version M = Some (Some s) -> smin <= s ->
    versions_of own (Some s) (m_funcs M) = Some fvs -> forallb fv_supported fvs = true ->
    convert_native2 own refuse MinDecl adapt smin smax fuel M t = convert_native2 own refuse MinOff adapt smin smax fuel M t.
  Proof.
    intros own refuse fuel s t M fvs Hd Hs Hv Hf. unfold convert_native2.
    destruct ((t >? smax) || (t <? smin)); [reflexivity|]. rewrite Hd, Hv.
    rewrite (decl_nodes_quiet s _ Hs), (decl_funcs_quiet fvs Hf).
    rewrite (min_off_nodes smin (Some s)), (min_off_funcs smin fvs). reflexivity.
  Qed.
End Unsupported.

(* without the pre-check: a model at opset 11 (below the supported minimum) is "converted" to 18 by stamping *)
Definition w_below_min : model := Model (Some 11) None [Node "Squeeze" true None false [("axes"%string, AInts [0])] [true] [] []] [].
Lemma below_min_refuted : forall fx own refuse, exists M',
  unsupported supported_min supported_max 11 18 = true /\ consistent_at 11 w_below_min = true /\
  convert_native2 own refuse MinOff (std_adapt fx) supported_min supported_max big_fuel w_below_min 18 = MDone M' [] /\
  m_decl M' = Some 18 /\ map n_attrs (m_graph M') = [[("axes"%string, AInts [0])]].
Proof. intros [[] []] [] []; eexists; vm_compute; repeat split; reflexivity. Qed.

Lemma below_min_fixed_example : forall fx own refuse mv, mv <> MinOff ->
  convert_native2 own refuse mv (std_adapt fx) supported_min supported_max big_fuel w_below_min 18 = MRaised ERefused w_below_min [] /\
  existsb n_dflt (m_graph w_below_min) = true.
Proof. intros [[] []] [] [] [| |] H; try congruence; vm_compute; split; reflexivity. Qed.

(* REFUTED for the a75b415 variant (node versions): what torch.onnx.export(dynamo=True) produces -- a model importing
   opset 18 whose nodes are stamped with the since-version of their schema (Relu-14, Add-14, Neg-13) -- is refused
   although source and target are both in the supported range; the 78f42e9 variant (the import decides) converts it and the
   result is consistent at the target.  (The witness cannot be replayed on the repaired tree: theorem about the old
   variant only; the harness family `stamped` exercises the repaired behaviour.) *)
Definition w_stamped : model :=
  Model (Some 18) None [Node "Relu" true (Some 14) false [] [true] [] []; Node "Add" true (Some 14) false [] [true; true] [] [];
                        Node "Neg" true (Some 13) false [] [true] [] []] [].
Lemma node_version_check_refuted : forall fx own refuse,
  unsupported supported_min supported_max 18 20 = false /\
  convert_native2 own refuse MinNode (std_adapt fx) supported_min supported_max big_fuel w_stamped 20 = MRaised ERefused w_stamped [] /\
  (exists M', convert_native2 own refuse MinDecl (std_adapt fx) supported_min supported_max big_fuel w_stamped 20 = MDone M' [] /\
              consistent_at 20 M' = true /\ map n_op (m_graph M') = map n_op (m_graph w_stamped)) /\
  convert_native2 own refuse MinDecl (std_adapt fx) supported_min supported_max big_fuel w_stamped 20
  = convert_native2 own refuse MinOff (std_adapt fx) supported_min supported_max big_fuel w_stamped 20.
Proof. intros [[] []] [] []; vm_compute; (split; [reflexivity|]); (split; [reflexivity|]); (split; [eexists; repeat split; reflexivity|reflexivity]). Qed.
