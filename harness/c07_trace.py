"""C07 instrumentation of the real rewriter (in-process, no change to /repo).

While installed, every call of
  RewriteRuleSet._apply_to_graph_or_function   (one record per top-level sweep: main graph, each function)
  RewriteRule.try_rewrite                      (visits: which node of which graph, which rule, fired?)
  onnx_ir.convenience.replace_nodes_and_values (the splice itself)
is observed and turned into the vocabulary of the Coq model OV.Rewrite.Apply:

  tokens      every ir.Value gets a token; original values: their name.  At a splice the replacement output
              INHERITS the token of the matched output (the implementation gives it the old name and redirects all
              uses to it); the old value object gets a dead token; other outputs of the new nodes get fresh tokens.
  app         (mask up to and including the root, new nodes, remove flag, dead map) + the path of the graph.

Graph snapshots (before the sweep / after the sweep) are printed as Coq `graph` literals over tokens, so a use that
the implementation failed to redirect shows up as a dead token in an otherwise unchanged node.
"""
from __future__ import annotations

import hashlib

from harness.common import clist, cstr, cz


def _digest_attr(attr):
    import numpy as np
    try:
        if attr.is_ref():
            return f"ref:{attr.ref_attr_name}"
        t = attr.type.name
        v = attr.value
        if t == "TENSOR":
            a = v.numpy()
            return f"T:{a.dtype}:{list(a.shape)}:{hashlib.sha1(np.ascontiguousarray(a).tobytes()).hexdigest()[:12]}"
        if t in ("INTS", "FLOATS", "STRINGS"):
            return f"{t}:{list(v)}"
        return f"{t}:{v!r}"
    except Exception as e:  # unknown attribute kinds are still compared, as opaque text
        return f"?:{type(e).__name__}"


class Tracer:
    def __init__(self):
        self.sweeps = []
        self.cur = None
        self.depth = 0
        self.tok = {}
        self.keep = []
        self.n = 0
        self.stash = {}
        self.rule_index = {}
        self.errors = []
        self._saved = None
        self.new_inits = set()
        self.gids = {}            # id(graph object) -> number; model.graph = 0
        self.pre_meta = {}        # id(new node) -> metadata_props the replacement function gave it
        self.fn_tokens_done = set()
        self.tops = [0]           # the serialized graph objects: model graph and functions
        self.const_copies = 0
        self.used_sets = 0
        self.sorts = []           # (token graph before Graph.sort, after it, registered-initializer tokens) per container
        self.namefix = []         # (label, token graph, final-name graph, (token, name) pairs, visible names) after NameFixPass

    # ---- tokens
    def token(self, v):
        if v is None:
            return None
        t = self.tok.get(id(v))
        if t is None:
            self.n += 1
            t = f"%anon{self.n}"
            self.tok[id(v)] = t
            self.keep.append(v)
        return t

    def set_token(self, v, t):
        self.tok[id(v)] = t
        self.keep.append(v)

    def fresh(self, p):
        self.n += 1
        return f"%{p}{self.n}"

    def name_all(self, g):
        """Original values: token = name (assigned when a top-level sweep starts)."""
        import onnx_ir as ir
        def val(v):
            if v is not None and id(v) not in self.tok:
                self.set_token(v, v.name if v.name else self.fresh("unnamed"))
        for v in g.inputs:
            val(v)
        if isinstance(g, ir.Graph):
            for v in g.initializers.values():
                val(v)
        for n in g:
            for v in n.inputs:
                val(v)
            for v in n.outputs:
                val(v)
            for a in n.attributes.values():
                if not a.is_ref() and a.type.name == "GRAPH":
                    self.name_all(a.value)
        for v in g.outputs:
            val(v)

    # ---- literals
    def node_lit(self, n, namer=None, no_inits=False):
        tk = namer or self.token
        ins = clist([tk(v) for v in n.inputs], lambda t: "None" if t is None else f"(Some {cstr(t)})")
        outs = clist([tk(v) for v in n.outputs], cstr)
        attrs, subs = [], []
        for name in sorted(n.attributes):
            a = n.attributes[name]
            if not a.is_ref() and a.type.name == "GRAPH":
                subs.append(f"({cstr(name)}, {self.graph_lit(a.value, namer, no_inits)})")
            elif not a.is_ref() and a.type.name == "GRAPHS":
                for i, g in enumerate(a.value):
                    subs.append(f"({cstr(name + '#' + str(i))}, {self.graph_lit(g, namer, no_inits)})")
            else:
                attrs.append(f"({cstr(name)}, AStr {cstr(_digest_attr(a))})")
        op = n.op_type + (":" + n.overload if n.overload else "")
        return f"(Node {cstr(n.domain if n.domain != 'ai.onnx' else '')} {cstr(op)} {ins} {outs} {clist(attrs)} {clist(subs)})"

    def graph_lit(self, g, namer=None, no_inits=False):
        import onnx_ir as ir
        if namer is not None or no_inits:
            tk = namer or self.token
            return (f"(Graph {clist([tk(v) for v in g.inputs], cstr)} [] {clist([self.node_lit(n, namer, no_inits) for n in g])} "
                    f"{clist([tk(v) for v in g.outputs], cstr)})")
        ins = clist([self.token(v) for v in g.inputs], cstr)
        # initializers registered by replacements are outside the model (their presence is checked on the proto)
        inits = clist(sorted(self.token(v) for v in g.initializers.values() if id(v) not in self.new_inits), cstr) \
            if isinstance(g, ir.Graph) else "[]"
        nodes = clist([self.node_lit(n) for n in g])
        outs = clist([self.token(v) for v in g.outputs], cstr)
        return f"(Graph {ins} {inits} {nodes} {outs})"

    def find_path(self, top, target):
        """[(node index, attribute name)] from `top` down to the graph object `target` (None if not found)."""
        import onnx_ir as ir
        tgt = target.graph if isinstance(target, ir.Function) else target
        top_g = top.graph if isinstance(top, ir.Function) else top
        if top_g is tgt:
            return []
        for i, n in enumerate(top_g):
            for name in sorted(n.attributes):
                a = n.attributes[name]
                if a.is_ref():
                    continue
                if a.type.name == "GRAPH":
                    sub = self.find_path(a.value, target)
                    if sub is not None:
                        return [(i, name)] + sub
        return None

    # ---- the non-node parts of the model (OV.Rewrite.State)
    def gid(self, g):
        import onnx_ir as ir
        g = g.graph if isinstance(g, ir.Function) else g
        k = self.gids.get(id(g))
        if k is None:
            k = len(self.gids) + 1
            self.gids[id(g)] = k
            self.keep.append(g)
        return k

    @staticmethod
    def meta_lit(items):
        return clist([f"({cstr(k)}, {cstr(v)})" for k, v in items])

    def _graphs_of(self, top):
        """The graph object and every graph nested in it."""
        import onnx_ir as ir
        g = top.graph if isinstance(top, ir.Function) else top
        yield g
        for n in g:
            for a in n.attributes.values():
                if a.is_ref():
                    continue
                if a.type.name == "GRAPH":
                    yield from self._graphs_of(a.value)
                elif a.type.name == "GRAPHS":
                    for sg in a.value:
                        yield from self._graphs_of(sg)

    def fdef_lit(self, f, opaque):
        imps = clist([f"({cstr(d)}, {cz(v)})" for d, v in f.opset_imports.items()])
        if opaque:
            import onnx_ir as ir
            h = hashlib.sha1(ir.serde.serialize_function(f).SerializeToString(deterministic=True)).hexdigest()[:16]
            return f"(FDef {imps} [] [Node \"\" {cstr('digest:' + h)} [] [] [] []] [])"
        ins = clist([self.token(v) for v in f.inputs], cstr)
        outs = clist([self.token(v) for v in f.outputs], cstr)
        return f"(FDef {imps} {ins} {clist([self.node_lit(n) for n in f])} {outs})"

    def state_lit(self, model, top, known_functions):
        """MState literal: imports and initializers of every graph object of the model, the functions table (functions
        that existed when the sweep started: opaque digest of their serialisation), metadata of the swept container."""
        imports, inits, funcs, nmeta, vmeta = [], [], [], [], []
        self.gids.setdefault(id(model.graph), 0)
        # (a function created during the sweep appears in the functions table only)
        tops = [model.graph] + [f for key, f in model.functions.items() if key in known_functions]
        self.tops = sorted({0} | {self.gid(t) for t in tops[1:]})
        for t in tops:
            for g in self._graphs_of(t):
                k = self.gid(g)
                for d, v in g.opset_imports.items():
                    imports.append(f"(({k}%nat, {cstr(d)}), {cz(v)})")
                for name, v in g.initializers.items():
                    inits.append(f"(({k}%nat, {cstr(name)}), {cstr(self.token(v))})")
        for key, f in model.functions.items():
            fk = f"({cstr(key[0])}, {cstr(key[1])}, {cstr(key[2])})"
            if f is top:
                continue                                 # the swept function itself: its body is the graph being replayed
            funcs.append(f"({fk}, {self.fdef_lit(f, key in known_functions)})")
        seen = set()

        def val(v):
            if v is not None and id(v) not in seen:
                seen.add(id(v))
                if v.metadata_props:
                    vmeta.append(f"({cstr(self.token(v))}, {self.meta_lit(v.metadata_props.items())})")
        for g in self._graphs_of(top):
            for v in g.inputs:
                val(v)
            for v in g.initializers.values():
                val(v)
            for n in g:
                if n.metadata_props and n.outputs:
                    nmeta.append(f"({cstr(self.token(n.outputs[0]))}, {self.meta_lit(n.metadata_props.items())})")
                for v in n.outputs:
                    val(v)
        return f"(MState {clist(imports)} {clist(inits)} {clist(funcs)} {clist(nmeta)} {clist(vmeta)})"

    def delta_lit(self, rec, gof, delta, rule, matched_keys=(), matched_vals=(), new_nodes=(), dead=(), fn=None):
        import onnx_ir as ir
        import onnxscript.rewriter._rewrite_rule as rr
        ops = clist(sorted(f"({cstr(d)}, {'None' if v is None else '(Some ' + cz(v) + ')'})" for d, v in delta.used_opsets))
        ini = clist([f"({cstr(v.name)}, {cstr(self.token(v))})" for v in delta.new_initializers])
        g = gof.graph if isinstance(gof, ir.Function) else gof
        other = clist(sorted({v.name for v in g.inputs if v.name} | {v.name for n in g for v in n.outputs if v.name}), cstr)
        new = clist([f"({cstr(self.token(n.outputs[0]))}, {self.meta_lit(self.pre_meta.get(id(n), []))})" for n in new_nodes])
        newv = clist([self.token(v) for n in new_nodes for v in n.outputs], cstr)
        deadl = clist([f"({cstr(a)}, {cstr(b)})" for a, b in dead])
        return (f"(Delta {self.gid(gof)}%nat {self.gid(rec['top_obj'])}%nat {'true' if isinstance(gof, ir.Function) else 'false'} "
                f"{ops} {ini} {other} {cstr(rule.name or '')} {clist(list(matched_keys), cstr)} {clist(list(matched_vals), cstr)} "
                f"{new} {newv} {'true' if rule.remove_nodes else 'false'} {deadl} {fn or 'None'} "
                f"{'true' if rr.merge_metadata else 'false'})")

    def fn_request(self, model, call_node, ordered, gof):
        """as_function: give tokens to the values of the extracted function (the copies keep the names of the originals;
        tokens as they are BEFORE the splice) and describe it: (FnReq literal, cmap literal, cattrs literal) or None."""
        key = (call_node.domain, call_node.op_type, call_node.overload)
        f = model.functions.get(key)
        if f is None:
            return None
        by_name = {}
        for n in ordered:
            for v in list(n.inputs) + list(n.outputs):
                if v is not None and v.name:
                    by_name.setdefault(v.name, v)
        for v in call_node.inputs:
            if v is not None and v.name:
                by_name[v.name] = v
        for fv in f.inputs:
            o = by_name.get(fv.name)
            self.set_token(fv, self.token(o) if o is not None else self.fresh("fnin"))
        body = list(f)
        n_const = max(0, len(body) - len(ordered))
        consts, copies = body[:n_const], body[n_const:]
        for c in consts:
            for v in c.outputs:
                self.set_token(v, self.fresh("fnconst"))
        for n in copies:
            for v in n.outputs:
                o = by_name.get(v.name)
                self.set_token(v, self.token(o) if o is not None else self.fresh("fnval"))
        const_out = {id(v) for c in consts for v in c.outputs}
        cmap = []
        for fn_node, orig in zip(copies, ordered):
            for fi, oi in zip(fn_node.inputs, orig.inputs):
                if fi is not None and id(fi) in const_out and oi is not None:
                    pair = (self.token(oi), self.token(fi))
                    if pair not in cmap:
                        cmap.append(pair)
        # the tensor each Constant node holds is the const_value of the caller's value it stands for (hypothesis
        # `consts_bound` of C07_as_function_with_constants_sound, observed)
        import numpy as np
        prod = {id(v): c for c in consts for v in c.outputs}
        for fn_node, orig in zip(copies, ordered):
            for fi, oi in zip(fn_node.inputs, orig.inputs):
                if fi is not None and id(fi) in prod and oi is not None:
                    try:
                        a = prod[id(fi)].attributes["value"].value.numpy()
                        b = oi.const_value.numpy() if oi.const_value is not None else None
                        same = b is not None and a.dtype == b.dtype and a.shape == b.shape and a.tobytes() == b.tobytes()
                    except Exception:
                        same = False
                    if not same:
                        self.errors.append("as_function: a copied Constant node does not hold the const_value of the value it replaces")
                    self.const_copies += 1
        cattrs = []
        for c in consts:
            cattrs.append(clist([f"({cstr(name)}, AStr {cstr(_digest_attr(c.attributes[name]))})" for name in sorted(c.attributes)]))
        import inspect
        import onnxscript.rewriter._rewrite_rule as rr
        body_domains = "for node in nodes}" in inspect.getsource(rr.RewriteRuleSet._apply_to_graph_or_function)
        used = clist([(n.domain if n.domain != "ai.onnx" else "") for n in (body if body_domains else ordered)], cstr)
        req = (f"(Some (FnReq {cstr(call_node.domain)} {cstr(call_node.op_type)} {used} "
               f"{clist([self.token(v) for v in f.inputs], cstr)} {clist([self.node_lit(n) for n in body])} "
               f"{clist([self.token(v) for v in f.outputs], cstr)}))")
        return req, clist([f"({cstr(x)}, {cstr(y)})" for x, y in cmap]), clist(cattrs)

    # ---- wrappers
    def install(self, rule_objects):
        import onnxscript.rewriter._rewrite_rule as rr
        tracer = self
        self.rule_index = {id(r): i for i, r in enumerate(rule_objects)}
        orig_apply = rr.RewriteRuleSet._apply_to_graph_or_function
        orig_try = rr.RewriteRule.try_rewrite
        orig_replace = rr.convenience.replace_nodes_and_values
        self._saved = (rr, orig_apply, orig_try, orig_replace)

        def apply_wrapper(self_, model, graph_or_function, **kw):
            import onnx_ir as ir
            top = tracer.depth == 0
            if top:
                tracer.name_all(graph_or_function)
                rec = dict(kind="function" if isinstance(graph_or_function, ir.Function) else "graph",
                           name=getattr(graph_or_function, "name", None), top=graph_or_function,
                           g0=tracer.graph_lit(graph_or_function), apps=[], visits={}, unmodelled=[],
                           matched_sigs=[], new_nodes=0, count=None, gfinal=None, levels={}, ext=[],
                           top_obj=graph_or_function, model=model, known_functions=set(model.functions.keys()), events=[],
                           s0=None, sfinal=None, mevents=[], multi=False)
                tracer.gids.setdefault(id(model.graph), 0)
                try:
                    rec["s0"] = tracer.state_lit(model, graph_or_function, rec["known_functions"])
                except Exception as e:  # instrumentation must never change what the implementation does
                    rec["unmodelled"].append(f"tracer error in the state snapshot: {type(e).__name__}: {e}")
                try:
                    rec["frame0"] = tracer.frame_snapshot(graph_or_function)
                except Exception as e:
                    rec["unmodelled"].append(f"tracer error in the frame snapshot: {type(e).__name__}: {e}")
                tracer.cur = rec
                tracer.sweeps.append(rec)
            tracer.depth += 1
            try:
                count = orig_apply(self_, model, graph_or_function, **kw)
            finally:
                tracer.depth -= 1
            if top:
                rec = tracer.cur
                rec["count"] = count
                rec["gfinal"] = tracer.graph_lit(graph_or_function)
                try:
                    rec["sfinal"] = tracer.state_lit(model, graph_or_function, rec["known_functions"])
                    rec["tops"] = list(tracer.tops)
                except Exception as e:
                    rec["unmodelled"].append(f"tracer error in the state snapshot: {type(e).__name__}: {e}")
                try:
                    tracer.frame_compare(rec, graph_or_function)
                except Exception as e:
                    rec["unmodelled"].append(f"tracer error in the frame comparison: {type(e).__name__}: {e}")
                rec["frame0"] = None
                rec["top"] = None
                rec["top_obj"] = None
                rec["model"] = None
                tracer.cur = None
            return count

        def try_wrapper(self_, model, graph_or_function, node, **kw):
            delta = orig_try(self_, model, graph_or_function, node, **kw)
            rec = tracer.cur
            if rec is not None:
                nodes = list(graph_or_function)
                idx = next((i for i, n in enumerate(nodes) if n is node), None)
                import onnx_ir as ir
                # by design a replacement that creates initializers is dropped at the top level of a function (the rule set
                # goes on with the next rule): not a fire for the iteration model
                dropped = delta is not None and bool(delta.new_initializers) and isinstance(graph_or_function, ir.Function)
                rec["visits"].setdefault(id(graph_or_function), []).append(
                    dict(idx=idx, n=len(nodes), rule=tracer.rule_index.get(id(self_)), fired=delta is not None and not dropped))
                tracer.keep.append(graph_or_function)
                if delta is not None:
                    tracer.stash[id(graph_or_function)] = (delta, self_)
                    for v in delta.new_initializers:
                        tracer.new_inits.add(id(v))
                        tracer.keep.append(v)
                        if id(v) not in tracer.tok:
                            tracer.set_token(v, tracer.fresh("init"))
                        if tracer.tok[id(v)] not in rec["ext"]:
                            rec["ext"].append(tracer.tok[id(v)])
                    try:
                        for n in delta.new_nodes:
                            if id(n) not in tracer.pre_meta:
                                tracer.pre_meta[id(n)] = list(n.metadata_props.items())
                                tracer.keep.append(n)
                        dl = tracer.delta_lit(rec, graph_or_function, delta, self_)
                        rec["events"].append("(EVisit " + dl + ")")
                        rec["mevents"].append("(MVisit " + dl + ")")
                    except Exception as e:
                        rec["unmodelled"].append(f"tracer error at a visit: {type(e).__name__}: {e}")
            return delta

        def replace_wrapper(graph_or_function, insertion_point, old_nodes, new_nodes, old_values, new_values):
            rec = tracer.cur
            info = None
            if rec is not None:
                try:
                    info = tracer.before_splice(rec, graph_or_function, insertion_point, old_nodes, new_nodes,
                                                old_values, new_values)
                except Exception as e:  # instrumentation must never change what the implementation does
                    rec["unmodelled"].append(f"tracer error before splice: {type(e).__name__}: {e}")
            orig_replace(graph_or_function, insertion_point, old_nodes, new_nodes, old_values, new_values)
            if rec is not None and info is not None:
                try:
                    tracer.after_splice(rec, graph_or_function, info, new_nodes)
                except Exception as e:
                    rec["unmodelled"].append(f"tracer error after splice: {type(e).__name__}: {e}")

        namefix_cls = rr.ir_passes_common.NameFixPass
        orig_namefix = namefix_cls.call
        self._saved_namefix = (namefix_cls, orig_namefix)

        def namefix_wrapper(self_, model):
            result = orig_namefix(self_, model)
            try:
                tracer.after_namefix(model)
            except Exception as e:  # observation only
                tracer.errors.append(f"tracer error after NameFixPass: {type(e).__name__}: {e}")
            return result
        namefix_cls.call = namefix_wrapper
        import onnx_ir as ir_
        graph_cls = ir_.Graph
        orig_sort = graph_cls.sort
        self._saved_sort = (graph_cls, orig_sort)

        def sort_wrapper(self_):
            # apply_to_model sorts every container after rules whose pattern has several output nodes
            before = None
            try:
                if tracer.cur is None and tracer.depth == 0 and tracer.sweeps:
                    before = tracer.graph_lit(self_)
            except Exception as e:  # observation only
                tracer.errors.append(f"tracer error before Graph.sort: {type(e).__name__}: {e}")
            result = orig_sort(self_)
            if before is not None:
                try:
                    ext = sorted({tracer.token(v) for g in tracer._graphs_of(self_) for v in g.initializers.values()
                                  if id(v) in tracer.new_inits})
                    tracer.sorts.append((before, tracer.graph_lit(self_), ext))
                except Exception as e:
                    tracer.errors.append(f"tracer error after Graph.sort: {type(e).__name__}: {e}")
            return result
        graph_cls.sort = sort_wrapper
        # the set of names _name_new_values takes for "in use": must be every value name of the model, nested graphs included
        orig_name_new = getattr(rr.RewriteRuleSet, "_name_new_values", None)
        self._saved_name_new = orig_name_new
        if orig_name_new is not None:
            def name_new_wrapper(self_, model, nodes):
                first = getattr(self_, "_used_value_names", None) is None
                expected = unnamed = None
                if first:
                    try:
                        expected = tracer.names_in_use(model)
                        unnamed = [v for n in nodes for v in n.outputs if v.name is None]
                    except Exception as e:
                        tracer.errors.append(f"tracer error before _name_new_values: {type(e).__name__}: {e}")
                result = orig_name_new(self_, model, nodes)
                if expected is not None:
                    try:
                        got = set(self_._used_value_names) - {v.name for v in unnamed} - {None}
                        tracer.used_sets += 1
                        if got != expected:
                            miss, extra = sorted(expected - got)[:4], sorted(got - expected)[:4]
                            tracer.errors.append("the names _name_new_values takes for in use are not the value names of the model "
                                                 f"(nested graphs included): missing {miss}, extra {extra}")
                    except Exception as e:
                        tracer.errors.append(f"tracer error after _name_new_values: {type(e).__name__}: {e}")
                return result
            rr.RewriteRuleSet._name_new_values = name_new_wrapper
        rr.RewriteRuleSet._apply_to_graph_or_function = apply_wrapper
        rr.RewriteRule.try_rewrite = try_wrapper
        rr.convenience.replace_nodes_and_values = replace_wrapper

    def uninstall(self):
        if self._saved:
            rr, a, t, r = self._saved
            rr.RewriteRuleSet._apply_to_graph_or_function = a
            rr.RewriteRule.try_rewrite = t
            rr.convenience.replace_nodes_and_values = r
            self._saved = None
        if getattr(self, "_saved_name_new", None) is not None:
            import onnxscript.rewriter._rewrite_rule as rr_
            rr_.RewriteRuleSet._name_new_values = self._saved_name_new
            self._saved_name_new = None
        if getattr(self, "_saved_sort", None):
            cls, orig = self._saved_sort
            cls.sort = orig
            self._saved_sort = None
        if getattr(self, "_saved_namefix", None):
            cls, orig = self._saved_namefix
            cls.call = orig
            self._saved_namefix = None

    def after_namefix(self, model):
        """The containers as token graphs and as graphs over the names NameFixPass left, with the (token, name) table."""
        import onnx_ir as ir
        for top in [model.graph] + list(model.functions.values()):
            g = top.graph if isinstance(top, ir.Function) else top
            pairs, seen = [], set()

            def tokn(v):
                # graph / function / subgraph inputs, outputs and initializers keep their names under NameFixPass on every generated host
                # (the relabelling model does not rename them): they are their own token here
                if v is None:
                    return None
                return (v.name or "") if (v.is_graph_input() or v.is_initializer() or v.is_graph_output()) else self.token(v)

            def name(v):
                if v is None:
                    return None
                t, nm = tokn(v), v.name or ""
                if t not in seen:
                    seen.add(t)
                    if t != nm:
                        pairs.append((t, nm))
                return nm
            gname = self.graph_lit(g, namer=name, no_inits=True)
            gtok = self.graph_lit(g, namer=tokn, no_inits=True)
            vis = sorted({tokn(v) for gg in self._graphs_of(top) for v in gg.initializers.values()})
            label = "main" if top is model.graph else f"fn:{top.name}:{top.overload}"
            self.namefix.append((label, gtok, gname, clist([f"({cstr(a)}, {cstr(b)})" for a, b in pairs]), clist(vis, cstr)))

    def names_in_use(self, model):
        """Every value name of the model: inputs, initializers and node outputs of the main graph, of every function and of
        every graph nested in them (what a fresh name must differ from)."""
        used = set()
        for top in [model.graph] + list(model.functions.values()):
            for g in self._graphs_of(top):
                used.update(v.name for v in g.inputs)
                used.update(g.initializers)
                for n in g:
                    used.update(v.name for v in n.outputs)
        used.discard(None)
        return used

    # ---- frame: everything no splice matched keeps its name, doc_string and metadata_props (direct oracle)
    def frame_snapshot(self, top):
        nodes, values = {}, {}

        def val(v):
            if v is not None and id(v) not in values:
                values[id(v)] = (v, v.name, v.doc_string, dict(v.metadata_props))
        for g in self._graphs_of(top):
            for v in list(g.inputs) + list(g.initializers.values()):
                val(v)
            for n in g:
                nodes[id(n)] = (n, n.name, n.doc_string, dict(n.metadata_props), n.op_type, n.domain, n.overload,
                                [id(v) for v in n.outputs])
                for v in n.outputs:
                    val(v)
        return nodes, values

    def frame_compare(self, rec, top):
        nodes0, values0 = rec.get("frame0") or ({}, {})
        touched_n, touched_v = rec.get("touched_nodes", set()), rec.get("touched_values", set())
        bad = rec.setdefault("frame_bad", [])
        rec["frame_checked"] = 0
        live = set()
        for g in self._graphs_of(top):
            for n in g:
                live.add(id(n))
                old = nodes0.get(id(n))
                if old is None or id(n) in touched_n:
                    continue
                rec["frame_checked"] += 1
                now = (n.name, n.doc_string, dict(n.metadata_props), n.op_type, n.domain, n.overload, [id(v) for v in n.outputs])
                if now != old[1:]:
                    what = [k for k, a, b in zip(("name", "doc_string", "metadata_props", "op_type", "domain", "overload", "outputs"), old[1:], now) if a != b]
                    bad.append(f"node {n.op_type} -> {[v.name for v in n.outputs]}: {what} changed although no rule matched it")
                for v in n.outputs:
                    o = values0.get(id(v))
                    if o is None or id(v) in touched_v:
                        continue
                    if (v.name, v.doc_string, dict(v.metadata_props)) != o[1:]:
                        bad.append(f"value {o[1]}: name/doc_string/metadata_props changed although no rule matched its producer")
        # a node that left the container although no removing splice matched it
        for k, old in nodes0.items():
            if k not in live and k not in touched_n:
                bad.append(f"node {old[4]} -> left the container although no rule matched it")

    def sig(self, n):
        return (n.domain if n.domain != "ai.onnx" else "", n.op_type, tuple(self.token(v) or "" for v in n.inputs),
                tuple(self.token(v) for v in n.outputs))

    def before_splice(self, rec, gof, root, old_nodes, new_nodes, old_values, new_values):
        delta, rule = self.stash.get(id(gof), (None, None))
        nodes = list(gof)
        root_idx = next((i for i, n in enumerate(nodes) if n is root), None)
        matched = list(delta.match.nodes) if delta is not None else list(old_nodes)
        midx = sorted(i for i, n in enumerate(nodes) if any(n is m for m in matched))
        remove = bool(rule.remove_nodes) if rule is not None else bool(old_nodes)
        info = dict(root=root_idx, matched=midx, remove=remove, n_before=len(nodes), gid=id(gof))
        why = None
        if root_idx is None:
            why = "insertion point is not a node of the graph"
        elif len(midx) != len(matched):
            why = "a matched node is not a node of the graph being rewritten"
        elif not midx or root_idx not in midx:
            why = "the insertion point is not a matched node"
        elif remove and {id(n) for n in old_nodes} != {id(n) for n in matched}:
            why = "removed nodes differ from the matched nodes"
        elif any(id(v) in self.tok for v in new_values):
            why = "a replacement output is a pre-existing value"
        elif any(not any(ov.producer() is m for m in matched) for ov in old_values):
            why = "a pattern output is not produced by a matched node"
        for n in matched:
            rec["matched_sigs"].append((self.sig(n), remove))
            # overlapping matches: a node removed by an earlier splice of the sweep must not be matched again
            if id(n) in rec.setdefault("removed_nodes", set()):
                rec["unmodelled"].append("a matched node had been removed by an earlier splice of the sweep (stale node)")
            rec.setdefault("touched_nodes", set()).add(id(n))
            for v in n.outputs:
                rec.setdefault("touched_values", set()).add(id(v))
            if remove:
                rec["removed_nodes"].add(id(n))
        for v in list(old_values) + list(new_values):
            rec.setdefault("touched_values", set()).add(id(v))
        for n in new_nodes:
            rec.setdefault("touched_nodes", set()).add(id(n))
        if why:
            rec["unmodelled"].append(why)
            info["skip"] = True
            # keep the tokens meaningful for the later (modelled or not) applications and for the node signatures
            for ov, nv in zip(old_values, new_values):
                if id(nv) not in self.tok:
                    self.set_token(nv, self.token(ov))
            return info
        path = self.find_path(rec["top"], gof)
        if path is None:
            rec["unmodelled"].append("graph being rewritten is not reachable from the swept graph")
            info["skip"] = True
            return info
        ordered = [nodes[i] for i in midx]
        info["mkeys"] = [self.token(n.outputs[0]) for n in matched if n.outputs]
        info["mvals"] = [self.token(v) for n in ordered for v in n.outputs]
        info["delta"], info["rule"], info["fn"] = delta, rule, None
        # pattern with several output nodes: matched nodes after the insertion point / outputs of other nodes than it
        info["multi"] = midx[-1] != root_idx or any(ov.producer() is not root for ov in old_values)
        if rule is not None and rule.as_function and len(new_nodes) == 1:
            info["fn"] = self.fn_request(rec["model"], new_nodes[0], ordered, gof)
            if info["fn"] is None:
                rec["unmodelled"].append("as_function: the extracted function is not in model.functions under the call node's identifier")
        pouts, dead = [], []
        for ov, nv in zip(old_values, new_values):
            t = self.token(ov)
            pouts.append(t)
            self.set_token(nv, t)
            d = self.fresh("dead")
            self.set_token(ov, d)
            dead.append((t, d))
        for n in new_nodes:
            for v in n.outputs:
                if id(v) not in self.tok:
                    self.set_token(v, self.fresh("new"))
        info.update(path=path, pouts=pouts, dead=dead if not remove else [])
        return info

    def after_splice(self, rec, gof, info, new_nodes):
        rec["new_nodes"] += len(new_nodes)
        if info.get("skip"):
            return
        mask = ["true" if i in info["matched"] else "false" for i in range(info["root"] + 1)]
        mmask = ["true" if i in info["matched"] else "false" for i in range(max(info["matched"]) + 1)]
        new = clist([self.node_lit(n) for n in new_nodes])
        dead = clist([f"({cstr(a)}, {cstr(b)})" for a, b in info["dead"]])
        app = f"(App {clist(mask)} {new} {'true' if info['remove'] else 'false'} {dead})"
        mapp = f"(MApp {clist(mmask)} {info['root']}%nat {new} {'true' if info['remove'] else 'false'} {dead})"
        path = clist([f"({i}%nat, {cstr(k)})" for i, k in info["path"]])
        if info.get("multi"):
            rec["multi"] = True
        rec["apps"].append(f"({path}, {app}, {clist(info['pouts'], cstr)})")
        rec.setdefault("mapps", []).append(f"({path}, {mapp})")
        if info.get("delta") is not None:
            fn = info.get("fn")
            d = self.delta_lit(rec, gof, info["delta"], info["rule"], info["mkeys"], info["mvals"], new_nodes, info["dead"],
                               fn=fn[0] if fn else None)
            rec["events"].append(f"(ESplice {path} {app} {d} {fn[1] if fn else '[]'} {fn[2] if fn else '[]'})")
            rec["mevents"].append(f"(MSplice {path} {mapp} {d} {fn[1] if fn else '[]'} {fn[2] if fn else '[]'})")
        else:
            rec["unmodelled"].append("a splice without a recorded replacement")
        removed = len(info["matched"]) if info["remove"] else 0
        removed_before = len([i for i in info["matched"] if i <= info["root"]]) if info["remove"] else 0
        rec["levels"].setdefault(info["gid"], []).append(
            dict(root=info["root"], next=info["root"] + 1 - removed_before, n_after=info["n_before"] - removed + len(new_nodes)))
