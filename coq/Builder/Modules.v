(* Model A of C18: onnxscript.nn module trees and the names under which their parameters are
   realised as initializers.

   Source modelled (read the Python for the truth; line numbers of the pinned tree):
     nn/_module.py       Module.__init__/_set_name/__setattr__/__call__/state_dict  (41-90, 144-158)
     nn/_parameter.py    Parameter._realize                                          (60-86)
     nn/_module_list.py  ModuleList.__init__/_set_name/_register_child/append/__getitem__(slice)
     nn/_sequential.py   Sequential._set_name/_register_child/forward
     _internal/builder.py GraphBuilder.push_module/_scope_name_parts/_qualify_initializer_name (814-849)

   Two layers:
     * `mtree`  : the object graph as it exists after construction (every module carries its
                  current `_name` field; parameters carry an identity and their own `name` field);
     * `spec`   : a construction program (what the user's __init__ code does, in order), with
                  `build`/`finish` replaying `__setattr__`, `_register_child`, `_set_name`, `append`,
                  slicing exactly as the Python does, producing an `mtree`.
   `sd_keys` is `state_dict()`/`named_parameters()` key order, `realised_names` is the key list of
   `graph.initializers` after the root module has been called once with a forward that calls every
   child in registration order.

   `cfg` records three behaviours of the code that the harness probes on every run (so that the
   model follows the code if a proposed fix is applied); the values on the pinned tree are in
   `cfg_pinned`.  No proofs in this file. *)
From Coq Require Import String List Bool Arith.
Require Import OV.Builder.Strings.
Import ListNotations.
Local Open Scope string_scope.

Inductive kind := KMod | KList | KSeq.
Definition kind_eqb (a b : kind) : bool :=
  match a, b with KMod, KMod | KList, KList | KSeq, KSeq => true | _, _ => false end.

(* one entry of a module's `_parameters`: dict key, identity of the Parameter object, and the
   object's own `name` field when it is realised (before qualification) *)
Record pentry := PE { pe_key : string; pe_id : nat; pe_name : string }.

(* sub = true: forward() calls the children inside a subgraph body (GraphBuilder.subgraph /
   build_graph(parent=...)), i.e. through a child builder *)
Inductive mtree :=
| MT (k : kind) (nm : option string) (ps : list pentry) (cs : list (string * mtree)) (sub : bool).

Definition t_kind (t : mtree) := let 'MT k _ _ _ _ := t in k.
Definition t_name (t : mtree) := let 'MT _ n _ _ _ := t in n.
Definition t_params (t : mtree) := let 'MT _ _ p _ _ := t in p.
Definition t_children (t : mtree) := let 'MT _ _ _ c _ := t in c.
Definition t_sub (t : mtree) := let 'MT _ _ _ _ s := t in s.

Record cfg := Cfg {
  (* Parameter._realize qualifies with the ROOT builder's scope stack (pinned tree) rather than the
     scope stack of the builder the module is being called on *)
  realize_uses_root_scope : bool;
  (* _register_child of a ModuleList that already has a name, and of a Sequential, renames a child
     that already has a name (pinned tree: false, the child keeps its own name, whereas the same
     child passed to the constructor is renamed when the container is attached) *)
  container_renames_named_child : bool;
  (* ModuleList._register_child on a list without a name gives an unnamed child its key through
     _set_name (propagating into a nested ModuleList) rather than by writing the field only
     (pinned tree: false) *)
  unattached_list_propagates : bool
}.
Definition cfg_pinned := Cfg true false false.
Definition cfg_fixed := Cfg false true true.

(* ---------------------------------------------------------------- naming operations *)

(* object.__setattr__(module, "_name", n): the field only *)
Definition set_field (n : string) (t : mtree) : mtree :=
  let 'MT k _ ps cs sb := t in MT k (Some n) ps cs sb.

(* module._set_name(n): virtual; ModuleList prefixes its children with n.key, Sequential resets its
   children to their bare keys, a plain Module changes only itself *)
Fixpoint set_name (n : string) (t : mtree) {struct t} : mtree :=
  let 'MT k _ ps cs sb := t in
  match k with
  | KMod => MT k (Some n) ps cs sb
  | KList =>
    MT k (Some n) ps
       ((fix go (l : list (string * mtree)) : list (string * mtree) :=
           match l with [] => [] | (key, c) :: r => (key, set_name (dot n key) c) :: go r end) cs) sb
  | KSeq =>
    MT k (Some n) ps
       ((fix go (l : list (string * mtree)) : list (string * mtree) :=
           match l with [] => [] | (key, c) :: r => (key, set_name key c) :: go r end) cs) sb
  end.

(* Module.__setattr__(key, child): rename only an unnamed child *)
Definition setattr_child (key : string) (c : mtree) : mtree :=
  match t_name c with None => set_name key c | Some _ => c end.

(* ModuleList._register_child(key, child) on a list whose current name is pn *)
Definition register_list (cf : cfg) (pn : option string) (key : string) (c : mtree) : mtree :=
  match t_name c, pn with
  | None, Some p => set_name (dot p key) c
  | None, None => if unattached_list_propagates cf then set_name key c else set_field key c
  | Some _, Some p => if container_renames_named_child cf then set_name (dot p key) c else c
  | Some _, None => c
  end.

(* Sequential._register_child(key, child): pinned tree writes the field of an unnamed child only;
   with the proposed patch every child is given its key through _set_name *)
Definition register_seq (cf : cfg) (key : string) (c : mtree) : mtree :=
  if container_renames_named_child cf then set_name key c
  else match t_name c with None => set_field key c | Some _ => c end.

Definition register (cf : cfg) (k : kind) (pn : option string) (key : string) (c : mtree) : mtree :=
  match k with KSeq => register_seq cf key c | _ => register_list cf pn key c end.

Definition add_child (t : mtree) (key : string) (c : mtree) : mtree :=
  let 'MT k n ps cs sb := t in MT k n ps (cs ++ [(key, c)])%list sb.

(* ---------------------------------------------------------------- construction programs *)

Inductive spec :=
(* class X(Module): __init__(self): super().__init__(nm); self.<pe_key> = <Parameter>...;
   self.<key> = <child>... (children constructed in place; a container child's `late` appends
   are executed right after the assignment) *)
| SMod (nm : option string) (ps : list pentry) (cs : list (string * spec)) (sub : bool)
(* c = ModuleList(init) / Sequential( *init ); c.append(e) for e in early; <c is registered in its
   parent / assigned to an attribute>; c.append(l) for l in late *)
| SCont (seq : bool) (init early late : list spec)
(* base[lo:hi] of a container built on its own (ModuleList.__getitem__(slice): a fresh unnamed
   ModuleList holding the same child objects under new keys) *)
| SSlice (lo hi : nat) (base : spec).

Definition ckind (seq : bool) : kind := if seq then KSeq else KList.

Definition slice_list {A} (lo hi : nat) (l : list A) : list A := firstn (hi - lo) (skipn lo l).

Section Build.
  Variable cf : cfg.

  Fixpoint build (s : spec) {struct s} : mtree :=
    match s with
    | SMod nm ps cs sb =>
      MT KMod nm ps
         ((fix go (l : list (string * spec)) : list (string * mtree) :=
             match l with
             | [] => []
             | (key, c) :: r => (key, finish c (setattr_child key (build c))) :: go r
             end) cs) sb
    | SCont seq init early late =>
      let k := ckind seq in
      let go :=
        (fix go (l : list spec) (t : mtree) {struct l} : mtree :=
           match l with
           | [] => t
           | c :: r =>
             let key := dec (List.length (t_children t)) in
             go r (add_child t key (finish c (register cf k (t_name t) key (build c))))
           end) in
      go early (go init (MT k None [] [] false))
    | SSlice lo hi base =>
      (fix go (l : list (string * mtree)) (t : mtree) {struct l} : mtree :=
         match l with
         | [] => t
         | (_, c) :: r =>
           let key := dec (List.length (t_children t)) in
           go r (add_child t key (register cf KList (t_name t) key c))
         end) (slice_list lo hi (t_children (build base))) (MT KList None [] [] false)
    end
  (* the operations executed on the object after it has been attached to its parent *)
  with finish (s : spec) (t : mtree) {struct s} : mtree :=
    match s with
    | SCont seq _ _ late =>
      (fix go (l : list spec) (t : mtree) {struct l} : mtree :=
         match l with
         | [] => t
         | c :: r =>
           let key := dec (List.length (t_children t)) in
           go r (add_child t key (finish c (register cf (t_kind t) (t_name t) key (build c))))
         end) late t
    | _ => t
    end.

  (* the root object: constructed, then its own late appends *)
  Definition construct (s : spec) : mtree := finish s (build s).
End Build.

(* ---------------------------------------------------------------- naming discipline of a program *)
(* where a module is constructed: as the root, as an attribute of a Module, inside a container *)
Inductive under := URoot | UAttr (key : string) | UCont.

Definition spec_kind (s : spec) : kind :=
  match s with SMod _ _ _ _ => KMod | SCont seq _ _ _ => ckind seq | SSlice _ _ _ => KList end.
Definition spec_name (s : spec) : option string :=
  match s with SMod nm _ _ _ => nm | _ => None end.
Definition is_cont (s : spec) : bool := match s with SMod _ _ _ _ => false | _ => true end.

(* explicit module names are used consistently: a module assigned to attribute `key` is unnamed or
   named `key`; modules put into containers are unnamed (ModuleList/Sequential take no name);
   a Sequential holds no ModuleList directly (it could not call it); only containers are sliced *)
Fixpoint consistentb (u : under) (s : spec) {struct s} : bool :=
  match s with
  | SMod nm _ cs _ =>
    (match u, nm with
     | URoot, _ => true
     | _, None => true
     | UAttr key, Some n => String.eqb n key
     | UCont, Some _ => false
     end) &&
    (fix go (l : list (string * spec)) : bool :=
       match l with [] => true | (key, c) :: r => consistentb (UAttr key) c && go r end) cs
  | SCont seq i e l =>
    let chk := (fix go (l : list spec) : bool :=
                  match l with
                  | [] => true
                  | c :: r => consistentb UCont c &&
                              (if seq then negb (kind_eqb (spec_kind c) KList) else true) && go r
                  end) in
    chk i && chk e && chk l
  | SSlice _ _ b => is_cont b && consistentb UCont b
  end.

(* ---------------------------------------------------------------- state_dict keys *)

Definition prefix (p k : string) : string := if String.eqb p "" then k else dot p k.

(* Module.state_dict(prefix)/named_parameters(prefix): own parameters, then children in dict order *)
Fixpoint sd_entries (pre : string) (t : mtree) {struct t} : list (string * nat) :=
  let 'MT _ _ ps cs _ := t in
  (map (fun p => (prefix pre (pe_key p), pe_id p)) ps ++
   (fix go (l : list (string * mtree)) : list (string * nat) :=
      match l with [] => [] | (key, c) :: r => (sd_entries (prefix pre key) c ++ go r)%list end) cs)%list.

Definition sd_keys (t : mtree) : list string := map fst (sd_entries "" t).

(* ---------------------------------------------------------------- realisation *)

(* GraphBuilder._qualify_initializer_name with scope stack st (names only) *)
Definition qualify_init (st : list string) (name : string) : string :=
  match nonempty_parts st with
  | [] => name
  | ps => dot (join_with "." ps) name
  end.

(* The (parameter identity, qualified name) pairs in the order Parameter._realize is reached when the
   module is called: Module.__call__ pushes (name or ""), realises its own parameters, runs forward
   (children in order), pops.  A ModuleList is never called: forward code iterates over it, so its
   children are called under the caller's scope.
   rst = scope stack of the ROOT builder, st = scope stack of the builder the call goes through;
   they are the same list until a forward enters a subgraph body (the child builder starts from a
   copy of its parent's stack, pushes go to the child builder only). *)
Fixpoint events (cf : cfg) (insub : bool) (rst st : list string) (t : mtree) {struct t}
  : list (nat * string) :=
  let 'MT k nm ps cs sb := t in
  match k with
  | KList =>
    (fix go (l : list (string * mtree)) : list (nat * string) :=
       match l with [] => [] | (_, c) :: r => (events cf insub rst st c ++ go r)%list end) cs
  | _ =>
    let me := match nm with Some n => n | None => "" end in
    let st' := (st ++ [me])%list in
    let rst' := if insub then rst else st' in
    let qst := if realize_uses_root_scope cf then rst' else st' in
    let insub' := insub || sb in
    (map (fun p => (pe_id p, qualify_init qst (pe_name p))) ps ++
     (fix go (l : list (string * mtree)) : list (nat * string) :=
        match l with [] => [] | (_, c) :: r => (events cf insub' rst' st' c ++ go r)%list end) cs)%list
  end.

(* Parameter._realized: only the first realisation of an object has an effect *)
Fixpoint first_by_id (seen : list nat) (ev : list (nat * string)) : list (nat * string) :=
  match ev with
  | [] => []
  | (i, n) :: r => if existsb (Nat.eqb i) seen then first_by_id seen r
                   else (i, n) :: first_by_id (i :: seen) r
  end.

(* root.graph.initializers[name] = param : dict keys in first-insertion order *)
Fixpoint dict_keys (seen : list string) (l : list string) : list string :=
  match l with
  | [] => []
  | x :: r => if mem_str x seen then dict_keys seen r else x :: dict_keys (x :: seen) r
  end.

Definition realised_names (cf : cfg) (t : mtree) : list string :=
  dict_keys [] (map snd (first_by_id [] (events cf false [] [] t))).

(* what the real code does with an invalid tree: calling a ModuleList raises NotImplementedError
   (a ModuleList directly inside a Sequential), calling an empty Sequential raises RuntimeError *)
Fixpoint callable_ok (t : mtree) {struct t} : bool :=
  let 'MT k _ _ cs _ := t in
  (match k, cs with KSeq, [] => false | _, _ => true end) &&
  (fix go (l : list (string * mtree)) : bool :=
     match l with
     | [] => true
     | (_, c) :: r => (match k, t_kind c with KSeq, KList => false | _, _ => true end) && callable_ok c && go r
     end) cs.

(* ---------------------------------------------------------------- static hypotheses (decidable) *)
(* every dict key is a non-empty dot-free string (Python identifiers, list indices), sibling keys are
   distinct (dicts), and every Parameter object's own name is the key it is registered under
   (unnamed, or named like its attribute) *)
Fixpoint keys_okb (t : mtree) {struct t} : bool :=
  let 'MT k _ ps cs _ := t in
  (* a ModuleList is never called, so parameters attached to it directly would never be realised;
     no construction program creates any *)
  (match k, ps with KList, _ :: _ => false | _, _ => true end) &&
  forallb (fun p => keyok (pe_key p) && String.eqb (pe_name p) (pe_key p)) ps &&
  nodup_strb (map pe_key ps) && nodup_strb (map fst cs) &&
  (fix go (l : list (string * mtree)) : bool :=
     match l with [] => true | (key, c) :: r => keyok key && keys_okb c && go r end) cs.

(* no forward() calls its children inside a subgraph body *)
Fixpoint nosubb (t : mtree) {struct t} : bool :=
  let 'MT _ _ _ cs sb := t in
  negb sb &&
  (fix go (l : list (string * mtree)) : bool :=
     match l with [] => true | (_, c) :: r => nosubb c && go r end) cs.

(* identities of all registered Parameter objects, state_dict order *)
Definition param_ids (t : mtree) : list nat := map snd (sd_entries "" t).
Fixpoint nodup_natb (l : list nat) : bool :=
  match l with [] => true | x :: r => negb (existsb (Nat.eqb x) r) && nodup_natb r end.

Definition root_name (t : mtree) : string := match t_name t with Some n => n | None => "" end.

(* ---------------------------------------------------------------- sharing (Parameter objects / sub-modules) *)
(* state_dict entries together with the Parameter object's own name qualified by the same key path:
   (full key, identity, path ++ pe_name).  Its first two components are `sd_entries`. *)
Fixpoint sd_entries3 (pre : string) (t : mtree) {struct t} : list (string * nat * string) :=
  let 'MT _ _ ps cs _ := t in
  (map (fun p => (prefix pre (pe_key p), pe_id p, prefix pre (pe_name p))) ps ++
   (fix go (l : list (string * mtree)) : list (string * nat * string) :=
      match l with [] => [] | (key, c) :: r => (sd_entries3 (prefix pre key) c ++ go r)%list end) cs)%list.
Definition e3_key (e : string * nat * string) : string := fst (fst e).
Definition e3_id (e : string * nat * string) : nat := snd (fst e).
Definition e3_name (e : string * nat * string) : string := snd e.

(* the first element per identity, in list order (what survives Parameter._realized) *)
Fixpoint first_occ {A : Type} (idf : A -> nat) (seen : list nat) (l : list A) : list A :=
  match l with
  | [] => []
  | x :: r => if existsb (Nat.eqb (idf x)) seen then first_occ idf seen r
              else x :: first_occ idf (idf x :: seen) r
  end.

(* state_dict entries of the first registration (state_dict order = call order) of every Parameter object *)
Definition first_entries (t : mtree) : list (string * nat) := first_occ snd [] (sd_entries "" t).
Definition first_keys (t : mtree) : list string := map fst (first_entries t).
Definition distinct_ids (t : mtree) : list nat := map snd (first_entries t).

(* the Parameter objects that become initializers, in the order they are realised *)
Definition realised_ids (cf : cfg) (t : mtree) : list nat :=
  map fst (first_by_id [] (events cf false [] [] t)).

(* root.graph.initializers as a dict name -> Parameter identity: first-insertion order, last write wins *)
Fixpoint dict_set (k : string) (v : nat) (d : list (string * nat)) : list (string * nat) :=
  match d with
  | [] => [(k, v)]
  | (k', v') :: r => if String.eqb k k' then (k', v) :: r else (k', v') :: dict_set k v r
  end.
Definition init_dict (cf : cfg) (t : mtree) : list (string * nat) :=
  fold_left (fun d e => dict_set (snd e) (fst e) d) (first_by_id [] (events cf false [] [] t)) [].

(* a ModuleList carries no parameters of its own (it is never called) *)
Fixpoint lp_okb (t : mtree) {struct t} : bool :=
  let 'MT k _ ps cs _ := t in
  (match k, ps with KList, _ :: _ => false | _, _ => true end) &&
  (fix go (l : list (string * mtree)) : bool :=
     match l with [] => true | (_, c) :: r => lp_okb c && go r end) cs.

(* `keys_okb` without the clause "every Parameter's own name is the key it is registered under":
   a shared Parameter object has ONE name (given by its first registration, or explicitly), so that
   clause cannot hold for an object registered under two different keys *)
Fixpoint keys_shb (t : mtree) {struct t} : bool :=
  let 'MT k _ ps cs _ := t in
  (match k, ps with KList, _ :: _ => false | _, _ => true end) &&
  forallb (fun p => keyok (pe_key p)) ps &&
  nodup_strb (map pe_key ps) && nodup_strb (map fst cs) &&
  (fix go (l : list (string * mtree)) : bool :=
     match l with [] => true | (key, c) :: r => keyok key && keys_shb c && go r end) cs.

(* ... it is required of the FIRST registration (call order) of every Parameter object only *)
Definition first_named_okb (t : mtree) : bool :=
  forallb (fun e => String.eqb (e3_name e) (e3_key e)) (first_occ e3_id [] (sd_entries3 "" t)).

Definition sharing_okb (cf : cfg) (t : mtree) : bool :=
  keys_shb t && first_named_okb t && (negb (realize_uses_root_scope cf) || nosubb t).

(* the hypotheses of `program_okb` minus "no Parameter object is shared" *)
Definition program_sh_okb (cf : cfg) (s : spec) : bool :=
  consistentb URoot s && negb (kind_eqb (spec_kind s) KList) && sharing_okb cf (construct cf s).

(* decidable form of `shape_ok` (names propagated: every child of a callable module carries its key,
   every child of a ModuleList its parent's name + key), for evaluating the tree-level hypotheses on
   object graphs observed on the real code *)
Fixpoint namedb (acc : string) (t : mtree) {struct t} : bool :=
  let 'MT k nm _ cs _ := t in
  (match nm with Some n => String.eqb n acc | None => false end) &&
  (fix go (l : list (string * mtree)) : bool :=
     match l with
     | [] => true
     | (key, c) :: r => namedb (match k with KList => dot acc key | _ => key end) c && go r
     end) cs.
Fixpoint shape_okb (t : mtree) {struct t} : bool :=
  let 'MT k _ _ cs _ := t in
  (fix go (l : list (string * mtree)) : bool :=
     match l with
     | [] => true
     | (key, c) :: r => (match k with KList => shape_okb c | _ => namedb key c end) && go r
     end) cs.
Definition tree_sh_okb (cf : cfg) (t : mtree) : bool :=
  negb (kind_eqb (t_kind t) KList) && shape_okb t && sharing_okb cf t.

(* ---------------------------------------------------------------- shared sub-modules: aliasing a module *)
(* `parent.<key> = <module already registered at path src>` executed after construction, parent a plain
   Module: Module.__setattr__ renames only an unnamed child, so the object (which has ONE `_name`, set
   by its first registration) is registered a second time as it is.  In an mtree the shared object
   shows as two identical subtrees.  Registering an existing module in a ModuleList / Sequential is NOT
   expressed here: `_register_child` renames the object, which also changes the name seen through its
   first registration (the harness observes such object graphs directly, see c18_sharing.py). *)
Fixpoint find_child (key : string) (cs : list (string * mtree)) : option mtree :=
  match cs with
  | [] => None
  | (k, c) :: r => if String.eqb k key then Some c else find_child key r
  end.
Fixpoint subtree (path : list string) (t : mtree) {struct path} : option mtree :=
  match path with
  | [] => Some t
  | key :: r => match find_child key (t_children t) with Some c => subtree r c | None => None end
  end.
Fixpoint graft_at (dst : list string) (key : string) (c : mtree) (t : mtree) {struct dst} : option mtree :=
  let 'MT k nm ps cs sb := t in
  match dst with
  | [] => match k with
          | KMod => if mem_str key (map fst cs) then None
                    else Some (MT k nm ps (cs ++ [(key, setattr_child key c)])%list sb)
          | _ => None
          end
  | d :: r =>
    match
      (fix go (l : list (string * mtree)) : option (list (string * mtree)) :=
         match l with
         | [] => None
         | (k', c') :: l' =>
           if String.eqb k' d
           then match graft_at r key c c' with Some c'' => Some ((k', c'') :: l') | None => None end
           else match go l' with Some l'' => Some ((k', c') :: l'') | None => None end
         end) cs
    with
    | Some cs' => Some (MT k nm ps cs' sb)
    | None => None
    end
  end.
(* one alias: (src path, dst path, key) *)
Definition alias_step (ot : option mtree) (a : list string * list string * string) : option mtree :=
  let '(src, dst, key) := a in
  match ot with
  | Some t => match subtree src t with Some c => graft_at dst key c t | None => None end
  | None => None
  end.
Definition aliases (t : mtree) (al : list (list string * list string * string)) : option mtree :=
  fold_left alias_step al (Some t).
(* every alias uses the key under which the module was registered first (its name) *)
Fixpoint alias_keys_match (t : mtree) (al : list (list string * list string * string)) : bool :=
  match al with
  | [] => true
  | (src, dst, key) :: r =>
    match subtree src t with
    | Some c => (match t_name c with Some n => String.eqb n key | None => false end) &&
                (match alias_step (Some t) (src, dst, key) with Some t' => alias_keys_match t' r | None => false end)
    | None => false
    end
  end.

(* no alias registers something INSIDE a module that is shared (the copies in the mtree would have to
   change together): no destination path extends a source path *)
Fixpoint is_prefix (a b : list string) : bool :=
  match a, b with
  | [], _ => true
  | x :: a', y :: b' => String.eqb x y && is_prefix a' b'
  | _ :: _, [] => false
  end.
Definition alias_dsts_ok (al : list (list string * list string * string)) : bool :=
  forallb (fun a => forallb (fun b => negb (is_prefix (fst (fst b)) (snd (fst a)))) al) al.

(* ---------------------------------------------------------------- correspondence helpers (sharing) *)
Definition pair_eqb (a b : string * nat) : bool := String.eqb (fst a) (fst b) && Nat.eqb (snd a) (snd b).
Fixpoint list_pair_eqb (a b : list (string * nat)) : bool :=
  match a, b with
  | [], [] => true
  | x :: a', y :: b' => pair_eqb x y && list_pair_eqb a' b'
  | _, _ => false
  end.
(* a case: the object graph (or the program that builds it), graph.initializers observed on the real
   code as (name, Parameter identity) in dict order, named_parameters() observed as (key, identity) *)
Definition tcase := (mtree * list (string * nat) * list (string * nat))%type.
Definition agrees_t (cf : cfg) (c : tcase) : bool :=
  let '(t, obs_inits, obs_named) := c in
  list_pair_eqb (init_dict cf t) obs_inits && list_pair_eqb (sd_entries "" t) obs_named &&
  list_str_eqb (realised_names cf t) (map fst obs_inits).
Fixpoint disagreeing_t (cf : cfg) (i : nat) (cs : list tcase) : list nat :=
  match cs with [] => [] | c :: r => ((if agrees_t cf c then [] else [i]) ++ disagreeing_t cf (S i) r)%list end.
(* per case: (hypotheses of the sharing theorems hold, no identity repeats, the realised names are
   root + first-registration keys, the realised names are root + all state_dict keys) *)
Definition verdict_t (cf : cfg) (t : mtree) : bool * bool * bool * bool :=
  (tree_sh_okb cf t, nodup_natb (param_ids t),
   list_str_eqb (realised_names cf t) (map (prefix (root_name t)) (first_keys t)),
   list_str_eqb (realised_names cf t) (map (prefix (root_name t)) (sd_keys t))).

(* ---------------------------------------------------------------- correspondence helper *)
(* a case: construction program, the initializer names observed on the real code, the state_dict
   keys observed on the real code *)
Definition case := (spec * list string * list string)%type.
Definition agrees (cf : cfg) (c : case) : bool :=
  let '(s, obs_inits, obs_sd) := c in
  let t := construct cf s in
  (* as key sets: the order in which initializers are registered / keys are listed is not part of the property *)
  perm_str_eqb (realised_names cf t) obs_inits && perm_str_eqb (sd_keys t) obs_sd.
Fixpoint disagreeing (cf : cfg) (i : nat) (cs : list case) : list nat :=
  match cs with [] => [] | c :: t => ((if agrees cf c then [] else [i]) ++ disagreeing cf (S i) t)%list end.

(* ---------------------------------------------------------------- name collisions (proposed fix: Parameter._realize raises) *)
(* Parameter._realize, the effective realisations one after the other (an object already realised is
   skipped, `first_by_id`).  A separate, probed behaviour (NOT a field of `cfg`):
     raises_on_collision = false  (as read)   root.graph.initializers[name] = self  -- a different
                                              Parameter already stored under `name` is silently replaced
     raises_on_collision = true   (patched)   ValueError naming `name` when another Parameter object is
                                              already stored under it; nothing else changes
   `existing is not self` always holds at this point: `self` is stored only by its own first realisation. *)
Inductive outcome :=
| Raised (name : string)                    (* ValueError: initializer name already used by another Parameter *)
| Returned (d : list (string * nat)).       (* root.graph.initializers as name -> Parameter identity *)

Fixpoint realise_all (raises_on_collision : bool) (evs : list (nat * string)) (d : list (string * nat))
  : outcome :=
  match evs with
  | [] => Returned d
  | (i, n) :: r =>
    if raises_on_collision && mem_str n (map fst d) then Raised n
    else realise_all raises_on_collision r (dict_set n i d)
  end.

(* calling the root module once: the initializers, or the ValueError *)
Definition call_result (raises_on_collision : bool) (cf : cfg) (t : mtree) : outcome :=
  realise_all raises_on_collision (first_by_id [] (events cf false [] [] t)) [].

(* no two different Parameter objects are realised under one qualified name *)
Definition collision_free (cf : cfg) (t : mtree) : bool :=
  nodup_strb (map snd (first_by_id [] (events cf false [] [] t))).

Definition returns (o : outcome) : bool := match o with Returned _ => true | Raised _ => false end.

(* what the harness prints per case: (the model returns, the name it raises for | "") *)
Definition outcome_view (o : outcome) : bool * string :=
  match o with Returned _ => (true, "") | Raised n => (false, n) end.
