(* The converse of build_computes_trace_cf_partial, hence the full statement: the evaluation of the built graph
   EQUALS the direct reading of the trace, failure included (`build_computes_trace_cf_eq`).  Needs the converse
   invariant `inv2` (the graph environment binds no value name that the reading has not bound) next to `inv`, and
   one more hypothesis: "?undefined" (the name of a value id that does not exist) is not a defined name. *)
From Coq Require Import String List Bool Arith ZArith Lia.
Require Import OV.Graph.Syntax OV.Graph.Sem OV.Graph.SemProofs OV.Graph.Names.
Require Import OV.Builder.Strings OV.Builder.StringsProofs OV.Builder.Naming OV.Builder.NamingProofs.
Require Import OV.Builder.Trace OV.Builder.TraceProofs OV.Builder.TraceCF OV.Builder.TraceCFProofs.
Import ListNotations.
Local Open Scope list_scope.

Section ConvCF.
  Variable V : Type.
  Variable sem : string -> string -> list (string * attrv) -> list (option V) -> option (list V).
  Variable truth : V -> option bool.
  Variable trip : V -> option nat.
  Variable of_nat : nat -> V.
  Variable of_bool : bool -> V.
  Variable lim : nat.
  Variable lit_val : string -> V.
  Variable cf : bcfg.
  Variable rn : list (nat * string).
  Variable N : list string.
  Variable A : list string.
  Variable C : list (string * (string * lit)).
  Hypothesis Hnd : NoDup (N ++ A ++ cache_names C).
  Notation ud := "?undefined"%string.
  Hypothesis Hud : ~ In ud (N ++ A ++ cache_names C).

  Notation enode ev := (eval_node V sem truth trip of_nat of_bool lim ev).
  Notation runn ev := (run V sem truth trip of_nat of_bool lim ev).
  Notation vlook := (vlook V).
  Notation vbind := (vbind V).
  Notation cargs := (cargs V sem lit_val).
  Notation cok := (cache_ok V lit_val C).
  Notation lok := (lit_ok V lit_val C).
  Notation inv := (inv V N).
  Notation below := (below N A C).
  Notation creplay_call rb := (creplay_call V sem truth trip of_nat of_bool lim lit_val rb).
  Notation creplay_calls rb := (creplay_calls V sem truth trip of_nat of_bool lim lit_val rb).
  Notation rloop rb := (rloop V truth of_nat of_bool rb).

  (* the graph environment binds no value name that the reading has not bound *)
  Definition inv2 (E : venv V) (e : env V) : Prop :=
    forall id, vlook E id = None -> lookup e (nth id N ud) = None.

  Lemma nthN_cases : forall id, In (nth id N ud) N \/ nth id N ud = ud.
  Proof. intro id. destruct (nth_in_or_default id N ud); auto. Qed.

  Lemma nthN_notA : forall id, ~ In (nth id N ud) A.
  Proof.
    intros id H. destruct (nthN_cases id) as [Q|Q].
    - exact (N_notA N A C Hnd _ Q H).
    - rewrite Q in H. apply Hud. apply in_or_app. right. apply in_or_app. now left.
  Qed.

  Lemma ud_notN : ~ In ud N.
  Proof. intro H. apply Hud. apply in_or_app. now left. Qed.

  Lemma inv2_agree : forall E e e1 An, inv2 E e ->
    (forall x, ~ In x An -> lookup e1 x = lookup e x) -> (forall x, In x An -> In x A) -> inv2 E e1.
  Proof.
    intros E e e1 An I Ag Sub id Hv. rewrite Ag; [now apply I|].
    intro Q. apply (nthN_notA id). now apply Sub.
  Qed.

  Lemma inv2_bind : forall E e k vs P names R, inv2 E e ->
    N = P ++ names ++ R -> List.length P = k -> List.length names = List.length vs ->
    inv2 (vbind k vs E) (combine names vs ++ e).
  Proof.
    intros E e k vs P names R I HN HP Hl id Hv. rewrite vlook_vbind in Hv. unfold vname in *.
    destruct ((k <=? id) && (id <? k + List.length vs)) eqn:Eb.
    - apply andb_true_iff in Eb as [E1 E2]. apply Nat.leb_le in E1. apply Nat.ltb_lt in E2.
      apply nth_error_None in Hv. lia.
    - rewrite lookup_combine_notin; [now apply I|].
      intro Hin. destruct (Nat.lt_ge_cases id (List.length N)) as [Hlt|Hge].
      + (* a position outside the new segment cannot carry a name of the segment *)
        apply In_nth with (d := ud) in Hin as [j [Hj Ej]]. unfold vname in *.
        pose proof (ndN N A C Hnd) as HndN.
        assert (Epos : nth (k + j) N ud = nth j names ud).
        { rewrite HN. rewrite app_nth2; [|lia]. rewrite HP. replace (k + j - k) with j by lia. rewrite app_nth1; [reflexivity|exact Hj]. }
        assert (Hkj : k + j < List.length N).
        { rewrite HN, !app_length. lia. }
        rewrite <- Epos in Ej.
        pose proof (proj1 (NoDup_nth N ud) HndN (k + j) id Hkj Hlt Ej) as Q.
        apply andb_false_iff in Eb as [Eb|Eb]; [apply Nat.leb_gt in Eb|apply Nat.ltb_ge in Eb]; lia.
      + rewrite nth_overflow in Hin by lia. apply ud_notN. rewrite HN. apply in_or_app. right. apply in_or_app. now left.
  Qed.

  (* definitions of the CastLike nodes = the new anonymous names *)
  Lemma resolve_defs : forall args st s local s' local' ins pre,
    resolve cf st s local args = (s', local', ins, pre) -> b_anon s' = b_anon s ++ defs_nodes pre.
  Proof.
    induction args as [|a r IH]; intros st s local s' local' ins pre H.
    - cbn in H. inversion H; subst. cbn. now rewrite app_nil_r.
    - destruct a as [id | l | l like | ]; cbn [resolve] in H.
      + destruct (resolve cf st s local r) as [[[s1 l1] ins1] pre1] eqn:Er. inversion H; subst. eauto.
      + destruct (promote s l) as [s0 n] eqn:Epr.
        destruct (resolve cf st s0 local r) as [[[s1 l1] ins1] pre1] eqn:Er. inversion H; subst.
        destruct (promote_ext _ _ _ _ Epr) as (_ & Q & _). rewrite <- Q. eauto.
      + destruct (promote s l) as [s0 n] eqn:Epr. cbv zeta in H.
        remember (note_anon (bump s0 (node_name st "CastLike" (cnt cf s0 local)))
                            (qualify_value st (base_name "CastLike" (cnt cf s0 local)))) as s3 eqn:Es3.
        destruct (resolve cf st s3 (S local) r) as [[[s1 l1] ins1] pre1] eqn:Er. inversion H; subst s' local' ins pre.
        destruct (promote_ext _ _ _ _ Epr) as (_ & Q & _).
        rewrite (IH _ _ _ _ _ _ _ Er), Es3. cbn. rewrite Q. unfold defs_nodes. cbn. now rewrite <- app_assoc.
      + destruct (resolve cf st s local r) as [[[s1 l1] ins1] pre1] eqn:Er. inversion H; subst. eauto.
  Qed.


  Lemma lookup_ud : forall E e nid, inv E e nid -> nid <= List.length N -> inv2 E e -> lookup e ud = None.
  Proof.
    intros E e nid I Hle I2. specialize (I2 (List.length N)). rewrite nth_overflow in I2 by lia. apply I2.
    destruct (vlook E (List.length N)) as [v|] eqn:Ev; [|reflexivity]. destruct (I _ _ Ev). lia.
  Qed.

  Lemma name_unbound : forall E e nid s id, inv E e nid -> inv2 E e -> nid <= List.length (b_names s) -> below s ->
    vlook E id = None -> lookup e (name_of s id) = None.
  Proof.
    intros E e nid s id I I2 Hle Hb Hv.
    destruct (Nat.lt_ge_cases id (List.length (b_names s))) as [Hlt|Hge].
    - rewrite (name_of_below N A C s id Hb Hlt). now apply I2.
    - unfold name_of. rewrite nth_overflow by lia. eapply lookup_ud; eauto.
      pose proof (below_len N A C s Hb). lia.
  Qed.

  Lemma lookup_app_anon : forall (b e : env V) x, (forall y, In y (map fst b) -> In y A) -> ~ In x A ->
    lookup (b ++ e) x = lookup e x.
  Proof.
    induction b as [|[y v] t IH]; intros e x Hb Hx; cbn; [reflexivity|].
    destruct (String.eqb x y) eqn:Eq.
    - apply String.eqb_eq in Eq. subst. exfalso. apply Hx. apply Hb. now left.
    - apply IH; auto. intros z Hz. apply Hb. now right.
  Qed.

  (* operands without a reading: the CastLike nodes fail, or an operand name is unbound afterwards *)
  Lemma resolve_none : forall args st s local s' local' ins pre,
    resolve cf st s local args = (s', local', ins, pre) -> below s' ->
    forall ev E e nid, inv E e nid -> inv2 E e -> nid <= List.length (b_names s) -> cok e ->
      Forall lok (arg_lits args) -> cargs E args = None ->
      runn ev e pre = None \/ exists e1, runn ev e pre = Some e1 /\ lookup_opts e1 ins = None.
  Proof.
    induction args as [|a r IH]; intros st s local s' local' ins pre Hr Hb ev E e nid Hi Hi2 Hle Hc Hl Ha.
    - discriminate.
    - assert (Hbs : below s) by (eapply below_ext; [exact (proj2 (resolve_ext cf _ _ _ _ _ _ _ _ Hr))|exact Hb]).
      destruct a as [id | l | l like | ]; cbn [resolve] in Hr; cbn [TraceCF.cargs] in Ha.
      + destruct (resolve cf st s local r) as [[[s1 l1] ins1] pre1] eqn:Er. inversion Hr; subst. clear Hr.
        destruct (resolve_ext cf _ _ _ _ _ _ _ _ Er) as [Nn Ex].
        destruct (vlook E id) as [v|] eqn:Ev.
        * destruct (cargs E r) as [vs'|] eqn:Ea; [discriminate|].
          destruct (IH _ _ _ _ _ _ _ Er Hb ev E e nid Hi Hi2 Hle Hc Hl Ea) as [L|[e1 [R1 R2]]]; [now left|].
          right. exists e1. split; auto. cbn [lookup_opts]. rewrite R2. destruct (lookup e1 (name_of s id)); reflexivity.
        * destruct (runn ev e pre) as [e1|] eqn:Rp; [|now left]. right. exists e1. split; auto.
          destruct (run_shape V sem truth trip of_nat of_bool lim ev pre e e1 Rp) as [b [-> Hbn]].
          cbn [lookup_opts]. rewrite lookup_app_anon.
          -- rewrite (name_unbound E e nid s id Hi Hi2 Hle Hbs Ev). reflexivity.
          -- intros y Hy. destruct Hb as (_ & _ & A' & _ & _ & HA). rewrite HA, (resolve_defs _ _ _ _ _ _ _ _ Er).
             apply in_or_app. left. apply in_or_app. right. now apply Hbn.
          -- destruct (Nat.lt_ge_cases id (List.length (b_names s))) as [Hlt|Hge].
             ++ rewrite (name_of_below N A C s id Hbs Hlt). apply nthN_notA.
             ++ unfold name_of. rewrite nth_overflow by lia. intro Q. apply Hud. apply in_or_app. right. apply in_or_app. now left.
      + destruct (promote s l) as [s0 n] eqn:Epr.
        destruct (resolve cf st s0 local r) as [[[s1 l1] ins1] pre1] eqn:Er. inversion Hr; subst. clear Hr.
        destruct (cargs E r) as [vs'|] eqn:Ea; [discriminate|].
        cbn [arg_lits flat_map] in Hl. change (flat_map _ r) with (arg_lits r) in Hl.
        inversion Hl as [|? ? Hl1 Hl2]; subst.
        destruct (promote_spec s l s0 n Epr) as (Q1 & _).
        assert (Hle0 : nid <= List.length (b_names s0)) by (rewrite Q1; exact Hle).
        destruct (IH _ _ _ _ _ _ _ Er Hb ev E e nid Hi Hi2 Hle0 Hc Hl2 Ea) as [L|[e1 [R1 R2]]]; [now left|].
        right. exists e1. split; auto. cbn [lookup_opts]. rewrite R2. destruct (lookup e1 n); reflexivity.
      + destruct (promote s l) as [s0 n] eqn:Epr. cbv zeta in Hr.
        remember (note_anon (bump s0 (node_name st "CastLike" (cnt cf s0 local)))
                            (qualify_value st (base_name "CastLike" (cnt cf s0 local)))) as s3v eqn:Es3.
        destruct (resolve cf st s3v (S local) r) as [[[s1 l1] ins1] pre1] eqn:Er.
        inversion Hr; subst s' local' ins pre. clear Hr.
        cbn [arg_lits flat_map] in Hl. change (flat_map _ r) with (arg_lits r) in Hl.
        inversion Hl as [|x0 l00 Hl1 Hl2]; subst x0 l00.
        destruct (promote_spec s l s0 n Epr) as (Q1 & _ & _ & _ & [l0 Q5]).
        destruct (promote_ext _ _ _ _ Epr) as (_ & Q2 & _).
        set (o := qualify_value st (base_name "CastLike" (cnt cf s0 local))) in *.
        assert (N3 : b_names s3v = b_names s) by (rewrite Es3; cbn; exact Q1).
        assert (A3 : b_anon s3v = b_anon s ++ [o]) by (rewrite Es3; cbn; now rewrite Q2).
        assert (C3 : b_cache s3v = b_cache s0) by (rewrite Es3; reflexivity).
        destruct (resolve_ext cf _ _ _ _ _ _ _ _ Er) as [Nn (M1 & D1 & A1 & _ & X2 & X3)].
        pose proof Hb as (M' & D' & A' & HN & HC & HA).
        assert (HNs : N = b_names s ++ M') by (rewrite HN, Nn, N3; reflexivity).
        assert (HC0 : C = b_cache s0 ++ (D1 ++ D')) by (rewrite HC, X2, C3; now rewrite app_assoc).
        assert (HA0 : A = ((b_anon s ++ [o]) ++ A1) ++ A') by (rewrite HA, X3, A3; reflexivity).
        assert (HoA : In o A).
        { rewrite HA0. apply in_or_app. left. apply in_or_app. left. apply in_or_app. right. now left. }
        destruct (cok_lookup V lit_val C e _ _ _ _ _ Hc HC0 Q5) as (K1 & K2 & K3).
        set (nd := Node "" "CastLike" [Some n; Some (name_of s like)] [o] [] []).
        assert (HoN : forall id, nth id N ud <> o).
        { intros id Q. apply (nthN_notA id). now rewrite Q. }
        assert (Hfail : forall X : Prop, enode ev e nd = None -> runn ev e (nd :: pre1) = None \/ X).
        { intros X Q. left. cbn [run]. now rewrite Q. }
        destruct (vlook E like) as [lv|] eqn:Ev.
        * destruct (Hi like lv Ev) as [Hlt Hlk].
          assert (Hname : name_of s like = nth like N ud).
          { unfold name_of. rewrite HNs. now rewrite app_nth1 by lia. }
          assert (Hnode : enode ev e nd =
                          match sem "" "CastLike" [] [Some (lit_val (l_val l)); Some lv] with
                          | Some rs => bind [o] rs e | None => None end).
          { unfold nd. rewrite eval_plain_node by reflexivity. cbn [lookup_opts].
            rewrite K1, Hname, Hlk. cbn [option_map]. now rewrite (Hl1 _ _ K3). }
          destruct (sem "" "CastLike" [] [Some (lit_val (l_val l)); Some lv]) as [[|cv [|? ?]]|] eqn:Es;
            try (apply Hfail; rewrite Hnode; reflexivity).
          destruct (cargs E r) as [vs'|] eqn:Ea; [discriminate|].
          assert (Hev : enode ev e nd = Some ((o, cv) :: e)) by (rewrite Hnode; reflexivity).
          assert (Hi' : inv E ((o, cv) :: e) nid).
          { intros id v Hv. destruct (Hi id v Hv) as [H1 H2]. split; auto. cbn [lookup].
            destruct (String.eqb (nth id N ud) o) eqn:Eq; auto. apply String.eqb_eq in Eq. exfalso. exact (HoN id Eq). }
          assert (Hi2' : inv2 E ((o, cv) :: e)).
          { intros id Hv. cbn [lookup]. destruct (String.eqb (nth id N ud) o) eqn:Eq; [|now apply Hi2].
            apply String.eqb_eq in Eq. exfalso. exact (HoN id Eq). }
          assert (Hc' : cok ((o, cv) :: e)).
          { intros k' n' l' Hk'. cbn [lookup]. destruct (String.eqb n' o) eqn:Eq; [|eapply Hc; eauto].
            apply String.eqb_eq in Eq. subst n'. exfalso. eapply (A_notC N A C Hnd o HoA).
            apply assoc_str_In in Hk'. unfold cache_names. apply in_map_iff. exists (k', (o, l')). auto. }
          assert (Hle3 : nid <= List.length (b_names s3v)) by (rewrite N3; exact Hle).
          destruct (IH _ _ _ _ _ _ _ Er Hb ev E _ nid Hi' Hi2' Hle3 Hc' Hl2 Ea) as [L|[e1 [R1 R2]]].
          -- left. cbn [run]. now rewrite Hev.
          -- right. exists e1. split; [cbn [run]; now rewrite Hev|].
             cbn [lookup_opts]. rewrite R2. destruct (lookup e1 o); reflexivity.
        * apply Hfail. unfold nd. rewrite eval_plain_node by reflexivity. cbn [lookup_opts].
          rewrite K1, (name_unbound E e nid s like Hi Hi2 Hle Hbs Ev). reflexivity.
      + destruct (resolve cf st s local r) as [[[s1 l1] ins1] pre1] eqn:Er. inversion Hr; subst. clear Hr.
        destruct (cargs E r) as [vs'|] eqn:Ea; [discriminate|].
        destruct (IH _ _ _ _ _ _ _ Er Hb ev E e nid Hi Hi2 Hle Hc Hl Ea) as [L|[e1 [R1 R2]]]; [now left|].
        right. exists e1. split; auto. cbn [lookup_opts]. now rewrite R2.
  Qed.


  Definition sub_eq (ev : env V -> graph -> list V -> option (list V))
                    (rb : venv V -> nat -> sub -> list V -> option (list V)) : Prop :=
    forall sb s0 s1 g E e args,
      build_sub cf rn sb s0 = (s1, g) -> below s1 -> inv E e (List.length (b_names s0)) -> inv2 E e -> cok e ->
      Forall lok (lits_sub sb) -> cf_sub sb = true ->
      ev e g args = rb E (List.length (b_names s0)) sb args.

  Lemma sub_eq_rel : forall ev rb, sub_eq ev rb -> forall sb s0 s1 g E e args r,
      build_sub cf rn sb s0 = (s1, g) -> below s1 -> inv E e (List.length (b_names s0)) -> inv2 E e -> cok e ->
      Forall lok (lits_sub sb) -> cf_sub sb = true ->
      rb E (List.length (b_names s0)) sb args = Some r -> ev e g args = Some r.
  Proof. intros ev rb H sb s0 s1 g E e args r B Bl I I2 K L Cf R. rewrite (H sb s0 s1 g E e args B Bl I I2 K L Cf). exact R. Qed.

  Lemma subs_find_none : forall name subs s s1 sgs nid,
    build_subs cf rn subs s = (s1, sgs) -> sub_at name nid subs = None -> find_sub name sgs = None.
  Proof.
    induction subs as [|[k0 sb0] r IH]; intros s s1 sgs nid Hb Hs; cbn [build_subs] in Hb.
    - inversion Hb; subst. reflexivity.
    - destruct (build_sub cf rn sb0 s) as [sa g0] eqn:E0.
      destruct (build_subs cf rn r sa) as [sb' gs] eqn:E1. inversion Hb; subst.
      cbn [sub_at] in Hs. cbn [find_sub]. destruct (String.eqb k0 name); [discriminate|]. eapply IH; eauto.
  Qed.

  Lemma rloop_eq : forall ev rb E k0 body e g,
    (forall args, ev e g args = rb E k0 body args) ->
    forall k bounded i c st,
      loop_iter V truth of_nat of_bool ev e g bounded k i c st = rloop rb E k0 body bounded k i c st.
  Proof.
    intros ev rb E k0 body e g H. induction k as [|k IH]; intros bounded i c st; cbn [TraceCF.rloop loop_iter]; [reflexivity|].
    destruct (negb c); [reflexivity|]. rewrite H.
    destruct (rb E k0 body (of_nat i :: of_bool c :: st)) as [[|cv' st']|]; try reflexivity.
    destruct (Nat.eqb (List.length st') (List.length st)); [|reflexivity].
    destruct (truth cv'); [|reflexivity]. apply IH.
  Qed.

  Lemma lookup_opts_none_split : forall (e : env V) m c carried,
    lookup_opts e (m :: c :: carried) = None ->
    lookup_opts e [m; c] = None \/ lookups e (present carried) = None.
  Proof.
    intros e m c carried H.
    destruct (lookup_opts e [m; c]) as [mc|] eqn:E1; [|now left]. right.
    destruct (lookups e (present carried)) as [st|] eqn:E2; [|reflexivity]. exfalso.
    assert (Hc : exists vs, lookup_opts e carried = Some vs).
    { clear H E1. revert st E2. induction carried as [|[x|] t IH]; intros st E2; cbn in *.
      - eexists; reflexivity.
      - destruct (lookup e x); [|discriminate]. destruct (lookups e (present t)) as [r|]; [|discriminate].
        destruct (IH r eq_refl) as [vs Hvs]. rewrite Hvs. eexists; reflexivity.
      - destruct (IH st E2) as [vs Hvs]. rewrite Hvs. eexists; reflexivity. }
    destruct Hc as [vs Hvs]. cbn [lookup_opts] in *.
    destruct m as [x|]; destruct c as [y|];
      repeat match type of E1 with context [lookup e ?z] => destruct (lookup e z) end; try discriminate;
      rewrite Hvs in H; cbn in H; discriminate.
  Qed.

  Lemma lopts_len : forall (e : env V) xs vs, lookup_opts e xs = Some vs -> List.length vs = List.length xs.
  Proof.
    induction xs as [|[x|] t IH]; intros vs; cbn.
    - intro H; inversion H; reflexivity.
    - destruct (lookup e x); [|discriminate]. destruct (lookup_opts e t) as [r|]; [|discriminate].
      intro H; inversion H; subst. cbn. now rewrite (IH r).
    - destruct (lookup_opts e t) as [r|]; [|discriminate]. cbn. intro H; inversion H; subst. cbn. now rewrite (IH r).
  Qed.

  Lemma node_no_inputs : forall ev e1 dom op ins outs attrs sgs,
    lookup_opts e1 ins = None -> enode ev e1 (Node dom op ins outs attrs sgs) = None.
  Proof.
    intros ev e1 dom op ins outs attrs sgs H. unfold eval_node.
    destruct (is_if dom op); [now rewrite H|].
    destruct (is_loop dom op); [|now rewrite H].
    destruct ins as [|m [|c carried]]; try reflexivity.
    destruct (find_sub "body" sgs); [|reflexivity].
    destruct (lookup_opts_none_split e1 m c carried H) as [Q|Q]; rewrite Q; [reflexivity|].
    destruct (lookup_opts e1 [m; c]) as [[|? [|? [|? ?]]]|]; reflexivity.
  Qed.

  Lemma bind_mismatch : forall (xs : list vname) (vs : list V) e,
    Nat.eqb (List.length vs) (List.length xs) = false -> bind xs vs e = None.
  Proof.
    intros xs vs e H. rewrite bind_spec. rewrite Nat.eqb_sym in H. unfold vname in *. now rewrite H.
  Qed.

  (* a call without a reading: the nodes built for it fail *)
  Lemma call_none : forall ev rb, sub_eq ev rb ->
    forall c s local s' local' ns E e,
      build_call cf rn c s local = (s', local', ns) -> below s' -> cf_call c = true ->
      Forall lok (lits_call c) -> inv E e (List.length (b_names s)) -> inv2 E e -> cok e ->
      creplay_call rb E (List.length (b_names s)) c = None ->
      runn ev e ns = None.
  Proof.
    intros ev rb Heq c s local s' local' ns E e Hb Hbel Hcf Hl Hi Hi2 Hc Hr.
    destruct c as [st dom op args attrs subs outs|]; [|discriminate].
    rewrite build_call_eq in Hb. cbv zeta in Hb.
    destruct (build_subs cf rn subs s) as [s1 sgs] eqn:Es.
    destruct (resolve cf st s1 local args) as [[[s2 local2] ins] pre] eqn:Er.
    destruct (fresh_many rn s2 (out_names st op (cnt cf s2 local2) outs)) as [s3 onames] eqn:Ef.
    inversion Hb; subst s' local' ns. clear Hb.
    rewrite cf_call_eq in Hcf. apply andb_true_iff in Hcf as [Hkind Hcfs].
    rewrite lits_call_eq in Hl. apply Forall_app in Hl as [Hla Hls].
    assert (Hg : Forall (fun ks => grows_sub cf rn (snd ks)) subs).
    { apply Forall_forall. intros. apply (proj2 (grows_all cf rn)). }
    destruct (grows_subs cf rn _ Hg _ _ _ Es) as [X1 L1].
    destruct (resolve_ext cf _ _ _ _ _ _ _ _ Er) as [N2 X2].
    destruct (fresh_many_spec rn _ _ _ _ Ef) as (N3 & L3 & C3 & A3 & _).
    assert (X3 : ext s2 s3) by (eapply fresh_many_ext; eauto).
    assert (B3 : below s3) by (eapply below_ext; [apply bump_ext|exact Hbel]).
    assert (B2 : below s2) by (eapply below_ext; eauto).
    assert (B1 : below s1) by (eapply below_ext; eauto).
    assert (Hle : List.length (b_names s) <= List.length (b_names s1)) by lia.
    rewrite (run_app V sem truth trip of_nat of_bool lim).
    cbn [TraceCF.creplay_call] in Hr.
    destruct (cargs E args) as [vs|] eqn:Ea.
    2:{ destruct (resolve_none _ _ _ _ _ _ _ _ Er B2 ev E e _ Hi Hi2 Hle Hc Hla Ea) as [L|[e1 [R1 R2]]].
        - now rewrite L.
        - rewrite R1. cbn [run]. now rewrite (node_no_inputs ev e1 _ _ _ _ _ _ R2). }
    destruct (resolve_sem V sem truth trip of_nat of_bool lim lit_val cf N A C Hnd _ _ _ _ _ _ _ _ Er B2 ev E e _ vs Hi Hle Hc Hla Ea)
      as (e1 & An & R1 & R2 & R3 & R4).
    rewrite R1. cbn [run].
    assert (HAn : forall x, In x An -> In x A).
    { intros x Hx. destruct B2 as (_ & _ & A' & _ & _ & HA). rewrite HA, R3. apply in_or_app. left. apply in_or_app. now right. }
    assert (Hi1 : inv E e1 (List.length (b_names s))).
    { intros id v Hv. destruct (Hi id v Hv) as [H1 H2]. split; auto. rewrite R4; auto.
      intro Hin. apply (nthN_notA id). now apply HAn. }
    assert (Hi21 : inv2 E e1) by (eapply inv2_agree; eauto).
    assert (Hc1 : cok e1).
    { intros k n l0 Hk. rewrite R4; [eapply Hc; eauto|]. intro Hin. eapply (A_notC N A C Hnd n); eauto.
      apply assoc_str_In in Hk. unfold cache_names. apply in_map_iff. exists (k, (n, l0)). auto. }
    set (n := n_outs_of outs) in *.
    assert (Hlen_on : List.length onames = n) by (rewrite L3; apply out_names_length).
    assert (Hfin : forall rs, (if Nat.eqb (List.length rs) n
                               then Some (vbind (List.length (b_names s) + nvals_subs subs) rs E, List.length (b_names s) + nvals_subs subs + n)
                               else None) = None -> bind onames rs e1 = None).
    { intros rs Q. destruct (Nat.eqb (List.length rs) n) eqn:En; [discriminate|]. apply bind_mismatch. unfold vname in *. rewrite Hlen_on. exact En. }
    assert (match enode ev e1 (Node dom op ins onames attrs sgs) with Some e' => False | None => True end) as Hnone.
    2:{ destruct (enode ev e1 (Node dom op ins onames attrs sgs)); [contradiction|reflexivity]. }
    unfold eval_node.
    destruct (is_if dom op) eqn:Eif.
    - rewrite R2.
      destruct vs as [|[cv|] [|? ?]]; auto.
      destruct (truth cv) as [b|]; auto.
      destruct (sub_at (if b then "then_branch" else "else_branch")%string (List.length (b_names s)) subs) as [[k sb]|] eqn:Esa.
      + destruct (subs_find V lit_val cf rn C _ _ _ _ _ _ _ Es Esa) as (s0 & s0' & g & G1 & G2 & G3 & G4 & G5 & G6 & G7).
        rewrite G2. subst k.
        assert (Hev : ev e1 g [] = rb E (List.length (b_names s0)) sb []).
        { eapply (Heq sb s0 s0' g E e1 [] G1); eauto.
          - eapply below_ext; eauto.
          - eapply inv_mono; eauto. destruct G4 as (M & _ & _ & HM & _). rewrite HM, app_length. lia. }
        rewrite Hev. destruct (rb E (List.length (b_names s0)) sb []) as [rs|]; auto.
        rewrite (Hfin rs Hr). auto.
      + now rewrite (subs_find_none _ _ _ _ _ _ Es Esa).
    - destruct (is_loop dom op) eqn:Eloop.
      + pose proof (lopts_len e1 ins vs R2) as Hlen.
        destruct ins as [|m [|c carried]]; [cbn; auto|cbn; auto|].
        destruct vs as [|mv [|cv rest]]; [discriminate|discriminate|].
        destruct (lookup_opts_two V e1 _ _ _ _ R2) as (m' & c' & carried' & I1 & I2 & I3).
        inversion I1; subst m' c' carried'. clear I1.
        destruct (sub_at "body" (List.length (b_names s)) subs) as [[k body]|] eqn:Esa.
        2:{ now rewrite (subs_find_none _ _ _ _ _ _ Es Esa). }
        destruct (subs_find V lit_val cf rn C _ _ _ _ _ _ _ Es Esa) as (s0 & s0' & g & G1 & G2 & G3 & G4 & G5 & G6 & G7).
        rewrite G2, I2, (lookup_opts_present V e1 _ _ I3). subst k.
        assert (Hev : forall args0, ev e1 g args0 = rb E (List.length (b_names s0)) body args0).
        { intros args0. eapply (Heq body s0 s0' g E e1 args0 G1); eauto.
          - eapply below_ext; eauto.
          - eapply inv_mono; eauto. destruct G4 as (M & _ & _ & HM & _). rewrite HM, app_length. lia. }
        destruct (match mv with Some v => option_map Some (trip v) | None => Some None end) as [mt|]; auto.
        destruct (match cv with Some v => truth v | None => Some true end) as [c0|]; auto.
        destruct mt as [kk|].
        * rewrite (rloop_eq ev rb E _ body e1 g Hev).
          destruct (rloop rb E (List.length (b_names s0)) body true kk 0 c0 (somes V rest)) as [stf|]; auto.
          rewrite (Hfin stf Hr). auto.
        * rewrite (rloop_eq ev rb E _ body e1 g Hev).
          destruct (rloop rb E (List.length (b_names s0)) body false lim 0 c0 (somes V rest)) as [stf|]; auto.
          rewrite (Hfin stf Hr). auto.
      + rewrite R2.
        assert (Hsubs : subs = []).
        { destruct subs; [reflexivity|]. rewrite ?Eif, ?Eloop in Hkind. cbn in Hkind. discriminate. }
        subst subs. cbn [build_subs] in Es. inversion Es; subst.
        destruct (sem dom op attrs vs) as [rs|]; auto.
        rewrite (Hfin rs Hr). auto.
  Qed.


  Lemma creplay_call_shape : forall rb E nid st dom op args attrs subs outs E' nid',
    creplay_call rb E nid (COp st dom op args attrs subs outs) = Some (E', nid') ->
    exists rs, List.length rs = n_outs_of outs /\ E' = vbind (nid + nvals_subs subs) rs E.
  Proof.
    intros rb E nid st dom op args attrs subs outs E' nid' H. cbn [TraceCF.creplay_call] in H.
    repeat match type of H with
           | context [match ?x with _ => _ end] => destruct x eqn:?; try discriminate
           | context [if Nat.eqb (List.length ?rs) ?n then _ else _] =>
             destruct (Nat.eqb (List.length rs) n) eqn:?; try discriminate
           | context [if ?x then _ else _] => destruct x eqn:?; try discriminate
           end;
      inversion H; subst; eexists; (split; [|reflexivity]); apply Nat.eqb_eq; assumption.
  Qed.

  Lemma lookup_app_skip : forall (b e : env V) x, (forall y, In y (map fst b) -> y <> x) -> lookup (b ++ e) x = lookup e x.
  Proof.
    induction b as [|[y v] t IH]; intros e x H; cbn; [reflexivity|].
    destruct (String.eqb x y) eqn:Eq.
    - apply String.eqb_eq in Eq. subst. exfalso. apply (H y); [now left|reflexivity].
    - apply IH. intros z Hz. apply H. now right.
  Qed.

  (* after a call that has a reading, the graph environment still binds nothing the reading has not bound *)
  Lemma call_inv2 : forall ev rb c s local s' local' ns E e e' E' nid',
    build_call cf rn c s local = (s', local', ns) -> below s' -> cf_call c = true ->
    inv E e (List.length (b_names s)) -> inv2 E e ->
    creplay_call rb E (List.length (b_names s)) c = Some (E', nid') ->
    runn ev e ns = Some e' -> inv2 E' e'.
  Proof.
    intros ev rb c s local s' local' ns E e e' E' nid' Hb Hbel Hcf Hi Hi2 Hr Hrun.
    destruct c as [st dom op args attrs subs outs|]; [|discriminate].
    destruct (creplay_call_shape _ _ _ _ _ _ _ _ _ _ _ _ Hr) as (rs & Hrs & ->).
    rewrite build_call_eq in Hb. cbv zeta in Hb.
    destruct (build_subs cf rn subs s) as [s1 sgs] eqn:Es.
    destruct (resolve cf st s1 local args) as [[[s2 local2] ins] pre] eqn:Er.
    destruct (fresh_many rn s2 (out_names st op (cnt cf s2 local2) outs)) as [s3 onames] eqn:Ef.
    inversion Hb; subst s' local' ns. clear Hb.
    assert (Hg : Forall (fun ks => grows_sub cf rn (snd ks)) subs).
    { apply Forall_forall. intros. apply (proj2 (grows_all cf rn)). }
    destruct (grows_subs cf rn _ Hg _ _ _ Es) as [X1 L1].
    destruct (resolve_ext cf _ _ _ _ _ _ _ _ Er) as [N2 X2].
    destruct (fresh_many_spec rn _ _ _ _ Ef) as (N3 & L3 & C3 & A3 & _).
    assert (B3 : below s3) by (eapply below_ext; [apply bump_ext|exact Hbel]).
    destruct B3 as (M3 & D3 & A3' & HN3 & HC3 & HA3).
    assert (Hlen_on : List.length onames = n_outs_of outs) by (rewrite L3; apply out_names_length).
    assert (Hlen2 : List.length (b_names s2) = List.length (b_names s) + nvals_subs subs) by (rewrite N2; exact L1).
    destruct (run_shape V sem truth trip of_nat of_bool lim ev _ e e' Hrun) as [b [-> Hbn]].
    intros id Hv. rewrite vlook_vbind in Hv.
    destruct ((List.length (b_names s) + nvals_subs subs <=? id) &&
              (id <? List.length (b_names s) + nvals_subs subs + List.length rs)) eqn:Eb.
    { apply andb_true_iff in Eb as [E1 E2]. apply Nat.leb_le in E1. apply Nat.ltb_lt in E2.
      apply nth_error_None in Hv. lia. }
    rewrite lookup_app_skip; [now apply Hi2|].
    intros y Hy Q. apply Hbn in Hy. unfold defs_nodes in Hy. rewrite flat_map_app in Hy. cbn [flat_map n_outs] in Hy.
    rewrite app_nil_r in Hy. apply in_app_or in Hy as [Hy|Hy].
    - (* an output of a CastLike node *)
      apply (nthN_notA id). rewrite <- Q. rewrite HA3, A3, (resolve_defs _ _ _ _ _ _ _ _ Er).
      apply in_or_app. left. apply in_or_app. right. exact Hy.
    - (* an output of the node: a name of the new segment *)
      destruct (Nat.lt_ge_cases id (List.length N)) as [Hlt|Hge].
      + apply In_nth with (d := ud) in Hy as [j [Hj Ej]]. unfold vname in *.
        pose proof (ndN N A C Hnd) as HndN.
        assert (HN : N = b_names s2 ++ onames ++ M3) by (rewrite HN3, N3; now rewrite <- app_assoc).
        assert (Epos : nth (List.length (b_names s2) + j) N ud = nth j onames ud).
        { rewrite HN at 1. rewrite app_nth2; [|lia].
          replace (List.length (b_names s2) + j - List.length (b_names s2)) with j by lia. rewrite app_nth1; [reflexivity|exact Hj]. }
        assert (Hkj : List.length (b_names s2) + j < List.length N) by (rewrite HN, !app_length; lia).
        rewrite <- Epos, Q in Ej.
        pose proof (proj1 (NoDup_nth N ud) HndN _ id Hkj Hlt Ej) as Q2.
        apply andb_false_iff in Eb as [Eb|Eb]; [apply Nat.leb_gt in Eb|apply Nat.ltb_ge in Eb]; lia.
      + rewrite nth_overflow in Q by lia. apply ud_notN. rewrite HN3, N3, <- Q.
        apply in_or_app. left. apply in_or_app. now right.
  Qed.


  Notation sub_rel := (sub_rel V lit_val cf rn N A C).

  (* a list of calls: both directions *)
  Lemma calls_both : forall ev rb, sub_rel ev rb -> sub_eq ev rb ->
    forall tr s local s' ns E e,
      build_calls cf rn tr s local = (s', ns) -> below s' -> forallb cf_call tr = true ->
      Forall lok (lits_calls tr) -> inv E e (List.length (b_names s)) -> inv2 E e -> cok e ->
      match creplay_calls rb E (List.length (b_names s)) tr with
      | Some (E', nid') => exists e', runn ev e ns = Some e' /\ inv E' e' nid' /\ inv2 E' e' /\ cok e' /\
                                      nid' = List.length (b_names s')
      | None => runn ev e ns = None
      end.
  Proof.
    intros ev rb Hrel Heq. induction tr as [|c r IH]; intros s local s' ns E e Hb Hbel Hcf Hl Hi Hi2 Hc.
    - cbn in Hb. inversion Hb; subst. cbn. exists e. auto.
    - cbn [build_calls] in Hb.
      destruct (build_call cf rn c s local) as [[s1 l1] ns1] eqn:Ec.
      destruct (build_calls cf rn r s1 l1) as [s2 ns2] eqn:Er. inversion Hb; subst s' ns. clear Hb.
      cbn [forallb] in Hcf. apply andb_true_iff in Hcf as [Hcf1 Hcf2].
      unfold lits_calls in Hl. cbn [flat_map] in Hl. apply Forall_app in Hl as [Hl1 Hl2].
      assert (X : ext s1 s2).
      { eapply (grows_calls cf rn r); eauto. apply Forall_forall. intros. apply (proj1 (grows_all cf rn)). }
      assert (B1 : below s1) by (eapply below_ext; eauto).
      cbn [TraceCF.creplay_calls]. rewrite (run_app V sem truth trip of_nat of_bool lim).
      destruct (creplay_call rb E (List.length (b_names s)) c) as [[E1 n1]|] eqn:Erc.
      + destruct (call_sem V sem truth trip of_nat of_bool lim lit_val cf rn N A C Hnd ev rb Hrel c s local s1 l1 ns1 E e E1 n1
                           Ec B1 Hcf1 Hl1 Hi Hc Erc) as (e1 & R1 & R2 & R3 & R4).
        pose proof (call_inv2 ev rb c s local s1 l1 ns1 E e e1 E1 n1 Ec B1 Hcf1 Hi Hi2 Erc R1) as R5.
        subst n1. rewrite R1.
        exact (IH s1 l1 s2 ns2 E1 e1 Er Hbel Hcf2 Hl2 R2 R5 R3).
      + now rewrite (call_none ev rb Heq c s local s1 l1 ns1 E e Ec B1 Hcf1 Hl1 Hi Hi2 Hc Erc).
  Qed.

  Lemma vlooks_none : forall E e nid s ids,
    inv E e nid -> inv2 E e -> nid <= List.length (b_names s) -> below s -> vlooks V E ids = None ->
    lookups e (map (name_of s) ids) = None.
  Proof.
    intros E e nid s ids Hi Hi2 Hle Hb. induction ids as [|i t IH]; intro H; cbn [TraceCF.vlooks] in H; [discriminate|].
    cbn [map lookups].
    destruct (vlook E i) as [v|] eqn:Ev.
    - destruct (vlooks V E t) as [vs|] eqn:Et; [discriminate|]. rewrite (IH eq_refl).
      destruct (lookup e (name_of s i)); reflexivity.
    - now rewrite (name_unbound E e nid s i Hi Hi2 Hle Hb Ev).
  Qed.

  (* bodies: the evaluation of the built subgraph = the reading of the body, at every depth *)
  Lemma sub_eq_fuel : forall fuel,
    sub_eq (eval_graph V sem truth trip of_nat of_bool lim fuel)
           (creplay_body V sem truth trip of_nat of_bool lim lit_val fuel).
  Proof.
    induction fuel as [|f IH]; intros sb s0 s1 g E e args Hb Hbel Hi Hi2 Hc Hl Hcf; [reflexivity|].
    destruct (creplay_body V sem truth trip of_nat of_bool lim lit_val (S f) E (List.length (b_names s0)) sb args) as [r|] eqn:Hr.
    { exact (sub_sem V sem truth trip of_nat of_bool lim lit_val cf rn N A C Hnd (S f) sb s0 s1 g E e args r Hb Hbel Hi Hc Hl Hcf Hr). }
    destruct sb as [ins body rets decl].
    rewrite build_sub_eq in Hb.
    destruct (fresh_many rn s0 ins) as [sa inames] eqn:Ef.
    destruct (build_calls cf rn body sa 0) as [sb' nodes] eqn:Eb. inversion Hb; subst s1 g. clear Hb.
    rewrite cf_sub_eq in Hcf. rewrite lits_sub_eq in Hl.
    cbn [TraceCF.creplay_body TraceCF.creplay_sub] in Hr.
    destruct (fresh_many_spec rn _ _ _ _ Ef) as (Na & La & Ca & Aa & _).
    cbn [eval_graph]. unfold eval_body. cbn [g_ins g_nodes g_outs].
    destruct (Nat.eqb (List.length ins) (List.length args)) eqn:El.
    2:{ rewrite bind_mismatch; [reflexivity|]. unfold vname in *. rewrite La, Nat.eqb_sym. exact El. }
    apply Nat.eqb_eq in El.
    assert (Hna : List.length (b_names sa) = List.length (b_names s0) + List.length ins)
      by (rewrite Na, app_length; lia).
    rewrite <- Hna in Hr.
    rewrite bind_spec.
    assert (Hq : Nat.eqb (@List.length vname inames) (List.length args) = true)
      by (apply Nat.eqb_eq; unfold vname; lia).
    rewrite Hq.
    assert (X : ext sa sb').
    { eapply (grows_calls cf rn body); eauto. apply Forall_forall. intros. apply (proj1 (grows_all cf rn)). }
    assert (Ba : below sa) by (eapply below_ext; eauto).
    pose proof Ba as (Ma & Da & Aa' & HNa & HCa & HAa).
    assert (HNseg : N = b_names s0 ++ inames ++ Ma) by (rewrite HNa, Na; now rewrite <- app_assoc).
    assert (Hi0 : inv (vbind (List.length (b_names s0)) args E) (combine inames args ++ e) (List.length (b_names sa))).
    { rewrite Hna, El.
      eapply (inv_bind V N A C Hnd E e (List.length (b_names s0)) (List.length (b_names s0)) args (b_names s0) inames Ma); eauto. lia. }
    assert (Hi20 : inv2 (vbind (List.length (b_names s0)) args E) (combine inames args ++ e)).
    { eapply (inv2_bind E e (List.length (b_names s0)) args (b_names s0) inames Ma); eauto. lia. }
    assert (Hc0 : cok (combine inames args ++ e)).
    { apply (cok_bind V lit_val N A C Hnd); auto. intros x Hx. left. rewrite HNseg. apply in_or_app. right. apply in_or_app. now left. }
    pose proof (calls_both _ _ (sub_sem V sem truth trip of_nat of_bool lim lit_val cf rn N A C Hnd f) IH
                  body sa 0 sb' nodes _ _ Eb Hbel Hcf Hl Hi0 Hi20 Hc0) as R.
    destruct (creplay_calls (creplay_body V sem truth trip of_nat of_bool lim lit_val f)
                            (vbind (List.length (b_names s0)) args E) (List.length (b_names sa)) body) as [[E2 n2]|].
    - destruct R as (e' & R1 & R2 & R3 & R4 & R5). unfold vname in *. rewrite R1.
      eapply vlooks_none; eauto. lia.
    - unfold vname in *. now rewrite R.
  Qed.
End ConvCF.

Lemma init_env_none : forall V (lit_val : string -> V) C x, ~ In x (cache_names C) -> lookup (init_env V lit_val C) x = None.
Proof.
  intros V lit_val C x. unfold init_env. induction C as [|[k [n l0]] t IHt]; cbn; intro Hx; [reflexivity|].
  destruct (String.eqb x n) eqn:Eq.
  - apply String.eqb_eq in Eq. subst. exfalso. apply Hx. now left.
  - apply IHt. intro Q. apply Hx. now right.
Qed.

(* build_computes_trace_cf_eq: the full statement (TraceCFProofs.build_computes_trace_cf_full) under one more
   hypothesis: "?undefined", the name a value id that does not exist is printed with, is not a defined name.
   For every trace of operator / function calls, If and Loop calls with bodies (any depth), literal operands
   (promoted constants, CastLike): evaluating the built graph = the direct reading of the trace, INCLUDING
   failure: where the reading is undefined (a kernel fails, a value is used outside the scope it was made in, a
   body returns the wrong number of values, the fuel runs out) the evaluation of the graph fails too. *)
Theorem build_computes_trace_cf_eq : forall V sem truth trip of_nat of_bool lim lit_val cf fuel ins tr outs args,
  cf_trace tr = true ->
  let sf := fst (build_state cf ins tr) in
  NoDup (all_defined sf) -> ~ In "?undefined"%string (all_defined sf) ->
  Forall (lit_ok V lit_val (b_cache sf)) (lits_calls tr) ->
  List.length args = List.length ins ->
  eval_graph V sem truth trip of_nat of_bool lim (S fuel) (init_env V lit_val (b_cache sf)) (build cf ins tr outs) args =
  creplay V sem truth trip of_nat of_bool lim lit_val fuel tr args outs.
Proof.
  intros V sem truth trip of_nat of_bool lim lit_val cf fuel ins tr outs args Hcf sf Hnd Hud Hl Hlen.
  destruct (creplay V sem truth trip of_nat of_bool lim lit_val fuel tr args outs) as [r|] eqn:Hr.
  { now apply build_computes_trace_cf_partial. }
  unfold build. unfold sf in *. unfold build_state in *.
  set (rn := renames_calls tr) in *.
  destruct (build_calls cf rn tr (init_state ins) 0) as [s nodes] eqn:Eb. cbn [fst] in *.
  unfold all_defined in Hnd, Hud. fold (cache_names (b_cache s)) in Hnd, Hud.
  set (N := b_names s) in *. set (A := b_anon s) in *. set (C := b_cache s) in *.
  assert (Hbel : below N A C s) by (exists [], [], []; now rewrite !app_nil_r).
  assert (X : ext (init_state ins) s).
  { eapply (grows_calls cf rn tr); eauto. apply Forall_forall. intros. apply (proj1 (grows_all cf rn)). }
  assert (B0 : below N A C (init_state ins)) by (eapply below_ext; eauto).
  pose proof B0 as (M0 & D0 & A0 & HN0 & HC0 & HA0). cbn [init_state b_names b_cache b_anon] in HN0, HC0, HA0.
  cbn [eval_graph]. unfold eval_body. cbn [g_ins g_nodes g_outs].
  rewrite bind_spec.
  assert (Hq : Nat.eqb (@List.length vname ins) (List.length args) = true)
    by (apply Nat.eqb_eq; unfold vname; lia).
  rewrite Hq.
  set (outer := init_env V lit_val C).
  unfold creplay in Hr.
  assert (Hi0 : inv V N (vbind V 0 args []) (combine ins args ++ outer) (List.length (b_names (init_state ins)))).
  { cbn [init_state b_names]. rewrite <- Hlen. change (List.length args) with (0 + List.length args).
    eapply (inv_bind V N A C Hnd [] outer 0 0 args [] ins M0); eauto.
    intros id v Hv. discriminate. }
  assert (Hout : forall x, ~ In x (cache_names C) -> lookup outer x = None) by (intros; now apply init_env_none).
  assert (Hi20 : inv2 V N (vbind V 0 args []) (combine ins args ++ outer)).
  { change (vbind V 0 args []) with (vbind V 0 args (@nil (nat * V))).
    eapply (inv2_bind V N A C Hnd Hud [] outer 0 args [] ins M0); eauto.
    intros id _. apply Hout. intro Q.
    destruct (nth_in_or_default id N "?undefined"%string) as [Hin|Hd].
    - exact (N_notC N A C Hnd _ Hin Q).
    - rewrite Hd in Q. apply Hud. apply in_or_app. right. apply in_or_app. now right. }
  assert (Hc0 : cache_ok V lit_val C (combine ins args ++ outer)).
  { eapply (cok_bind V lit_val N A C Hnd); eauto.
    - intros k n l0 Hk. unfold outer. eapply (lookup_init_env V lit_val _ k).
      + apply NoDup_app_r in Hnd. apply NoDup_app_r in Hnd. exact Hnd.
      + now apply assoc_str_In.
    - intros x Hx. left. rewrite HN0. apply in_or_app. now left. }
  assert (Hc : List.length args = List.length (b_names (init_state ins))) by (cbn; exact Hlen).
  rewrite Hc in Hr.
  pose proof (calls_both V sem truth trip of_nat of_bool lim lit_val cf rn N A C Hnd Hud _ _
                (sub_sem V sem truth trip of_nat of_bool lim lit_val cf rn N A C Hnd fuel)
                (sub_eq_fuel V sem truth trip of_nat of_bool lim lit_val cf rn N A C Hnd Hud fuel)
                tr (init_state ins) 0 s nodes _ _ Eb Hbel Hcf Hl Hi0 Hi20 Hc0) as R.
  destruct (creplay_calls V sem truth trip of_nat of_bool lim lit_val
              (creplay_body V sem truth trip of_nat of_bool lim lit_val fuel) (vbind V 0 args [])
              (List.length (b_names (init_state ins))) tr) as [[E2 n2]|].
  - destruct R as (e' & R1 & R2 & R3 & R4 & R5). unfold vname in *. rewrite R1.
    eapply (vlooks_none V N A C E2 e' n2 s outs R2 R3); eauto. lia.
  - unfold vname in *. now rewrite R.
Qed.

Theorem build_computes_trace_cf_eq_checked : forall V sem truth trip of_nat of_bool lim lit_val cf fuel ins tr outs args,
  cf_hyps_eqb cf ins tr = true ->
  List.length args = List.length ins ->
  eval_graph V sem truth trip of_nat of_bool lim (S fuel)
             (init_env V lit_val (b_cache (fst (build_state cf ins tr)))) (build cf ins tr outs) args =
  creplay V sem truth trip of_nat of_bool lim lit_val fuel tr args outs.
Proof.
  intros V sem truth trip of_nat of_bool lim lit_val cf fuel ins tr outs args H Hlen.
  unfold cf_hyps_eqb in H. apply andb_true_iff in H as [H H4]. unfold cf_hypsb in H.
  apply andb_true_iff in H as [H H3]. apply andb_true_iff in H as [H1 H2].
  apply build_computes_trace_cf_eq; auto.
  - now apply nodup_strb_NoDup.
  - intro Q. apply mem_str_In in Q. rewrite Q in H4. discriminate.
  - now apply lits_okb_sound.
Qed.

(* non-vacuity of the failure direction: a value made inside the then-branch is used by the enclosing trace
   function; when the else-branch is taken it has no value, the reading is undefined and the graph (which refers to
   a name defined only inside the other branch) fails; when the then-branch is taken ... it is still out of scope *)
Local Open Scope string_scope.
Definition ex_leak_trace : list call :=
  [COp [] "" "If" [OVal 1] []
       [("then_branch", Sub [] [COp [] "" "Neg" [OVal 0] [] [] (ODefault 1)] [2] [""]);
        ("else_branch", Sub [] [COp [] "" "Identity" [OVal 0] [] [] (ODefault 1)] [3] [""])]
       (ODefault 1);
   COp [] "" "Add" [OVal 2; OVal 4] [] [] (ODefault 1)].

Example ex_leak :
  cf_hyps_eqb bcfg_fixed ["x"; "c"] ex_leak_trace = true /\
  creplay Z zsem ztruth ztrip Z.of_nat zof_bool 100 zlit 1 ex_leak_trace [5; 0]%Z [5] = None /\
  creplay Z zsem ztruth ztrip Z.of_nat zof_bool 100 zlit 1 ex_leak_trace [5; 1]%Z [5] = None /\
  (* without the leaking call the reading is defined *)
  creplay Z zsem ztruth ztrip Z.of_nat zof_bool 100 zlit 1 (firstn 1 ex_leak_trace) [5; 1]%Z [4] = Some [-5]%Z.
Proof. vm_compute. repeat split; reflexivity. Qed.

Example ex_leak_graph_fails :
  eval_graph Z zsem ztruth ztrip Z.of_nat zof_bool 100 2
             (init_env Z zlit (b_cache (fst (build_state bcfg_fixed ["x"; "c"] ex_leak_trace))))
             (build bcfg_fixed ["x"; "c"] ex_leak_trace [5]) [5; 0]%Z = None.
Proof.
  rewrite (build_computes_trace_cf_eq_checked Z zsem ztruth ztrip Z.of_nat zof_bool 100 zlit bcfg_fixed 1);
    [apply ex_leak | apply ex_leak | reflexivity].
Qed.
