(* C07 model, names: (1) what onnx_ir.convenience.replace_nodes_and_values does to the NAMES of value objects
   (`new_value.name = old_value.name`), at the level of objects -- OV.Rewrite.Apply identifies a value with its name and
   therefore cannot express a replacement output that is an already existing value; (2) how values created by
   replacements get their names: by the name authority of the graph they are inserted in (val_<counter of that graph>), as
   the code is, or from one model-wide set (proposed_fixes/ready/C07_02_fresh_names_unique_in_model.diff).
   No proofs in this file. *)
From Coq Require Import List String Bool Arith.
Require Import OV.Graph.Syntax OV.Rewrite.Apply OV.Rewrite.State.
Import ListNotations.
Local Open Scope string_scope.
Local Open Scope list_scope.

(* value objects are numbers; the table gives their current names *)
Definition vals := list (nat * string).
Definition name_of (o : nat) (vs : vals) : string := match dget Nat.eqb o vs with Some n => n | None => "" end.

(* for old_value, new_value in zip(old_values, new_values): new_value.name = old_value.name *)
Fixpoint take_names (olds news : list nat) (vs : vals) : vals :=
  match olds, news with
  | o :: ot, n :: nt => take_names ot nt (dset Nat.eqb n (name_of o vs) vs)
  | _, _ => vs
  end.

Definition names_of_objects (objs : list nat) (vs : vals) : list string := map (fun o => name_of o vs) objs.

(* names given by a graph-local authority whose counter stands at c to k new values *)
Definition local_names (c k : nat) : list string := map (fun j => ("val_" ++ nat_to_string j)%string) (seq c k).

(* the repair (RewriteRuleSet._name_new_values): `counter += 1; name = rewritten_val_<counter>` until the name is in use nowhere
   in the model; the name joins the names in use.  c: the counter before the draw.  apply_to_model sets the counter to 0
   and recomputes the names in use for every model (fix bb7dec3; before it the counter was carried over from the models
   the same RewriteRuleSet object had rewritten earlier) *)
Definition rv (j : nat) : string := ("rewritten_val_" ++ nat_to_string j)%string.

Fixpoint fresh_ctr (c : nat) (used : list string) (k : nat) : list string :=
  match k with
  | O => []
  | S k' =>
    match first_free rv used (S (List.length used)) (S c) with
    | Some j => rv j :: fresh_ctr j (rv j :: used) k'
    | None => []
    end
  end.

(* names given to the k values created while ONE model is rewritten, as the code is now *)
Definition fresh_seq (used : list string) (k : nat) : list string := fresh_ctr 0 used k.

(* the same with the history of the rule set object made explicit: `carried` is where the counter stands after the models
   rewritten before; reset = the counter restarts for every model *)
Definition names_created (reset : bool) (carried : nat) (used : list string) (k : nat) : list string :=
  fresh_ctr (if reset then 0 else carried) used k.

(* witness of the finding C07:fresh-name-clash: Neg(Abs(v)) re-emitted inside the then-branch and, later in the node
   list, in the main graph; both graphs called their first new value val_0 *)
Definition ex_shadow_after : graph :=
  Graph ["x"; "cond"] []
    [Node "" "If" [Some "cond"] ["o1"] []
       [("else_branch", Graph [] [] [Node "" "Relu" [Some "x"] ["e"] [] []] ["e"]);
        ("then_branch", Graph [] [] [Node "" "Abs" [Some "x"] ["val_0"] [] []; Node "" "Neg" [Some "val_0"] ["t"] [] []] ["t"])];
     Node "" "Abs" [Some "o1"] ["val_0"] [] [];
     Node "" "Neg" [Some "val_0"] ["o"] [] []]
    ["o"].

(* ---- a replacement output that is an EXISTING value (a pattern input, ...) ------------------------------------------ *)
(* created: the outputs of the replacement nodes; pinned: graph inputs, initializers and graph outputs (names that are part
   of an interface); outs0: the graph outputs when the rule fires; state: names, current graph outputs, next unused object,
   number of forwarding Identity nodes added.
   fx = false, the code as read: every replacement output takes the name of the pattern output and its place among the
   graph outputs (replace_nodes_and_values).
   fx = true, proposed_fixes/ready/C07_05_returned_existing_value_keeps_its_name.diff: an existing value keeps its name -- the uses are redirected to it when the pattern
   output is not a graph output; it is forwarded through a new Identity node when both names are pinned; it is renamed only
   when its name is free (interior value taking over a graph output). *)
Definition has (x : nat) (l : list nat) : bool := existsb (Nat.eqb x) l.

Definition splice1 (fx : bool) (created pinned outs0 : list nat) (st : vals * list nat * nat * nat) (on : nat * nat)
  : vals * list nat * nat * nat :=
  let '(vs, outs, fresh, k) := st in
  let (o, n) := on in
  let renamed (x : nat) := (dset Nat.eqb x (name_of o vs) vs, map (fun y => if Nat.eqb y o then x else y) outs) in
  if negb fx || has n created then (renamed n, fresh, k)
  else if negb (has o outs0) then (vs, outs, fresh, k)
  else if has n pinned then (renamed fresh, S fresh, S k)
  else (renamed n, fresh, k).

(* is_forward: the match is a single Identity node whose input is the value returned for a pinned pattern output: with the
   repair the rule declines (None), the node needed between two pinned names is there already *)
Definition splice_names (fx : bool) (created pinned : list nat) (is_forward : bool) (olds news : list nat)
           (vs : vals) (outs : list nat) (fresh : nat) : option (vals * list nat * nat * nat) :=
  if fx && is_forward then None
  else Some (fold_left (splice1 fx created pinned outs) (combine olds news) (vs, outs, fresh, 0)).

(* what the correspondence observes: names of the graph inputs and of the graph outputs afterwards, number of forwarding
   nodes (None: the rule declined) *)
Definition observe (inputs : list nat) (vs : vals) (outs : list nat) (r : option (vals * list nat * nat * nat))
  : list string * list string * option nat :=
  match r with
  | None => (names_of_objects inputs vs, names_of_objects outs vs, None)
  | Some (vs', outs', _, k) => (names_of_objects inputs vs', names_of_objects outs' vs', Some k)
  end.

Definition obs_eqb (a b : list string * list string * option nat) : bool :=
  list_eqb String.eqb (fst (fst a)) (fst (fst b)) && list_eqb String.eqb (snd (fst a)) (snd (fst b)) &&
  opt_eqb Nat.eqb (snd a) (snd b).
