"""C10 -- model templates for the version-conversion check.

Every template builds a valid ModelProto at source opset `s` (18..25) from a parameter dict drawn
from the single PRNG, together with feeds for the execution oracle.  The ops with adapters are written
the way the source opset spells them (DFT axis attribute < 20 / axis input >= 20; GridSample mode names
< 20 / >= 20; GroupNormalization per-group scale < 21 / per-channel >= 21).
"""
from __future__ import annotations

import numpy as np
import onnx
from onnx import TensorProto as TP
from onnx import helper, numpy_helper

F = TP.FLOAT


def _vi(name, shape, t=F):
    return helper.make_tensor_value_info(name, t, shape)


def _vo(name, rank, t=F):
    """an output of known rank and unknown dims"""
    return helper.make_tensor_value_info(name, t, [f"{name}_d{i}" for i in range(rank)])


def _model(nodes, inputs, outputs, s, inits=(), functions=(), extra_imports=(), value_info=()):
    g = helper.make_graph(list(nodes), "g", list(inputs), list(outputs), initializer=list(inits),
                          value_info=list(value_info))
    m = helper.make_model(g, opset_imports=[helper.make_opsetid("", s)] + [helper.make_opsetid(d, v) for d, v in extra_imports],
                          ir_version=10, functions=list(functions), producer_name="osverif-c10")
    return m


# ----------------------------------------------------------------------------- op builders (one "adapted" op applied to a value)

def dft_nodes(s, prm, x, y, pre=""):
    """DFT on `x` -> `y`. prm: axis (None|int), inverse, onesided (None|0|1), length (None|int). Returns (nodes, inits)."""
    attrs = {}
    if prm.get("inverse") is not None:
        attrs["inverse"] = prm["inverse"]
    if prm.get("onesided") is not None:
        attrs["onesided"] = prm["onesided"]
    inits = []
    ins = [x]
    if prm.get("length") is not None:
        inits.append(numpy_helper.from_array(np.array(prm["length"], dtype=np.int64), pre + "dft_len"))
        ins.append(pre + "dft_len")
    if s < 20:
        if prm.get("axis") is not None:
            attrs["axis"] = prm["axis"]
    else:
        if prm.get("axis") is not None:
            if len(ins) == 1:
                ins.append("")
            inits.append(numpy_helper.from_array(np.array(prm["axis"], dtype=np.int64), pre + "dft_axis"))
            ins.append(pre + "dft_axis")
    return [helper.make_node("DFT", ins, [y], **attrs)], inits


def gs_nodes(s, prm, x, grid, y):
    attrs = {}
    mode = prm.get("mode")
    if mode is not None:
        old = {"linear": "bilinear", "nearest": "nearest", "cubic": "bicubic"}
        # raw: the string is written as given (attribute grid: old spellings, empty string, a new spelling under an old opset)
        attrs["mode"] = mode if prm.get("raw") else (old[mode] if s < 20 else mode)
    if prm.get("padding_mode") is not None:
        attrs["padding_mode"] = prm["padding_mode"]
    if prm.get("align_corners") is not None:
        attrs["align_corners"] = prm["align_corners"]
    return [helper.make_node("GridSample", [x, grid], [y], **attrs)], []


def gn_nodes(s, prm, x, scale, bias, y):
    attrs = {"num_groups": prm["groups"]}
    if prm.get("epsilon") is not None:
        attrs["epsilon"] = prm["epsilon"]
    return [helper.make_node("GroupNormalization", [x, scale, bias], [y], **attrs)], []


# ----------------------------------------------------------------------------- parameter draws

def draw_dft(rng, s):
    rank = rng.choice([3, 3, 4])
    # every legal spelling: [0, r-2] and [-r, -2]; 0 is the one value of `axis` that is falsy and differs from the DFT-17 default 1
    axes = [None, 0, 1, -2, -3] if rank == 3 else [None, 0, 1, 2, -2, -3, -4]
    inverse = rng.choice([None, 0, 1])
    onesided = rng.choice([None, 0, 1]) if inverse in (None, 0) else rng.choice([None, 0])
    return {"rank": rank, "axis": rng.choice(axes), "inverse": inverse, "onesided": onesided,
            "length": rng.choice([None, None, 4, 6])}


def draw_gs(rng, s):
    return {"mode": rng.choice([None, "linear", "nearest", "cubic"]),
            "padding_mode": rng.choice([None, "zeros", "border", "reflection"]),
            "align_corners": rng.choice([None, 0, 1])}


def draw_gn(rng, s):
    c = rng.choice([4, 6])
    return {"channels": c, "groups": rng.choice([1, 2, 2, 3, c] if c == 6 else [1, 2, 2, c]),
            "epsilon": rng.choice([None, None, 0.5]),
            "shape": rng.choice(["static", "static", "static", "symC", "symScale", "noshape"])}


def dft_x(prm):
    return [2, 4, 1] if prm["rank"] == 3 else [2, 3, 4, 1]


# ----------------------------------------------------------------------------- templates

def t_plain(s, prm):
    """Unchanged ops; optionally with a small and a large (> 1000 elements: call_onnx_api strips it) initializer."""
    nodes = [helper.make_node("Relu", ["x"], ["a"]), helper.make_node("Neg", ["a"], ["b"]),
             helper.make_node("Add", ["b", "x"], ["c"]), helper.make_node("Abs", ["c"], ["y0"])]
    inits = []
    if prm.get("inits"):
        r = np.random.RandomState(5)
        inits.append(numpy_helper.from_array(r.uniform(-1, 1, size=[2, 3]).astype(np.float32), "w_small"))
        inits.append(numpy_helper.from_array(r.uniform(-1, 1, size=[200, 2, 3]).astype(np.float32), "w_big"))
        nodes += [helper.make_node("Mul", ["y0", "w_small"], ["y1"]), helper.make_node("Add", ["y1", "w_big"], ["y2"]),
                  helper.make_node("ReduceMax", ["y2"], ["y"], keepdims=0)]
        out = _vo("y", 0)
    else:
        nodes.append(helper.make_node("Identity", ["y0"], ["y"]))
        out = _vi("y", [2, 3])
    m = _model(nodes, [_vi("x", [2, 3])], [out], s, inits=inits)
    return m, {"x": ("f", [2, 3])}


def t_dft(s, prm):
    shp = dft_x(prm)
    nodes, inits = dft_nodes(s, prm, "x", "d")
    nodes.append(helper.make_node("Neg", ["d"], ["y"]))
    m = _model(nodes, [_vi("x", shp)], [_vo("y", len(shp))], s, inits=inits)
    return m, {"x": ("f", shp)}


def t_gs(s, prm):
    nodes, _ = gs_nodes(s, prm, "x", "grid", "g0")
    nodes.append(helper.make_node("Relu", ["g0"], ["y"]))
    m = _model(nodes, [_vi("x", [1, 1, 3, 3]), _vi("grid", [1, 2, 2, 2])], [_vi("y", [1, 1, 2, 2])], s)
    return m, {"x": ("f", [1, 1, 3, 3]), "grid": ("g", [1, 2, 2, 2])}


def t_gn(s, prm):
    g = prm["groups"]
    c = prm.get("channels", 4)
    n = g if s < 21 else c         # length of scale/bias as the source opset wants it
    kind = prm["shape"]
    xshape = [1, "C", 4] if kind == "symC" else [1, c, 4]
    sshape = ["G"] if kind == "symScale" else [n]
    nodes = []
    xin = "x"
    if kind == "noshape":       # the op's input is an intermediate value without value_info
        nodes.append(helper.make_node("Relu", ["x"], ["xr"]))
        xin = "xr"
    nn, _ = gn_nodes(s, prm, xin, "scale", "bias", "y")
    nodes += nn
    m = _model(nodes, [_vi("x", xshape), _vi("scale", sshape), _vi("bias", sshape)], [_vi("y", xshape)], s)
    # small_x: inputs of variance ~1e-6, where the value of epsilon (0.0 / default 1e-5 / 0.5) decides the result
    return m, {"x": ("s" if prm.get("small_x") else "f", [1, c, 4]), "scale": ("f", [n]), "bias": ("f", [n])}


def _sub_op(s, prm, x, y, pre):
    """One op for a branch/function body, chosen by prm['sub']; consumes `x` (and `grid`), produces `y`."""
    k = prm["sub"]
    if k == "dft":
        return dft_nodes(s, prm["dft"], x, y, pre)
    if k == "gs":
        return gs_nodes(s, prm["gs"], x, "grid", y)
    return [helper.make_node("Relu", [x], [y])], []


def _sub_io(prm):
    """(graph inputs, feeds, rank of the op's output)"""
    k = prm["sub"]
    if k == "dft":
        shp = dft_x(prm["dft"])
        return [_vi("x", shp)], {"x": ("f", shp)}, len(shp)
    if k == "gs":
        return [_vi("x", [1, 1, 3, 3]), _vi("grid", [1, 2, 2, 2])], {"x": ("f", [1, 1, 3, 3]), "grid": ("g", [1, 2, 2, 2])}, 4
    return [_vi("x", [2, 3])], {"x": ("f", [2, 3])}, 2


def draw_sub(rng, s):
    return {"sub": rng.choice(["dft", "gs", "relu", "dft", "gs"]), "dft": draw_dft(rng, s), "gs": draw_gs(rng, s),
            "nested": rng.choice([False, True]), "refattr": rng.choice([False, True])}


def t_if(s, prm):
    """If with the adapted op in both branches (outer-scope x); optionally nested one level deeper."""
    inits = []
    ins, feeds, rank = _sub_io(prm)

    def branch(tag, neg_first):
        nodes = []
        src = "x"
        if neg_first:
            nodes.append(helper.make_node("Neg", ["x"], [tag + "_n"]))
            src = tag + "_n"
        nn, ii = _sub_op(s, prm, src, tag + "_o", tag + "_")
        inits.extend(ii)
        nodes += nn
        return helper.make_graph(nodes, tag, [], [_vo(tag + "_o", rank)])

    else_g = branch("el", True)
    if not prm["nested"]:
        then_g = branch("th", False)
    else:
        inner = helper.make_node("If", ["cond"], ["in_o"], then_branch=branch("ith", True), else_branch=branch("iel", False))
        then_g = helper.make_graph([inner, helper.make_node("Identity", ["in_o"], ["th2_o"])], "th2", [], [_vo("th2_o", rank)])
    nodes = [helper.make_node("If", ["cond"], ["r"], then_branch=then_g, else_branch=else_g),
             helper.make_node("Relu", ["r"], ["y"])]
    m = _model(nodes, ins + [_vi("cond", [], TP.BOOL)], [_vo("y", rank)], s, inits=inits)
    feeds["cond"] = ("b", [])
    return m, feeds


def t_func(s, prm):
    """A model-local function holding the adapted op; optionally a second function with a reference attribute."""
    ins, feeds, rank = _sub_io(prm)
    names = [v.name for v in ins]
    # the function body must be self-contained: constants as Constant nodes
    body, inits = _sub_op(s, prm, "fx", "fo", "f_")
    pre = []
    for t in inits:
        pre.append(helper.make_node("Constant", [], [t.name], value=t))
    fin = ["fx"] + (["grid"] if prm["sub"] == "gs" else [])
    f1 = helper.make_function("local", "F", fin, ["fo"], pre + body, [helper.make_opsetid("", s)])
    functions = [f1]
    nodes = [helper.make_node("F", names, ["f_out"], domain="local")]
    last = "f_out"
    if prm["refattr"]:
        lr = helper.make_node("LeakyRelu", ["gx"], ["go"])
        a = onnx.AttributeProto()
        a.name = "alpha"
        a.ref_attr_name = "alpha"
        a.type = onnx.AttributeProto.FLOAT
        lr.attribute.append(a)
        f2 = helper.make_function("local", "G", ["gx"], ["go2"], [lr, helper.make_node("Neg", ["go"], ["go2"])],
                                  [helper.make_opsetid("", s)], attributes=["alpha"])
        functions.append(f2)
        nodes.append(helper.make_node("G", [last], ["g_out"], domain="local", alpha=0.25))
        last = "g_out"
    nodes.append(helper.make_node("Relu", [last], ["y"]))
    m = _model(nodes, ins, [_vo("y", rank)], s, functions=functions, extra_imports=[("local", 1)])
    return m, feeds


def t_mix(s, prm):
    """DFT, GridSample and GroupNormalization side by side with unchanged ops and an initializer."""
    d, g, n = prm["dft"], prm["gs"], prm["gn"]
    nodes, inits = dft_nodes(s, d, "xd", "d0")
    nodes.append(helper.make_node("ReduceSum", ["d0"], ["y1"], keepdims=0))
    nn, _ = gs_nodes(s, g, "xg", "grid", "g0")
    nodes += nn
    w = numpy_helper.from_array(np.array([[[[0.5, -1.0], [2.0, 0.25]]]], dtype=np.float32), "w")
    inits.append(w)
    nodes.append(helper.make_node("Mul", ["g0", "w"], ["y2"]))
    gp = dict(n)
    gp["shape"] = "static"
    c = gp.get("channels", 4)
    ln = gp["groups"] if s < 21 else c
    nn, _ = gn_nodes(s, gp, "xn", "scale", "bias", "y3")
    nodes += nn
    ins = [_vi("xd", dft_x(d)), _vi("xg", [1, 1, 3, 3]), _vi("grid", [1, 2, 2, 2]), _vi("xn", [1, c, 4]),
           _vi("scale", [ln]), _vi("bias", [ln])]
    outs = [_vo("y1", 0), _vi("y2", [1, 1, 2, 2]), _vi("y3", [1, c, 4])]
    m = _model(nodes, ins, outs, s, inits=inits)
    feeds = {"xd": ("f", dft_x(d)), "xg": ("f", [1, 1, 3, 3]), "grid": ("g", [1, 2, 2, 2]), "xn": ("f", [1, c, 4]),
             "scale": ("f", [ln]), "bias": ("f", [ln])}
    return m, feeds


TEMPLATES = {
    "plain": (t_plain, lambda rng, s: {"inits": rng.choice([False, True])}),
    "dft": (t_dft, draw_dft),
    "gs": (t_gs, draw_gs),
    "gn": (t_gn, draw_gn),
    "if": (t_if, draw_sub),
    "func": (t_func, draw_sub),
    "mix": (t_mix, lambda rng, s: {"dft": draw_dft(rng, s), "gs": draw_gs(rng, s), "gn": draw_gn(rng, s)}),
}
ORDER = ["plain", "dft", "gs", "gn", "if", "func", "mix"]


def make_feeds(spec, seed):
    r = np.random.RandomState(seed % (2 ** 31))
    out = {}
    for k in sorted(spec):
        kind, shp = spec[k]
        if kind == "f":
            out[k] = r.uniform(-2, 2, size=shp).astype(np.float32)
        elif kind == "g":
            out[k] = r.uniform(-1.2, 1.2, size=shp).astype(np.float32)
        elif kind == "s":
            out[k] = (r.uniform(-2, 2, size=shp) * 1e-3).astype(np.float32)
        elif kind == "b":
            out[k] = np.array(bool(r.randint(0, 2)))
    return out
