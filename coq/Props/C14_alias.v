(* C14 property theorems, part D': "script-time constants are fixed when the decorator runs" when the object the script
   refers to shares memory with objects held elsewhere (Determinism/Alias.v).  Statements only, each closed by `exact`.
   Requirement: the captured constant is a deep copy -- no cell of it is reachable from an object outside; the mutations
   quantified over are rebindings and writes through ANY object of the rest of the program (every alias of what the script
   referred to, whatever the `writeable` flag of the object the script itself saw).
   Not covered: objects that are not arrays (TensorProto, onnx_ir.Tensor) are measured by the direct oracle only. *)
From Coq Require Import List String ZArith.
Require Import OV.Determinism.Alias OV.Determinism.AliasProofs.
Import ListNotations.

(* D'. the clause holds for the deep-copy policy (`pyvalue = pyvalue.copy()` unconditionally) *)
Theorem C14_later_results_fixed_any_alias : later_results_fixed_alias CopyAlways.
Proof. exact copy_always_fixed. Qed.
Print Assumptions C14_later_results_fixed_any_alias.

(* D'. ... and what it keeps fixed are the values at decoration time *)
Theorem C14_captured_constants_are_decoration_values : captures_decoration_values CopyAlways.
Proof. exact copy_always_captures_decoration_values. Qed.
Print Assumptions C14_captured_constants_are_decoration_values.

(* D'. the frame property behind it, for any way of capturing: constants that live in buffers [lo, hi) nobody else can name
   are unchanged by every sequence of outside mutations *)
Theorem C14_isolated_constants_fixed : forall (f : scriptfn) lo hi,
  (forall n c, In (n, c) (f_consts f) -> lo <= a_buf c < hi) ->
  forall ms st, Forall (outside lo hi) ms -> forall n, view f (snd (apply ms st)) n = view f (snd st) n.
Proof. exact isolated_constants_fixed. Qed.
Print Assumptions C14_isolated_constants_fixed.

(* D'. copy only `if pyvalue.flags.writeable` ("a read-only array cannot change"): false.  Witness: TABLE is a read-only view of
   an array whose owner writes base[0] = 41 after decoration (replayed on the real converter: s_alias_ro_view, s_alias_broadcast,
   s_alias_frombuffer_ro, s_alias_memmap, s_alias_ro_owner) *)
Theorem C14_later_results_copy_if_writeable_refuted : ~ later_results_fixed_alias CopyIfWriteable.
Proof. exact copy_if_writeable_refuted. Qed.
Print Assumptions C14_later_results_copy_if_writeable_refuted.

(* D'. what does hold for that policy: scripts that refer to writable arrays only (full statement: later_results_fixed_alias
   CopyIfWriteable, refuted above) *)
Theorem C14_later_results_copy_if_writeable_partial : later_results_fixed_alias_on true CopyIfWriteable.
Proof. exact copy_if_writeable_fixed_on_writeable. Qed.
Print Assumptions C14_later_results_copy_if_writeable_partial.

(* D'. no copy (the tensor wraps the caller's array): false whatever the flag of the array *)
Theorem C14_later_results_no_copy_refuted : forall flag, ~ later_results_fixed_alias_on flag NoCopy.
Proof. exact no_copy_refuted_on. Qed.
Print Assumptions C14_later_results_no_copy_refuted.

(* D'. the table the harness uses to decide, per kind of shared memory, which policy the implementation follows *)
Theorem C14_alias_prediction_table : forall p flag,
  (predict_alias p flag = true -> later_results_fixed_alias_on flag p) /\
  (predict_alias p flag = false -> ~ later_results_fixed_alias_on flag p).
Proof. exact predict_alias_spec. Qed.
Print Assumptions C14_alias_prediction_table.

(* D'. lifted to the capture sites read from the current sources (the harness instantiates l with Gen/CapturePolicy.v) *)
Theorem C14_capture_sites_fixed : forall l : list (string * policy), forallb (fun sp => is_always (snd sp)) l = true ->
  forall sp, In sp l -> later_results_fixed_alias (snd sp) /\ captures_decoration_values (snd sp).
Proof. exact policies_fixed. Qed.
Print Assumptions C14_capture_sites_fixed.
