"""C17, session 6: (a) the class chain as extracted vs the imported classes and vs the inheritance test
(Registry/OpsetInherit.v); (b) lookup histories across opset versions in both orders, each order in a fresh
process; (c) the TRANSLATION family: scripts that call opsetN.Op are run through the real @script decorator and
every node of the FunctionProto / ModelProto is resolved through (domain, op_type, the proto's opset import) with
onnx.defs.get_schema and compared with the schema the generated method denotes in eager mode; two versions of one
domain in one function must be refused or resolve every node to the schema of ITS opset; the translate_body model
(Registry/OpsetTranslate.v) is compared with what the converter did; eager vs onnxruntime where schemas differ
observably."""
from __future__ import annotations

import collections
import importlib.util
import json
import linecache
import os
import subprocess
import sys
import warnings

import numpy as np

from harness import c17_emit as E
from harness import common
from harness.common import clist, copt

REQS = ["OV.Registry.OpsetMethod", "OV.Registry.OpsetEmit", "OV.Registry.OpsetChain", "OV.Registry.OpsetInherit",
        "OV.Registry.OpsetTranslate", "OV.Gen.OpsetMethods", "OV.Gen.OpsetSchemas"]


def dl(d):
    return d if d else "ai.onnx"


def _eval(ctx, body, name):
    for attempt in range(3):
        os.makedirs(ctx.cases_dir, exist_ok=True)
        try:
            return ctx.coq_eval(REQS, body, name=name)
        except FileNotFoundError:
            if attempt == 2:
                raise
    raise AssertionError


def _strs(v):
    import re
    return [m.replace('""', '"') for m in re.findall(r'"((?:[^"]|"")*)"', v)]


# ============================================================================= (a) class chain

def chain_stage(ctx, R, opsets, classes, recs, live_schema):
    import inspect
    by_cls = {c["cls"]: c for c in classes}
    # ---- the inheritance test evaluated by Coq on the extracted classes; failures listed, then replayed for real
    body = (
        'Definition sh (x : string * string * string * Z * Z) : string := '
        'let \'(c, op, d, _, _) := x in (c ++ "|" ++ op ++ "|" ++ d)%string.\n'
        "Definition fl := inherit_failures OpsetSchemas.schemas OpsetMethods.classes.\n"
        "Eval vm_compute in (map sh fl).\n"
        "Eval vm_compute in (List.concat (map (fun x => let '(_, _, _, a, b) := x in [a; b]) fl)).\n"
        'Eval vm_compute in ((if chains_shape_ok OpsetMethods.classes then [] else ["chain-shape"]) ++ '
        '(if uniq_keysb OpsetSchemas.schemas then [] else ["uniq-keys"]))%list.')
    ok, vals, raw = _eval(ctx, body, "inherit")
    if not ok or len(vals) != 3:
        ctx.tie_broken("translator", "Gen/OpsetMethods.v", "inheritance model does not evaluate on the regenerated data: " + raw[-1200:])
        return
    names = [tuple(s.split("|")) for s in _strs(vals[0])]
    nums = common.parse_nat_list(vals[1])
    shape_bad = _strs(vals[2])
    fails = [(c, op, d, nums[2 * i], nums[2 * i + 1]) for i, (c, op, d) in enumerate(names)]
    seen = set()
    for cn, op, dn, dv, since in fails[:12]:
        o = opsets.get(cn)
        if o is None or not op:
            ctx.tie_broken("translator", cn, f"inheritance test fails on {cn}.{op} ({dn}) but the class is not importable / chain broken")
            continue
        dc = R.defining_class(type(o), op)
        s = live_schema(o.domain, op, o.version)
        real_v = dc().version if dc is not None and dc.__module__.startswith("onnxscript.onnx_opset._impl") else None
        want = None if s is None else int(s.since_version)
        if real_v == want:
            ctx.tie_broken("translator", f"{cn}.{op}", f"model: supplied by {dn} (version {dv}), schema since {since}; the imported class shows "
                                                       f"{None if dc is None else dc.__name__} / {want}")
            continue
        key = f"C17:{cn}.{op}:inherited-from-wrong-class"
        if key in seen:
            continue
        seen.add(key)
        ctx.violation(key, f"{cn}.{op} is supplied by {None if dc is None else dc.__name__} (version {real_v}) along type({cn}).__mro__, but "
                           f"onnx.defs.get_schema({op!r}, {o.version}, {o.domain!r}) has since_version {want}",
                      {"class": cn, "op": op, "supplying_class": None if dc is None else dc.__name__, "supplying_version": real_v,
                       "schema_since": want, "mro": [k.__name__ for k in type(o).__mro__ if k.__module__.startswith("onnxscript.onnx_opset._impl")]})
    ctx.obligation("C17_inherited_method_resolves_to_schema: inherit_failures Gen.schemas Gen.classes = [] (every (class, operator): the class "
                   "that supplies the method along the extracted base-class chain is the class of the schema's since_version); chains have "
                   "the shape N, N-1, ..., 1 within one domain", not fails and not shape_bad,
                   "; ".join(f"{c}.{op} from {d}({dv}) schema {sv}" for c, op, d, dv, sv in fails[:6]) + " " + " ".join(shape_bad))
    # ---- the same directly on the imported classes, and type(o).__mro__ / own namespaces vs the extracted chain
    mro_cases, meta, direct_bad = [], [], 0
    for cn in sorted(opsets):
        o = opsets[cn]
        gen = [k for k in type(o).__mro__ if k.__module__.startswith("onnxscript.onnx_opset._impl")]
        own = [n for n, v in vars(type(o)).items() if inspect.isfunction(v) and not n.startswith("_")]
        mro_cases.append(f"({E.cs(cn)}, {clist([k.__name__ for k in gen], E.cs)}, {clist(own, E.cs)})")
        meta.append((cn, [k.__name__ for k in gen], len(own)))
        ctx.case(("class-chain", o.domain, len(gen), len(own) > 0))
        versions = [k().version for k in gen]
        if versions != list(range(o.version, 0, -1)) or any(k().domain != o.domain for k in gen):
            ctx.cover(chain_shape_note=f"{cn}: versions along __mro__ {versions}")
        names_here = set()
        for k in gen:
            names_here |= {n for n, v in vars(k).items() if inspect.isfunction(v) and not n.startswith("_")}
        for op in sorted(names_here):
            s = live_schema(o.domain, op, o.version)
            dc = R.defining_class(type(o), op)
            if s is None or dc is None:
                continue            # reported by the registry stage (no-such-operator / missing-method)
            ctx.case(("supplying-class", o.domain, o.version - dc().version, dc is type(o)))
            if dc().version != int(s.since_version) or dc().domain != o.domain:
                direct_bad += 1
                key = f"C17:{cn}.{op}:inherited-from-wrong-class"
                if key not in seen and len(seen) < 12:
                    seen.add(key)
                    ctx.violation(key, f"{cn}.{op} is supplied by {dc.__name__} (version {dc().version}) but get_schema has since_version {s.since_version}",
                                  {"class": cn, "op": op, "supplying_class": dc.__name__, "supplying_version": dc().version,
                                   "schema_since": int(s.since_version), "mro": [k.__name__ for k in gen]})
    body = f"Definition cases := {clist(mro_cases)}.\nEval vm_compute in (disagreeing (mro_agrees OpsetMethods.classes) 0 cases)."
    ok, vals, raw = _eval(ctx, body, "mro")
    if not ok or len(vals) != 1:
        ctx.tie_broken("correspondence", "class-chain:model-evaluation", raw[-1000:])
    else:
        bad = common.parse_nat_list(vals[0])
        for i in bad[:4]:
            ctx.tie_broken("correspondence", "class-chain", f"extracted base-class chain / own methods differ from the imported class: {meta[i]}")
        ctx.obligation(f"correspondence: mro model on the extracted classes = type(opsetN).__mro__ and own method names (definition order) "
                       f"of all {len(mro_cases)} imported classes; supplying class version = schema since_version on the imported classes", not bad and not direct_bad)
    ctx.cover(class_chain_classes=len(mro_cases))


# ============================================================================= (b) lookup histories

_HIST_WORKER = r"""
import json, sys, warnings
warnings.filterwarnings("ignore")
import onnxscript.onnx_opset as oo
from onnxscript import values
steps = json.load(open(sys.argv[1]))
out = []
def opset(dom, v):
    o = oo.all_opsets.get((dom, v))
    return o if o is not None else values.Opset(dom, v)
for dom, op, v in steps:
    o = opset(dom, v)
    item = o[op]
    tr = values.Op(o, op).op_schema
    try:
        g = getattr(o, op)
        ga = True
    except AttributeError:
        ga = False
    out.append([None if item is None else int(item.op_schema.since_version), op in o,
                None if tr is None else int(tr.since_version), ga])
json.dump(out, open(sys.argv[2], "w"))
"""


def history_stage(ctx, recs, live_schema):
    """Every operator introduced after version 1 of its domain: lookup in the opset just before its first version and in
    the opset of its first version; every changed pair (k1 < k2): lookups at k1 and k2.  Once old-opset-first, once
    new-opset-first, each order in its own fresh interpreter (class-level state of values.Opset starts empty)."""
    # the lists from the Coq enumeration, cross-checked with onnx.defs directly
    body = ('Definition s3 (x : string * string * Z) : string := let \'(d, n, _) := x in (d ++ "|" ++ n)%string.\n'
            'Definition s4 (x : vpair) : string := let \'(d, n, _, _) := x in (d ++ "|" ++ n)%string.\n'
            "Eval vm_compute in (map s3 (late_ops OpsetSchemas.schemas)).\n"
            "Eval vm_compute in (map (fun x : string * string * Z => snd x) (late_ops OpsetSchemas.schemas)).\n"
            "Eval vm_compute in (map s4 (changed_pairs OpsetSchemas.schemas)).\n"
            "Eval vm_compute in (List.concat (map (fun x : vpair => let '(_, _, a, b) := x in [a; b]) (changed_pairs OpsetSchemas.schemas))).")
    ok, vals, raw = _eval(ctx, body, "pairs")
    if not ok or len(vals) != 4:
        ctx.tie_broken("translator", "Gen/OpsetSchemas.v", "changed_pairs / late_ops do not evaluate: " + raw[-1000:])
        return None, None
    ln = [tuple(s.split("|")) for s in _strs(vals[0])]
    lk = common.parse_nat_list(vals[1])
    late = sorted((d, n, k) for (d, n), k in zip(ln, lk))
    pn = [tuple(s.split("|")) for s in _strs(vals[2])]
    pk = common.parse_nat_list(vals[3])
    pairs = sorted((d, n, pk[2 * i], pk[2 * i + 1]) for i, (d, n) in enumerate(pn))
    hist = collections.defaultdict(list)
    for r in recs:
        hist[(r["domain"], r["name"])].append(r["since"])
    want_late = sorted((d, n, min(v)) for (d, n), v in hist.items() if min(v) > 1)
    want_pairs = sorted((d, n, a, b) for (d, n), v in hist.items() for a in v for b in v if a < b)
    ctx.obligation(f"schema_changed_pairs_complete instance: changed_pairs Gen.schemas ({len(pairs)} pairs) and late_ops ({len(late)} operators "
                   f"introduced after version 1) = the same sets computed from onnx.defs directly", late == want_late and pairs == want_pairs)
    if late != want_late or pairs != want_pairs:
        ctx.tie_broken("correspondence", "changed-pairs", f"Coq enumeration differs from onnx.defs: late {len(late)}/{len(want_late)}, pairs {len(pairs)}/{len(want_pairs)}")
    ctx.cover(changed_pairs=len(pairs), late_ops=len(late))
    # histories (lo, hi): (domain, op, N_lo, N_hi)
    hs = [(d, n, k - 1, k) for d, n, k in late] + [(d, n, a, b) for d, n, a, b in pairs]
    results = {}
    for order in ("old-first", "new-first"):
        steps = []
        for d, n, lo, hi in hs:
            steps += [(d, n, lo), (d, n, hi)] if order == "old-first" else [(d, n, hi), (d, n, lo)]
        fin = os.path.join(ctx.cases_dir, f"hist_{order}.json")
        fout = os.path.join(ctx.cases_dir, f"hist_{order}.out.json")
        json.dump(steps, open(fin, "w"))
        env = dict(os.environ, PYTHONPATH=f"{common.REPO}:{os.path.dirname(os.path.dirname(os.path.abspath(__file__)))}",
                   PYTHONHASHSEED="0", OMP_NUM_THREADS="1")
        p = subprocess.run([sys.executable, "-c", _HIST_WORKER, fin, fout], env=env, stdout=subprocess.PIPE, stderr=subprocess.STDOUT, text=True, timeout=600)
        if p.returncode != 0 or not os.path.exists(fout):
            ctx.tie_broken("harness", f"lookup-history:{order}", p.stdout[-800:])
            return late, pairs
        results[order] = (steps, json.load(open(fout)))
    n_bad, reported = 0, set()
    hist_cases, hist_meta = [], []
    for order, (steps, obs) in results.items():
        log = collections.defaultdict(list)      # per (domain, op): everything looked up so far in that process
        for (d, n, v), (item, cont, tr, ga) in zip(steps, obs):
            s = live_schema(d, n, v)
            want = None if s is None else int(s.since_version)
            log[(d, n)].append({"opset": [d, v], "getitem_since": item, "contains": cont, "values.Op_since": tr, "getattr": ga, "onnx_defs_since": want})
            ctx.case(("history", order, want is None, d))
            if item != want or cont != (want is not None) or tr != want or ga != (want is not None):
                n_bad += 1
                which = "getitem" if item != want else ("contains" if cont != (want is not None) else ("values.Op" if tr != want else "getattr"))
                key = f"C17:Opset-dynamic-lookup:history-dependent:{order}:{which}"
                if key not in reported:
                    reported.add(key)
                    ctx.violation(key, f"in a fresh interpreter, after {[tuple(x['opset']) for x in log[(d, n)][:-1]]} were asked for {n!r}, "
                                       f"opset({dl(d)}, {v})[{n!r}] / in / values.Op / getattr give since={item}/{cont}/{tr}/{ga}; onnx.defs.get_schema says {want}",
                                  {"order": order, "domain": d, "op": n, "history": log[(d, n)],
                                   "how": "fresh process; import onnxscript.onnx_opset; for each step: o = all_opsets[(domain, N)]; o[op]; op in o; values.Op(o, op).op_schema; getattr(o, op)"})
        # the model on the same histories: pairs of consecutive steps
        for i in range(0, len(steps), 2):
            (d, n, v1), (_, _, v2) = steps[i], steps[i + 1]
            hist_cases.append(f"({E.cs(d)}, {E.cs(n)}, {E.cz(v1)}, {E.cz(v2)}, {copt(obs[i][0], E.cz)}, {copt(obs[i + 1][0], E.cz)})")
            hist_meta.append((order, d, n, v1, v2, obs[i][0], obs[i + 1][0]))
    bad = []
    for k in range(0, len(hist_cases), 1500):
        body = f"Definition cases : list hist_case := {clist(hist_cases[k:k + 1500])}.\nEval vm_compute in (disagreeing (hist_agrees OpsetSchemas.schemas) 0 cases)."
        ok, vals, raw = _eval(ctx, body, f"hist{k}")
        if not ok or len(vals) != 1:
            ctx.tie_broken("correspondence", "lookup-history:model-evaluation", raw[-1000:])
            return late, pairs
        bad += [k + i for i in common.parse_nat_list(vals[0])]
    if bad and not n_bad:
        ctx.tie_broken("correspondence", "lookup-history", f"resolve model differs from the observed history {hist_meta[bad[0]]}")
    ctx.obligation(f"lookup histories: {len(hs)} two-step histories (every operator introduced after version 1: opset before / opset of its first "
                   f"version; every changed pair k1 < k2) in BOTH orders, each order in a fresh interpreter: Opset.__getitem__/__contains__/"
                   f"__getattr__/values.Op = onnx.defs = resolve model at every step", not n_bad and not bad)
    ctx.cover(lookup_histories=2 * len(hs))
    return late, pairs


# ============================================================================= (c) translation

_ATTR_VALUE = None


def _attr_literal(a):
    """A Python literal for a required attribute, by its declared type; None if it cannot be written in a call."""
    import onnx
    T = onnx.defs.OpSchema.AttrType
    return {T.INT: "1", T.FLOAT: "1.0", T.STRING: "'a'", T.INTS: "[1]", T.FLOATS: "[1.0]", T.STRINGS: "['a']"}.get(a.type)


def generic_call(s):
    """(number of tensor parameters, argument text with %s for the parameter names, number of targets) from the schema; None
    when the operator cannot be written as a plain call (graph / tensor / type attributes)."""
    import onnx
    O = onnx.defs.OpSchema.FormalParameterOption
    args, n = [], 0
    for i in s.inputs:
        if i.option == O.Optional:
            args.append(None)
        else:
            args.append(n)
            n += 1
    while args and args[-1] is None:
        args.pop()
    kws = []
    for a in sorted(s.attributes.values(), key=lambda a: a.name):
        if a.required:
            lit = _attr_literal(a)
            if lit is None:
                return None
            kws.append(f"{a.name}={lit}")
    n_t = sum(1 for o in s.outputs if o.option == O.Single) or 1
    if any(o.option == O.Variadic for o in s.outputs):
        n_t = 1
    if n == 0:
        return None         # nothing to feed: generators (Constant needs a tensor attribute, RandomNormal a shape) -- not a plain call
    return n, args, kws, n_t


def plan_call(plan, s):
    """The same from an execution-table plan (inputs with None, literal attributes)."""
    import onnx
    O = onnx.defs.OpSchema.FormalParameterOption
    inputs, attrs = plan
    args, n = [], 0
    for a in inputs:
        if a is None:
            args.append(None)
        else:
            args.append(n)
            n += 1
    kws = [f"{k}={v!r}" for k, v in sorted(attrs.items())]
    if any(not isinstance(v, (int, float, str, list, tuple)) for v in attrs.values()):
        return None
    n_t = sum(1 for o in s.outputs if o.option == O.Single) or 1
    return n, args, kws, n_t


_DT = {"float32": "FLOAT", "int64": "INT64", "bool": "BOOL", "uint8": "UINT8", "float64": "DOUBLE", "int32": "INT32"}


class Scripts:
    """One generated module per batch; every function is decorated inside its own try/except."""

    def __init__(self, ctx):
        self.ctx = ctx
        self.items = []          # (fname, calls [(alias, op, args, kws, n_t)], params [(name, annotation)])
        self.aliases = {}

    def alias(self, cn):
        self.aliases[cn] = "O_" + cn
        return "O_" + cn

    def add(self, calls, arrays=None):
        """calls: [(class name, op, (n, args, kws, n_t))]; parameters are shared positionally by all calls (p0, p1, ...)."""
        idx = len(self.items)
        fname = f"f{idx}"
        n_par = max(c[2][0] for c in calls)
        if arrays is not None:
            params = []
            for j, a in enumerate(arrays):
                ann = _DT.get(str(a.dtype))
                params.append(f"p{j}: {ann}[{', '.join(map(str, a.shape))}]" if ann and a.shape else (f"p{j}: {ann}" if ann else f"p{j}"))
        else:
            params = [f"p{j}" for j in range(n_par)]
        lines, rets, t = [], [], 0
        for cn, op, (n, args, kws, n_t) in calls:
            targets = [f"r{t + j}" for j in range(n_t)]
            t += n_t
            argt = ["None" if a is None else f"p{a}" for a in args] + kws
            lines.append(f"        {', '.join(targets)} = {self.alias(cn)}.{op}({', '.join(argt)})")
            rets += targets
        src = (f"try:\n    @script()\n    def {fname}({', '.join(params)}):\n" + "\n".join(lines) +
               f"\n        return {', '.join(rets)}\nexcept Exception as _e:\n    ERR[{fname!r}] = _e\n")
        self.items.append((fname, src))
        return fname

    def load(self, tag):
        head = ("import warnings\nfrom onnxscript import script, FLOAT, INT64, BOOL, UINT8, DOUBLE, INT32\nimport onnxscript.onnx_opset as _oo\n"
                "_by = {type(v).__name__: v for v in _oo.all_opsets.values()}\nERR = {}\n" +
                "".join(f"{a} = _by[{cn!r}]\n" for cn, a in sorted(self.aliases.items())))
        name = f"osverif_c17_{tag}_{os.getpid()}"
        fn = os.path.join(self.ctx.cases_dir, name + ".py")
        with open(fn, "w") as f:
            f.write(head + "\n".join(src for _, src in self.items))
        spec = importlib.util.spec_from_file_location(name, fn)
        mod = importlib.util.module_from_spec(spec)
        sys.modules[name] = mod
        try:
            with warnings.catch_warnings():
                warnings.simplefilter("ignore")
                spec.loader.exec_module(mod)
        finally:
            sys.modules.pop(name, None)
        self.sources = dict(self.items)
        return mod


def proto_nodes(proto_nodes_, imports, scope):
    """[(scope, domain, op_type, import version or None)] for the nodes of one graph / function (no subgraphs are generated)."""
    return [(scope, n.domain, n.op_type, imports.get(n.domain)) for n in proto_nodes_]


def _ort(model, feeds):
    import onnxruntime as ort
    so = ort.SessionOptions()
    so.graph_optimization_level = ort.GraphOptimizationLevel.ORT_DISABLE_ALL
    so.log_severity_level = 4
    so.intra_op_num_threads = 1
    so.inter_op_num_threads = 1
    sess = ort.InferenceSession(model.SerializeToString(), so, providers=["CPUExecutionProvider"])
    return [np.asarray(x) for x in sess.run(None, feeds)]


def translation_stage(ctx, R, opsets, classes, recs, live_schema, pairs):
    import onnx.defs
    rng = ctx.rng
    by_key = {(c["domain"], c["version"]): c["cls"] for c in classes}
    hist = collections.defaultdict(list)
    for r in recs:
        hist[(r["domain"], r["name"])].append(r["since"])
    changed_ops = {(d, n) for (d, n), v in hist.items() if len(v) > 1}
    eager_cache = {}

    def eager_since(cn, op):
        """The schema the generated method visible on the class hands the evaluator (recorded real call)."""
        if (cn, op) not in eager_cache:
            o = opsets[cn]
            dc = R.defining_class(type(o), op)
            sch = live_schema(o.domain, op, dc().version) if dc is not None else None
            r = None
            if sch is not None:
                (mp, mk), _ = R.sentinel_call_plan(sch)
                r = R.recorded_call(o, op, mp, mk)
            eager_cache[(cn, op)] = None if r is None else (r[1], r[0], r[2])
        return eager_cache[(cn, op)]

    def call_for(cn, op):
        o = opsets[cn]
        s = live_schema(o.domain, op, o.version)
        if s is None or s.deprecated:
            return None, None, None
        plan = R.EXEC_TABLE[(o.domain, op)](int(s.since_version)) if (o.domain, op) in R.EXEC_TABLE else None
        if plan is not None:
            pc = plan_call(plan, s)
            if pc is not None:
                return pc, [a for a in plan[0] if a is not None], s
        return generic_call(s), None, s

    # ---------------- which (class, operator) / bodies
    singles = []                 # (cn, op)
    for c in classes:
        for m in c["methods"]:
            singles.append((c["cls"], m["name"], True))
        # one inheriting class per method: the opset that sees this method last / a random one in between
    users = collections.defaultdict(list)
    for cn, o in opsets.items():
        for c in classes:
            if c["domain"] == o.domain and c["version"] < o.version:
                users[c["cls"]].append(cn)
    for c in classes:
        for m in c["methods"]:
            cand = [u for u in users[c["cls"]] if R.defining_class(type(opsets[u]), m["name"]).__name__ == c["cls"]]
            if cand:
                singles.append((rng.choice(cand), m["name"], False))
    if ctx.tier == "quick":
        pri = [x for x in singles if (opsets[x[0]].domain, x[1]) in changed_ops and x[2]]
        ps_ = set(pri)
        rest = [x for x in singles if x not in ps_]
        singles = pri + rng.sample(rest, min(250, len(rest)))
    mixed = []                   # (domain, op, k_first, k_second)
    table_ops = {k for k in R.EXEC_TABLE}
    for d, n, a, b in pairs:
        if (d, a) in by_key and (d, b) in by_key:
            mixed += [(d, n, a, b), (d, n, b, a)]
    if ctx.tier == "quick":
        adjacent = {(d, n, a, b) for (d, n), v in hist.items() for a, b in zip(sorted(v), sorted(v)[1:])}
        core = [x for x in mixed if x[0] != "" or ((x[0], x[1]) in table_ops and ((x[0], x[1], min(x[2:]), max(x[2:])) in adjacent))]
        cs_ = set(core)
        rest = [x for x in mixed if x not in cs_]
        mixed = core + rng.sample(rest, min(150, len(rest)))

    # bodies whose two schemas differ observably come first (the first accepted one per domain is the reported input)
    observable = ["Softmax", "LogSoftmax", "Hardmax", "Squeeze", "Unsqueeze", "Clip", "Pad", "ReduceSum", "TopK", "Slice", "ArgMax"]
    mixed.sort(key=lambda x: (x[0], observable.index(x[1]) if x[1] in observable else len(observable), abs(x[2] - x[3]) > 3))
    S = Scripts(ctx)
    jobs = []                    # (fname, kind, calls [(cn, op)], arrays or None)
    skipped = collections.Counter()
    for cn, op, own in singles:
        pc, arrays, s = call_for(cn, op)
        if pc is None:
            skipped["deprecated / no such operator" if s is None else "not writable as a plain call (graph / tensor / type attribute, or no tensor input)"] += 1
            continue
        jobs.append((S.add([(cn, op, pc)], arrays), "single", [(cn, op)], arrays, own))
    for d, n, k1, k2 in mixed:
        c1, c2 = by_key[(d, k1)], by_key[(d, k2)]
        p1, a1, s1 = call_for(c1, n)
        p2, a2, s2 = call_for(c2, n)
        if p1 is None or p2 is None:
            skipped["mixed: not writable as a plain call"] += 1
            continue
        if a1 is not None and a2 is not None and len(a1) != len(a2):
            # different parameter lists per version (axes attribute vs input): give every call its own parameters
            n1 = p1[0]
            p2 = (p2[0] + n1, [None if a is None else a + n1 for a in p2[1]], p2[2], p2[3])
            arrays = a1 + a2
        else:
            arrays = a1 if a1 is not None and a2 is not None else None
        jobs.append((S.add([(c1, n, p1), (c2, n, p2)], arrays), "mixed", [(c1, n), (c2, n)], arrays, False))
    mod = S.load("tr")

    # ---------------- observe
    trans_cases, trans_meta = [], []
    n_checked = n_nodes = n_refused = n_exec = 0
    bad = 0
    reported = set()
    exec_stats = collections.Counter()
    refusal_msgs = collections.Counter()
    refused_other = {}
    for fname, kind, calls, arrays, own in jobs:
        dom = opsets[calls[0][0]].domain
        src = S.sources[fname]
        err = mod.ERR.get(fname)
        fn = getattr(mod, fname, None)
        versions = sorted({opsets[cn].version for cn, _ in calls})
        ctx.case(("translate", kind, dom, calls[-1][1], err is None))
        if err is not None or fn is None:
            n_refused += 1
            msg = str(err)
            refusal_msgs[type(err).__name__ + ": " + msg.split("\n")[0][:60].split("(")[0]] += 1
            if "Two distinct" in msg:
                # the refusal the model knows: two versions of the standard domain in one function
                trans_cases.append(f"({clist(calls, lambda c: f'({E.cs(c[0])}, {E.cs(c[1])})')}, None)")
                trans_meta.append((calls, None))
                ctx.case(("mixed-refused", dom, calls[0][1]))
            else:
                # refused for a reason outside the model (the operator's signature cannot be built, ...): a refusal never
                # makes opsetN.Op denote another schema; counted, not compared
                refused_other[f"{calls[-1][0]}.{calls[-1][1]}"] = type(err).__name__ + ": " + msg.split("\n")[0][:100]
            continue
        try:
            with warnings.catch_warnings():
                warnings.simplefilter("ignore")
                fp = fn.to_function_proto()
                mp = fn.to_model_proto()
        except Exception as e:  # noqa: BLE001
            bad += 1
            key = f"C17:translation:accepted-script-has-no-proto:{dl(dom)}"
            if key not in reported:
                reported.add(key)
                ctx.violation(key, f"{fname} was accepted by the decorator but to_function_proto / to_model_proto raise {type(e).__name__}: {str(e)[:200]}",
                              {"script": src, "error": repr(e)[:400]})
            continue
        f_imp = {o.domain: o.version for o in fp.opset_import}
        m_imp = {o.domain: o.version for o in mp.opset_import}
        nodes = proto_nodes(fp.node, f_imp, "FunctionProto") + proto_nodes(mp.graph.node, m_imp, "ModelProto")
        for lf in mp.functions:
            nodes += proto_nodes(lf.node, {o.domain: o.version for o in lf.opset_import}, f"ModelProto.functions[{lf.name}]")
        obs_nodes = [(n.domain, n.op_type) for n in fp.node]
        trans_cases.append(f"({clist(calls, lambda c: f'({E.cs(c[0])}, {E.cs(c[1])})')}, Some ({clist(obs_nodes, lambda c: f'({E.cs(c[0])}, {E.cs(c[1])})')}, "
                           f"{clist(sorted(f_imp.items()), lambda kv: f'({E.cs(kv[0])}, {E.cz(kv[1])})')}))")
        trans_meta.append((calls, (obs_nodes, f_imp)))
        # every call must be found, in order, in both protos, and resolve to the schema its method denotes in eager mode
        wrong = []
        for scope in ("FunctionProto", "ModelProto"):
            here = [x for x in nodes if x[0] == scope]
            if [(x[1], x[2]) for x in here] != [(opsets[cn].domain, op) for cn, op in calls]:
                wrong.append({"scope": scope, "what": "nodes are not the calls written", "nodes": [list(x[1:3]) for x in here]})
                continue
            for (cn, op), (_, d, t, v) in zip(calls, here):
                n_nodes += 1
                want = eager_since(cn, op)
                try:
                    got = None if v is None else int(onnx.defs.get_schema(t, v, d).since_version)
                except Exception:  # noqa: BLE001
                    got = None
                if want is None or got != want[2] or (d, t) != want[:2]:
                    wrong.append({"scope": scope, "call": f"{cn}.{op}", "node": [d, t], "import_version": v,
                                  "node_schema_since": got, "method_schema_since": None if want is None else want[2]})
        n_checked += 1
        if kind == "mixed":
            ctx.case(("mixed-accepted", dom, calls[0][1], versions[0] == opsets[calls[0][0]].version))
        ex = None
        if arrays is not None and (wrong or kind == "single"):
            ex = execute(ctx, R, fn, mp, arrays, exec_stats)
            n_exec += ex is not None
        if wrong:
            bad += 1
            key = (f"C17:translation:mixed-opset-versions-accepted:{dl(dom)}" if kind == "mixed"
                   else f"C17:translation:single-opset:{calls[0][0]}.{calls[0][1]}:node-schema-differs-from-method-schema")
            if key not in reported and len(reported) < 10:
                reported.add(key)
                w = wrong[0]
                ctx.violation(key, (f"a function calling {' and '.join(f'{cn}.{op}' for cn, op in calls)} is accepted; the protos import "
                                    f"{f_imp} / {m_imp}: " if kind == "mixed" else f"{calls[0][0]}.{calls[0][1]}: ") +
                              f"{w.get('scope')} node {w.get('node')} under import {w.get('import_version')} resolves to since_version "
                              f"{w.get('node_schema_since')}, the generated method (eager mode) denotes {w.get('method_schema_since')}"
                              + (f"; executed: eager vs onnxruntime on the translated model: {ex}" if ex else ""),
                              {"script": src, "calls": [list(c) for c in calls], "function_imports": f_imp, "model_imports": m_imp,
                               "wrong_nodes": wrong[:6], "execution": ex,
                               "how": "load the script with onnxscript; fp = f.to_function_proto(); resolve each node with "
                                      "onnx.defs.get_schema(op_type, import[domain], domain) and compare since_version with the schema "
                                      "the generated method opsetN.Op hands the evaluator"})
        elif ex is not None and ex.get("status") == "differs":
            bad += 1
            key = f"C17:translation:{calls[0][0]}.{calls[0][1]}:eager-differs-from-translated-model"
            if key not in reported and len(reported) < 10:
                reported.add(key)
                ctx.violation(key, f"{calls[0][0]}.{calls[0][1]}: the script run eagerly differs from its translated model on onnxruntime: {ex}",
                              {"script": src, "execution": ex})
    # ---------------- the translate_body model vs what the converter did
    dis, dis_strict = [], []
    for k in range(0, len(trans_cases), 400):
        body = (f"Definition cases : list trans_case := {clist(trans_cases[k:k + 400])}.\n"
                "Eval vm_compute in (disagreeing (trans_agrees OpsetMethods.classes) 0 cases).\n"
                "Eval vm_compute in (disagreeing (trans_agrees_strict OpsetMethods.classes) 0 cases).")
        ok, vals, raw = _eval(ctx, body, f"trans{k}")
        if not ok or len(vals) != 2:
            ctx.tie_broken("correspondence", "translate_body:model-evaluation", raw[-1000:])
            dis = None
            break
        dis += [k + i for i in common.parse_nat_list(vals[0])]
        dis_strict += [k + i for i in common.parse_nat_list(vals[1])]
    # the converter is either as read (two versions refused for the standard domain only) or repaired (for every domain)
    variant = None if dis is None else ("as-read" if not dis else ("strict" if not dis_strict else None))
    if dis is not None and variant is None and not bad:
        ctx.tie_broken("correspondence", "translate_body", f"neither model (two versions refused for the standard domain only / for every domain; first "
                                                           f"node fixes the import) agrees with the converter: {trans_meta[dis[0]]}")
    n_mixed = sum(1 for j in jobs if j[1] == "mixed")
    ctx.obligation(f"translation: {n_checked} accepted scripts ({sum(1 for j in jobs if j[1] == 'single')} single-opset calls of generated methods, "
                   f"{n_mixed} bodies mixing two versions k1/k2 of a changed operator in both orders, {n_refused} refused): every node of "
                   f"FunctionProto and ModelProto resolves through (domain, op_type, opset import) to the since_version the generated method "
                   f"denotes in eager mode ({n_nodes} nodes); eager = onnxruntime on {n_exec} table scripts",
                   bad == 0 or all(k.startswith("C17:translation:mixed-opset-versions-accepted:ai.onnx.ml") for k in reported))
    if dis is not None:
        ctx.obligation(f"correspondence: translate_body (Registry/OpsetTranslate.v: refusal + imports + nodes; variant {variant}) = the real converter "
                       f"on {len(trans_cases)} bodies", variant is not None)
        ctx.cover(converter_refusal_variant=variant)
    if n_checked < 150 or n_mixed < 50:
        ctx.tie_broken("harness", "translation-degenerate", f"only {n_checked} translated / {n_mixed} mixed bodies")
    ctx.cover(translation=dict(scripts=len(jobs), accepted=n_checked, refused=n_refused, nodes_resolved=n_nodes, executed=n_exec,
                               not_written=dict(skipped), refusals=dict(refusal_msgs.most_common(4)),
                               refused_for_another_reason=dict(sorted(refused_other.items())[:30]), exec_stats=dict(exec_stats)))
    ctx.sample({"translated": {"calls": jobs[0][2], "script": S.sources[jobs[0][0]]}})
    mx = next((j for j in jobs if j[1] == "mixed"), None)
    if mx:
        ctx.sample({"mixed_body": {"calls": mx[2], "refused": mx[0] in mod.ERR, "script": S.sources[mx[0]]}})
    linecache.clearcache()


def execute(ctx, R, fn, mp, arrays, stats):
    """The script run eagerly (every opsetN.Op call = the generated method) vs its translated model on onnxruntime."""
    try:
        with warnings.catch_warnings():
            warnings.simplefilter("ignore")
            eager = R._to_np(fn(*arrays))
    except Exception as e:  # noqa: BLE001
        stats["eager-unavailable"] += 1
        return None
    feeds = {i.name: a for i, a in zip(mp.graph.input, arrays)}
    try:
        got = _ort(mp, feeds)
    except Exception as e:  # noqa: BLE001
        stats["model-does-not-run-where-eager-does"] += 1
        # (onnxruntime has no kernel for this version / does not know the opset yet: a limit of the backend, not a verdict)
        return {"status": "model-unavailable", "why": "the translated model does not load / run on onnxruntime while eager mode computes a result: " + str(e)[:200]}
    # eager mode hands back every output of a multi-output operator, the graph only the targets written
    if R.same(eager[:len(got)], got, exact=False, rtol=1e-5, atol=1e-6):
        stats["equal"] += 1
        return {"status": "equal"}
    stats["differs"] += 1
    d = None
    if len(eager) == len(got) and eager[0] is not None and eager[0].shape == got[0].shape and eager[0].dtype.kind == "f":
        d = float(np.abs(eager[0] - got[0]).max())
    return {"status": "differs", "max_abs_difference": d, "eager": eager[0].tolist() if eager[0] is not None and eager[0].size <= 24 else None,
            "model": got[0].tolist() if got[0].size <= 24 else None}
