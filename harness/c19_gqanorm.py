"""C19: GroupQueryAttention with query / key normalisation (gqa.py, q-norm / k-norm of Qwen3 / Gemma3 style exports).

The source model is the repo's GemmaGQAFusionTest block (rotary embedding, causal mask built from Range / Greater, optional
KV cache) re-parameterised by the sizes AND by the placement of the SimplifiedLayerNormalization of the query and of the key
INDEPENDENTLY: none | before its (B,S,H,Dh)->(B,H,S,Dh) Transpose | after it | both (a near miss the check refuses).
The pattern matches the two placements independently, so the full product is in the property's configuration space.

  * direct oracle: onnxruntime on the source model vs the model after fuse_sdpa + fuse_gqa (or fuse_xformers);
  * correspondence (stream gqan, evaluated in Coq against Fusion/GqaNorm.gqa_rewrite_norms): for each instance the
    normalisation found on the path from `query` / `key` to inputs 0 / 1 of the emitted GroupQueryAttention -- scale operand,
    epsilon, axis, stash_type -- must be the one the source model applies to THAT operand (theorem C19_gqa_rewrite_norms_exact),
    and the rule fires iff neither operand is normalised twice.
"""
from __future__ import annotations

import math

import numpy as np

from harness.c19_build import MS, apply_ir, close, find, ort_run
from harness.common import cbool, clist, cnat, cz

PL = {"none": "PNone", "before": "PBefore", "after": "PAfter", "both": "PBoth"}


def gqa_norm_instance(p):
    """p: S, past (0: no KV cache: the Concat with the past is absent), Dh, H, Hkv, q_place, k_place, eps_q, eps_k.
    Returns (ModelProto with the value_infos the repo's test adds, {input name: shape})."""
    import onnx
    import onnxscript
    from onnxscript import FLOAT, script
    from onnxscript import opset18 as op
    msft_op = onnxscript.values.Opset("com.microsoft", 1)
    S, P, Dh, Hn, Hkvn = p["S"], p["past"], p["Dh"], p["H"], p["Hkv"]
    with_past = P > 0
    eps_q, eps_k = p["eps_q"], p["eps_k"]
    scale_factor = math.sqrt(math.sqrt(Dh))
    minval_tp = onnx.helper.make_tensor("minval", onnx.TensorProto.FLOAT, [1], [float(np.finfo(np.float32).min)])
    H, Hkv, Dhl, G, minus_1, plus_1 = [Hn], [Hkvn], [Dh], [Hn // Hkvn], [-1], [1]
    q_before, q_after = p["q_place"] in ("before", "both"), p["q_place"] in ("after", "both")
    k_before, k_after = p["k_place"] in ("before", "both"), p["k_place"] in ("after", "both")

    @script()
    def gqa(query, key, value, past_key, past_value, cos, sin, query_scale, key_scale):
        B = op.Shape(query, start=0, end=1)
        S_ = op.Shape(query, start=1, end=2)
        past_seq_length = op.Shape(past_key, start=2, end=3)
        total_seq_length = op.Add(past_seq_length, S_)
        shape_BSHDh = op.Concat(B, S_, minus_1, Dhl, axis=0)
        shape_BSHkvDh = op.Concat(B, S_, minus_1, Dhl, axis=0)
        shape_BSD = op.Concat(B, S_, minus_1, axis=0)
        shape_BHkvGSDh = op.Concat(B, Hkv, G, total_seq_length, Dhl, axis=0)
        shape_BHSDh = op.Concat(B, H, total_seq_length, Dhl, axis=0)
        query_BSHDh = op.Reshape(query, shape_BSHDh)
        key_BSHkvDh = op.Reshape(key, shape_BSHkvDh)
        if q_before:
            query_pre = op.SimplifiedLayerNormalization(query_BSHDh, query_scale, axis=-1, epsilon=eps_q, stash_type=1)
        else:
            query_pre = query_BSHDh
        query_t = op.Transpose(query_pre, perm=[0, 2, 1, 3])
        if q_after:
            query_rot_in = op.SimplifiedLayerNormalization(query_t, query_scale, axis=-1, epsilon=eps_q, stash_type=1)
        else:
            query_rot_in = query_t
        if k_before:
            key_pre = op.SimplifiedLayerNormalization(key_BSHkvDh, key_scale, axis=-1, epsilon=eps_k, stash_type=1)
        else:
            key_pre = key_BSHkvDh
        key_t = op.Transpose(key_pre, perm=[0, 2, 1, 3])
        if k_after:
            key_rot_in = op.SimplifiedLayerNormalization(key_t, key_scale, axis=-1, epsilon=eps_k, stash_type=1)
        else:
            key_rot_in = key_t
        value_BSHkvDh = op.Reshape(value, shape_BSHkvDh)
        value_BHkvSDh = op.Transpose(value_BSHkvDh, perm=[0, 2, 1, 3])
        position_ids_1d = op.Range(past_seq_length, total_seq_length, 1)
        position_ids_q = op.Unsqueeze(position_ids_1d, [0])
        position_ids_k = op.Unsqueeze(position_ids_1d, [0])
        query_BHSDh_rope = msft_op.RotaryEmbedding(query_rot_in, position_ids_q, cos, sin)
        key_BHkvSDh_rope = msft_op.RotaryEmbedding(key_rot_in, position_ids_k, cos, sin)
        if with_past:
            key_seq_BHkvSkvDh = op.Concat(past_key, key_BHkvSDh_rope, axis=-2)
            value_seq_BHkvSkvDh = op.Concat(past_value, value_BHkvSDh, axis=-2)
        else:
            key_seq_BHkvSkvDh = key_BHkvSDh_rope
            value_seq_BHkvSkvDh = value_BHkvSDh
        key_BHkv1SDh = op.Unsqueeze(key_seq_BHkvSkvDh, [2])
        key_BHkvGSDh = op.Expand(key_BHkv1SDh, shape_BHkvGSDh)
        key_BHSDh = op.Reshape(key_BHkvGSDh, shape_BHSDh)
        value_BHkv1SDh = op.Unsqueeze(value_seq_BHkvSkvDh, [2])
        value_BHkvGSDh = op.Expand(value_BHkv1SDh, shape_BHkvGSDh)
        value_BHSDh = op.Reshape(value_BHkvGSDh, shape_BHSDh)
        # causal mask, as the Phi / Gemma modelling code builds it
        seq_len = op.Shape(query, end=2, start=1)
        seq_len_0D = op.Squeeze(seq_len)
        past_seq_len_0D = op.Squeeze(past_seq_length)
        total_seq_len_0D = op.Add(past_seq_len_0D, seq_len_0D)
        total_seq_len = op.Reshape(total_seq_len_0D, [-1])
        total_seq_len_plus_1_0D = op.Add(total_seq_len_0D, 1)
        total_seq_len_plus_1 = op.Reshape(total_seq_len_plus_1_0D, [-1])
        current_range = op.Range(past_seq_len_0D, total_seq_len_0D, 1)
        mask_shape = op.Concat(seq_len, total_seq_len_plus_1, axis=0)
        min_val = op.Constant(value=minval_tp)
        mask_all_min = op.Expand(min_val, mask_shape)
        total_range_as_row = op.Range(0, total_seq_len_plus_1_0D, 1)
        current_range_as_column = op.Reshape(current_range, [-1, 1])
        boolean_mask = op.Greater(total_range_as_row, current_range_as_column)
        float_0_1_mask = op.Cast(boolean_mask, to=1)
        float_0_min_mask = op.Mul(mask_all_min, float_0_1_mask)
        mask_4d = op.Unsqueeze(float_0_min_mask, [0, 1])
        shape_B111 = op.Concat(B, plus_1, plus_1, plus_1, axis=0)
        mask_B1ST_plus = op.Expand(mask_4d, shape_B111)
        mask_B1ST = op.Slice(mask_B1ST_plus, [0], total_seq_len, [3], [1])
        key_transposed = op.Transpose(key_BHSDh, perm=[0, 1, 3, 2])
        divisor = op.Constant(value_float=scale_factor)
        scaled_query = op.Div(query_BHSDh_rope, divisor)
        scaled_key = op.Div(key_transposed, divisor)
        attn_score = op.MatMul(scaled_query, scaled_key)
        masked_attn_score = op.Add(attn_score, mask_B1ST)
        attn_weight = op.Softmax(masked_attn_score, axis=-1)
        attention_BHSDh = op.MatMul(attn_weight, value_BHSDh)
        attention_BSHDh = op.Transpose(attention_BHSDh, perm=[0, 2, 1, 3])
        attention_BSD = op.Reshape(attention_BSHDh, shape_BSD)
        return attention_BSD, key_seq_BHkvSkvDh, value_seq_BHkvSkvDh

    D, Dkv, T = Dh * Hn, Dh * Hkvn, S + P
    it = (FLOAT["B", "S", D], FLOAT["B", "S", Dkv], FLOAT["B", "S", Dkv], FLOAT["B", Hkvn, "P", Dh], FLOAT["B", Hkvn, "P", Dh],
          FLOAT["max_seqlen", Dh // 2], FLOAT["max_seqlen", Dh // 2], FLOAT["Dh"], FLOAT["Dh"])
    ot = (FLOAT["B", "S", D], FLOAT["B", Hkvn, "T", Dh], FLOAT["B", Hkvn, "T", Dh])
    m = gqa.to_model_proto(input_types=it, output_types=ot)
    vi = onnx.helper.make_tensor_value_info
    F = onnx.TensorProto.FLOAT
    m.graph.value_info.extend([
        vi("query_BHSDh_rope", F, ["B", Hn, S, Dh]), vi("key_BHkvSDh_rope", F, ["B", Hkvn, S, Dh]),
        vi("query_BSHDh", F, ["B", S, Hn, Dh]), vi("key_BHSDh", F, ["B", Hn, T, Dh]), vi("key_BSHkvDh", F, ["B", S, Hkvn, Dh]),
        vi("key_transposed", F, ["B", Hn, Dh, T]), vi("value_BHSDh", F, ["B", Hn, T, Dh])])
    spec = {"query": (1, S, D), "key": (1, S, Dkv), "value": (1, S, Dkv), "past_key": (1, Hkvn, P, Dh), "past_value": (1, Hkvn, P, Dh),
            "cos": (T, Dh // 2), "sin": (T, Dh // 2), "query_scale": (Dh,), "key_scale": (Dh,)}
    if p.get("position_ids") is not None:
        # position_ids as a graph input (what ORT GenAI models have) instead of Range(past, past + S) computed in the model
        for n in [n for n in m.graph.node if n.op_type == "Unsqueeze" and n.output[0] in ("position_ids_q", "position_ids_k")]:
            m.graph.node.remove(n)
        for n in m.graph.node:
            for j, x in enumerate(n.input):
                if x in ("position_ids_q", "position_ids_k"):
                    n.input[j] = "position_ids"
        m.graph.input.append(onnx.helper.make_tensor_value_info("position_ids", onnx.TensorProto.INT64, ["B", "S"]))
    return m, spec


def eps_bits(e):
    return int(np.float32(e).view(np.int32))


def cdesc(d):
    return "None" if d is None else f"(Some (mk_norm {cz(d[0])} {cz(d[1])} {cz(d[2])} {cz(d[3])}))"


def norm_on_path(m2, value_name, source_input):
    """Walk from `value_name` (an input of the fused node) back along first inputs to the graph input `source_input`.
    Returns (ok, descriptor or None): the single SimplifiedLayerNormalization on the way (None: the graph input itself)."""
    inputs = [i.name for i in m2.graph.input]
    prod = {o: n for n in m2.graph.node for o in n.output}
    path, cur = [], value_name
    while cur in prod:
        n = prod[cur]
        path.append(n)
        cur = n.input[0]
    kinds = [n.op_type for n in path]
    if cur != source_input:
        return False, f"path from {value_name} ends at {cur}: {kinds}"
    if not kinds:
        return True, None
    if kinds != ["Reshape", "SimplifiedLayerNormalization", "Reshape"]:
        return False, f"unexpected operand path {kinds}"
    sln = path[1]
    a = {x.name: x for x in sln.attribute}
    scale = sln.input[1]
    desc = (inputs.index(scale) if scale in inputs else -1,
            eps_bits(a["epsilon"].f) if "epsilon" in a else -999,
            a["axis"].i if "axis" in a else -999, a["stash_type"].i if "stash_type" in a else -999)
    return True, desc


def fam_gqa_norm(st):
    import onnxscript.optimizer
    from onnx_ir.passes.common import ShapeInferencePass
    from onnxscript.rewriter.ort_fusions._core import fuse_xformers
    from onnxscript.rewriter.ort_fusions.gqa import fuse_gqa
    from onnxscript.rewriter.ort_fusions.sdpa import fuse_sdpa
    from onnxscript.rewriter.ort_fusions.sdpa_via_mha import replace_sdpa_by_mha
    ctx, rng = st.ctx, st.ctx.rng
    fam = "gqa_qk_norm"

    def rules(m):
        ShapeInferencePass()(m)
        onnxscript.optimizer.optimize(m)
        c = {"sdpa": fuse_sdpa(m), "gqa": fuse_gqa(m)}
        replace_sdpa_by_mha(m)        # an SDPA node that no fusion consumed is lowered, as fuse_xformers does
        return c

    def fx(m):
        return {k: v for k, v in fuse_xformers(m)[1].items() if v}
    # the full product of placements, with and without past, on every run; sizes drawn per instance
    insts = [dict(q_place=q, k_place=k, with_past=wp) for wp in (True, False) for q in ("none", "before", "after") for k in ("none", "before", "after")]
    insts += [dict(q_place="both", k_place="before", with_past=True), dict(q_place="after", k_place="both", with_past=False)]
    if ctx.tier == "thorough":
        insts = [dict(d) for d in insts * 3]
    # position_ids as a graph input: consecutive from the past length (must agree) / not (finding class: the rule never looks at it)
    insts += [dict(q_place="after", k_place="before", with_past=True, pos="consecutive"),
              dict(q_place="none", k_place="none", with_past=True, pos="from-zero"),
              dict(q_place="before", k_place="none", with_past=True, pos="permuted")]
    eps_choices = [1e-6, 1e-5, 1e-3]
    fired_n = mixed_fired = 0
    for i, p in enumerate(insts):
        Hkv = rng.choice([1, 2, 3])
        eq_ = rng.choice(eps_choices)
        p.update(S=rng.randrange(1, 6), past=rng.randrange(1, 8) if p.pop("with_past") else 0, Dh=rng.choice([16, 16, 32]),
                 H=Hkv * rng.choice([1, 2, 2, 4]), Hkv=Hkv, eps_q=eq_, eps_k=rng.choice([e for e in eps_choices if e != eq_]))
        near = "normalized-twice" if "both" in (p["q_place"], p["k_place"]) else None
        pos_kind = p.pop("pos", None)
        finding = None
        if pos_kind is not None:
            p["S"] = max(p["S"], 2)
            rows = {"consecutive": list(range(p["past"], p["past"] + p["S"])), "from-zero": list(range(p["S"])),
                    "permuted": list(range(p["past"] + 1, p["past"] + p["S"])) + [p["past"]]}
            p["position_ids"] = rows[pos_kind]
            if pos_kind != "consecutive":
                finding = "C19:gqa:position-ids-not-consecutive"
        st.stat(fam, "instances")
        st.by_dtype.setdefault(fam, {}).setdefault("float32", [0, 0])[0] += 1
        ctx.case((fam, p["q_place"], p["k_place"], p["past"] > 0, p["Dh"], p["H"] // p["Hkv"], p["S"] == 1))
        try:
            m, spec = gqa_norm_instance(p)
            feeds = []
            for _ in range(2):
                f = {k: st.np_rng.random(sh).astype(np.float32) for k, sh in spec.items()}
                # clearly different, non-trivial weights: a dropped or swapped normalisation is far outside the tolerance
                f["query_scale"] = (0.5 + f["query_scale"]).astype(np.float32)
                f["key_scale"] = (2.0 + 3.0 * f["key_scale"]).astype(np.float32)
                if p.get("position_ids") is not None:
                    f["position_ids"] = np.array([p["position_ids"]], np.int64)
                feeds.append(f)
            before = [ort_run(m, f) for f in feeds]
        except Exception as e:
            st.stat(fam, "invalid_instance")
            ctx.tie_broken("harness", f"{fam}:instance", f"{p}: source model does not build / run: {str(e)[:200]}")
            continue
        which = ("rules", rules) if i % 3 != 2 else ("fuse_xformers", fx)
        replay = {"family": fam, "params": p, "via": which[0]}
        try:
            m2, cnt = apply_ir(m, which[1])
        except Exception as e:
            ctx.violation(f"C19:{fam}:raises:{type(e).__name__}", f"{which[0]} raised {e!r} on {p}", replay)
            continue
        gq = find(m2, "GroupQueryAttention", MS)
        fired = bool(gq)
        st.stat(fam, "fired" if fired else "not_fired")
        if fired:
            st.by_dtype[fam]["float32"][1] += 1
        bad = None
        try:
            for f, b in zip(feeds, before):
                ok, why = close(b, ort_run(m2, f), slack=10.0)        # gqa_test.py itself uses rtol = atol = 1e-3
                if not ok:
                    bad = why
                    break
        except Exception as e:
            bad = f"rewritten model fails in onnxruntime: {str(e)[:220]}"
        if bad:
            if finding:
                st.stat(fam, "finding_class")
            ctx.violation(finding or f"C19:{fam}:outputs-differ", f"{p} via {which[0]} (fusions {cnt}): {bad}", replay)
        if p.get("position_ids") is not None and fired:
            # decision of C19_gqa_positions_ok_iff against what onnxruntime shows
            st.add_case("gqan", f"CPos {clist(p['position_ids'], cnat)} {cnat(p['S'])} {cnat(p['past'])} {cbool(not bad)}", (fam, p, which[0], bad))
        obs_q = obs_k = None
        if fired:
            ins = gq[0][3]
            okq, obs_q = norm_on_path(m2, ins[0], "query")
            okk, obs_k = norm_on_path(m2, ins[1], "key")
            a = gq[0][2]
            structural = []
            if not okq:
                structural.append(f"query operand: {obs_q}")
            if not okk:
                structural.append(f"key operand: {obs_k}")
            if a.get("num_heads") != p["H"] or a.get("kv_num_heads") != p["Hkv"] or a.get("do_rotary") != 1:
                structural.append(f"attributes {a}")
            want_past = ["past_key", "past_value"] if p["past"] > 0 else ["", ""]
            if ins[2] != "value" or ins[3:5] != want_past or ins[7:9] != ["cos", "sin"]:
                structural.append(f"inputs {ins}")
            if structural:
                if not bad:
                    ctx.tie_broken("correspondence", f"{fam}:rewrite", f"{p}: {'; '.join(structural)}")
                continue
            fired_n += near is None
            mixed_fired += {p["q_place"], p["k_place"]} == {"before", "after"}
        nq = (7, eps_bits(p["eps_q"]), -1, 1)
        nk = (8, eps_bits(p["eps_k"]), -1, 1)
        st.add_case("gqan", f"CNorm (mk_gqa_norm_case {PL[p['q_place']]} {PL[p['k_place']]} {cdesc(nq)[6:-1]} {cdesc(nk)[6:-1]} {cbool(fired)} {cdesc(obs_q)} {cdesc(obs_k)})",
                    (fam, p, which[0], obs_q, obs_k))
        if i < 2:
            ctx.sample({"family": fam, "instance": p, "fired": fired, "query_norm_emitted": obs_q, "key_norm_emitted": obs_k})
    ctx.cover(gqa_qk_norm_fired=fired_n, gqa_qk_norm_mixed_placement_fired=mixed_fired)
    if fired_n < 12 or mixed_fired < 2:
        ctx.tie_broken("harness", f"generator-degenerate:{fam}", f"GroupQueryAttention with q/k normalisation fused on {fired_n} instances, mixed placements on {mixed_fired}")
