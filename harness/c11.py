"""C11 -- tensor indexing and slicing mean what they mean in NumPy (DESIGN.md section 5, C11).

Model: coq/Index/{NumpySpec,OnnxSlice,ConverterIdx,EagerIdx}.v; theorems: coq/Props/C11.v.
Tie (correspondence, re-run on every check): script functions `return X[idx]` are generated, converted
and run on onnxruntime (graph), called eagerly, and evaluated by NumPy; for every case Coq compares
  * NumPy's result with NumpySpec.np_index                       (the specification side is NumPy),
  * the graph's result with run_conv (ConverterIdx + OnnxSlice)   (converter + ONNX op semantics),
  * the ops the converter emitted, with the runtime values of their index operands, with conv_ops,
  * eager's result with run_eager and the op calls eager mode made with eager_ops.
Direct oracle: graph == eager == NumPy, or an error.
"""
from __future__ import annotations

import itertools
import os
import shutil
import tempfile

import numpy as np

from harness import c11_impl as impl
from harness import common
from harness.common import clist, cz

PROPERTY = "C11"
LEVEL = "proof"
REQ = ["OV.Index.NumpySpec", "OV.Index.OnnxSlice", "OV.Index.ConverterIdx", "OV.Index.EagerIdx", "OV.Index.Corr",
       "OV.Index.AdvSpec", "OV.Index.AdvCorr", "OV.Index.EagerFix", "OV.Index.DynForms"]


# ----------------------------------------------------------------------------- Coq literals

def c_bound(b):
    if b is None:
        return "BNone"
    if impl.is_dyn(b):
        return f"(BDyn {cz(b[1])})"
    return f"(BConst {cz(b)})"


def c_comp(c):
    k = c[0]
    if k == "int":
        return f"(CInt {cz(c[1])})"
    if k == "slice":
        return f"(CSlice {c_bound(c[1])} {c_bound(c[2])} {c_bound(c[3])})"
    if k == "t0":
        return f"(CT0 {cz(c[1])})"
    if k == "t1":
        return f"(CT1 {clist(c[1], cz)})"
    raise ValueError(c)


def c_outcome(o):
    if o is None:
        return "None"
    if o[0] == "err":
        return "(Some OErr)"
    a = o[1]
    return f"(Some (OOk {clist(a.shape, cz)} {clist(a.reshape(-1).tolist(), cz)}))"


def c_nat(n):
    n = int(n)
    if n < 0 or n > 64:
        raise ValueError(f"axis {n}")
    return f"{n}%nat"


def c_op(o):
    if o[0] == "Identity":
        return "OIdentity"
    if o[0] == "Slice":
        return "(OSlice " + clist([f"({cz(s)}, {cz(e)}, {c_nat(a)}, {cz(st)})" for s, e, a, st in o[1]]) + ")"
    if o[0] == "Squeeze":
        return "(OSqueeze " + clist(o[1], c_nat) + ")"
    if o[0] == "Gather":
        ix = o[2]
        if isinstance(ix, list):
            if any(isinstance(x, list) for x in ix):
                raise ValueError("Gather index of rank > 1")
            g = f"(G1 {clist(ix, cz)})"
        else:
            g = f"(G0 {cz(ix)})"
        return f"(OGather {c_nat(o[1])} {g})"
    raise ValueError(f"op {o[0]} has no model")


def c_case(shape, idx, o_np, o_graph, o_eager, skel, eskel):
    sk = "None" if skel is None else ("(Some None)" if skel == "refused" else f"(Some (Some {clist(skel, c_op)}))")
    es = "None" if eskel is None else f"(Some {clist(eskel, c_op)})"
    return (f"(mkcase {clist(shape, cz)} {clist(idx, c_comp)} {c_outcome(o_np)} {c_outcome(o_graph)} "
            f"{c_outcome(o_eager)} {sk} {es})")


# ----------------------------------------------------------------------------- structural classes (keys)

def _neg_start_hazard(shape, idx):
    """slice with negative step whose start lies below -d while the stop is omitted or below -d: ONNX Slice
    clamps the start to 0 and yields element 0, Python yields nothing."""
    for d, c in zip(shape, idx):
        if c[0] != "slice":
            continue
        a, b, s = (x[1] if impl.is_dyn(x) else x for x in c[1:4])
        if s is not None and s < 0 and d >= 1 and a is not None and a < -d and (b is None or b < -d):
            return True
    return False


def _removed_before_gather(front, idx):
    """an axis removed (constant int in the Slice path / rank-0 tensor) in front of a later Gather"""
    kinds = [c[0] for c in idx]
    if front == "eager":
        removed = [k for k, x in enumerate(kinds) if x in ("int", "t0")]
        gath = [k for k, x in enumerate(kinds) if x == "t1"]
        return any(r < g for r in removed for g in gath)
    # converter: Gathers are applied in the order tensor-valued (by axis), then the lone constant int
    nsl = sum(1 for c in idx if c[0] == "slice" and c[1:4] != (None, None, None))
    ints = [k for k, x in enumerate(kinds) if x == "int"]
    tens = [(k, x) for k, x in enumerate(kinds) if x in ("t0", "t1")]
    if nsl or len(ints) > 1:
        return any(r < g for r in ints for g, _ in tens) or \
            any(r < g for r, x in tens if x == "t0" for g, _ in tens)
    order = tens + [(k, "int") for k in ints]
    return any(order[i][1] in ("t0", "int") and order[i][0] < order[j][0]
               for i in range(len(order)) for j in range(i + 1, len(order)))


def np_modelled(idx):
    """python twin of NumpySpec.np_modelled (used for the class key only)"""
    n1 = sum(1 for c in idx if c[0] == "t1")
    if n1 == 0:
        return True
    if n1 > 1:
        return False
    adv = [c[0] != "slice" for c in idx]
    first, last = adv.index(True), len(adv) - 1 - adv[::-1].index(True)
    contiguous = all(adv[first:last + 1])
    t1_pos = [c[0] for c in idx].index("t1")
    return contiguous or not any(c[0] == "slice" for c in idx[:t1_pos])


def classify(front, shape, idx, fixed=False):
    """Structural class of an expression on which a front end returned a tensor different from NumPy's.
    fixed: the front end numbers the Gather axes as in the proposed fix, so that class cannot occur."""
    n1 = sum(1 for c in idx if c[0] == "t1")
    if n1 >= 2:                     # (first: such a tuple differs from NumPy whether or not it also contains the slice corner)
        return "two-1d-tensor-indices"
    split = n1 == 1 and any(c[0] in ("int", "t0") for c in idx) and not np_modelled(idx)
    if fixed and split:
        return "scalar-and-1d-tensor-index-split-by-slice"
    if _neg_start_hazard(shape, idx):
        return "negative-step-start-below-minus-dim"
    if not fixed and _removed_before_gather(front, idx):
        return "gather-axis-after-removed-axis"
    if split:
        return "scalar-and-1d-tensor-index-split-by-slice"
    return "unclassified:" + ",".join(c[0] for c in idx)


# ----------------------------------------------------------------------------- evaluation of a batch of cases

class Runner:
    """Converts forms on demand (batched per module file) and evaluates cases."""

    def __init__(self, ctx):
        self.ctx = ctx
        self.tmp = tempfile.mkdtemp(prefix="c11-")
        self.forms = {}          # form -> (fn | None, Graph | None, refusal text | None)

    def close(self):
        shutil.rmtree(self.tmp, ignore_errors=True)

    def prepare(self, idxs, batch=50):
        todo = {}
        for idx in idxs:
            f = impl.form_of(idx)
            if f not in self.forms and f not in todo:
                src, vals = impl.expr_source(idx)
                todo[f] = (src, len(vals))
        keys = list(todo)
        for i in range(0, len(keys), batch):
            chunk = keys[i:i + batch]
            loaded = impl.load_forms([todo[f] for f in chunk], self.tmp)
            for f, (fn, err) in zip(chunk, loaded):
                self.forms[f] = (fn, impl.Graph(fn) if fn is not None else None, err)

    def evaluate(self, shape, idx, c_op=None):
        """-> dict with the three outcomes and the two skeletons"""
        c_op = c_op or globals()["c_op"]
        from onnxscript import tensor as ostensor
        X = np.arange(int(np.prod(shape)), dtype=np.int64).reshape(shape)
        src, vals = impl.expr_source(idx)
        fn, g, refusal = self.forms[impl.form_of(idx)]
        r = {"src": src, "vals": [v.tolist() for v in vals]}
        r["np"] = impl.numpy_run(src, X, vals)
        if fn is None:
            r["graph"] = ("err", "refused: " + refusal)
            r["skel"] = "refused"
            r["refused"] = refusal
            # the eager twin is still exercised, directly through Tensor.__getitem__
            r["eager"], r["eskel"] = impl.eager_getitem(X, idx)
            r["eager_user"] = ("err", "refused: " + refusal)
        else:
            r["graph"] = g.run(X, vals)
            r["skel"] = None
            if g.proto is not None:
                try:
                    r["skel"] = g.skeleton(vals)
                    clist(r["skel"], c_op)          # every op / operand must be expressible in the model's vocabulary
                except ValueError as e:             # a graph of a shape the model does not know: a disagreement, not a crash
                    r["skel"] = None
                    r["skel_error"] = f"emitted graph outside the model's vocabulary: {e}"
            r["eager"], r["eskel"] = impl.eager_run(fn, X, vals)
            r["eager_user"] = r["eager"]
        try:
            clist(r["eskel"], c_op)
        except ValueError as e:
            r["eskel_error"] = f"eager op calls outside the model's vocabulary: {e} ({r['eskel']!r})"
            r["eskel"] = None
        return r


def same(a, b):
    return a[0] == "ok" and b[0] == "ok" and a[1].shape == b[1].shape and a[1].dtype == b[1].dtype \
        and np.array_equal(a[1], b[1])


def kinds_of(idx):
    out = []
    for c in idx:
        if c[0] == "slice":
            a, b, s = c[1:4]
            dyn = any(impl.is_dyn(x) for x in (a, b, s))
            sv = s[1] if impl.is_dyn(s) else s
            out.append("slice" + ("" if (a, b, s) != (None, None, None) else ":") + ("-" if sv is not None and sv < 0 else "")
                       + ("~" if dyn else ""))
        else:
            out.append(c[0] + ("-" if c[0] in ("int", "t0") and c[1] < 0 else ""))
    return tuple(out)


def process(ctx, runner, cases, stream, state):
    """Evaluate `cases` = [(shape, idx)], apply the direct oracle, and compare with the Coq models."""
    runner.prepare([idx for _, idx in cases])
    lits, metas = [], []
    state["streams"][stream] = state["streams"].get(stream, 0) + len(cases)
    for shape, idx in cases:
        r = runner.evaluate(shape, idx)
        ctx.case((stream, len(shape), kinds_of(idx)))
        state["n"] += 1
        o_np = r["np"]
        for front, o in (("converter", r["graph"]), ("eager", r["eager_user"])):
            state["outcomes"][(front, "ok" if o[0] == "ok" else "error", "np-ok" if o_np[0] == "ok" else "np-error")] += 1
            if o[0] != "ok":
                continue
            if o_np[0] == "ok" and same(o, o_np):
                continue
            # the front end returned a tensor and it is not NumPy's result: reported after the models ran
            state["diffs"].append((front, stream, len(metas), shape, idx, r, o))
        if stream == "documented":
            for front, o in (("converter", r["graph"]), ("eager", r["eager_user"])):
                if o[0] != "ok" and o_np[0] == "ok":
                    ctx.violation(f"C11:{front}:documented-form-fails:X[{r['src']}]",
                                  f"{front}: the documented form X[{r['src']}] fails on shape {tuple(shape)}: {o[1][:200]}",
                                  {"front": front, "shape": list(shape), "idx": [list(c) for c in idx], "source": f"X[{r['src']}]",
                                   "tensor_values": r["vals"], "error": o[1]})
        skel = r["skel"]
        graph_o = r["graph"]
        if r.get("refused") and all(c[0] == "slice" and tuple(c[1:4]) == (None, None, None) for c in idx):
            # X[:] / X[:, :]: the Identity edge case of the converter currently dies with an AttributeError
            # (an error is allowed); the model says Identity. Not compared, counted.
            state["identity_refused"] += 1
            skel, graph_o = None, None
        lits.append(c_case(shape, idx, o_np, graph_o, r["eager"], skel, r["eskel"]))
        metas.append((shape, idx, r))
        if "skel_error" in r:
            state["skel_errors"].append((stream, (shape, idx, r)))
        if "eskel_error" in r:
            state["eskel_errors"].append((stream, (shape, idx, r)))
        if state["n"] % 97 == 1:
            ctx.sample({"stream": stream, "shape": list(shape), "expr": f"X[{r['src']}]", "tensor_values": r["vals"],
                        "numpy": o_np[1].tolist() if o_np[0] == "ok" else "error",
                        "graph": r["graph"][1].tolist() if r["graph"][0] == "ok" else "error",
                        "eager": r["eager"][1].tolist() if r["eager"][0] == "ok" else "error",
                        "emitted": repr(r["skel"])})
    state["pending"].append((stream, lits, metas))


EVALS = ["np_agrees", "graph_agrees false", "graph_agrees true", "skel_agrees false", "skel_agrees true",
         "eager_agrees false", "eager_agrees true", "eskel_agrees false", "eskel_agrees true",
         "eager_agrees_c true", "eskel_agrees_c true", "graph_agrees_ns", "skel_agrees_ns"]
# code variants per front end, in the order they are tried: name -> (result check, op check)
VARIANTS = {"converter": [("pinned", "graph_agrees false", "skel_agrees false"), ("gather-axis-fix", "graph_agrees true", "skel_agrees true"),
                          ("gather-axis-fix+negative-step-two-slices", "graph_agrees_ns", "skel_agrees_ns")],
            "eager": [("pinned", "eager_agrees false", "eskel_agrees false"), ("gather-axis-fix", "eager_agrees true", "eskel_agrees true"),
                      ("gather-axis-fix+negative-start-clamp", "eager_agrees_c true", "eskel_agrees_c true")]}


def _coq_shards(ctx, bodies, par=8, timeout=900, req=None):
    """Like ctx.coq_eval_shards (whose temp-file naming rewrites '-' in the scratch *directory* name and then fails
    to open the file); files are named by shard number inside ctx.cases_dir."""
    from concurrent.futures import ThreadPoolExecutor
    hdr = "From Coq Require Import List ZArith String Bool.\nImport ListNotations.\n"
    hdr += "".join(f"Require Import {r}.\n" for r in (req or REQ))
    hdr += "Set Printing Width 1000000.\nSet Printing Depth 1000000.\n"
    base = getattr(ctx, "_c11_shard", 0)
    ctx._c11_shard = base + len(bodies)

    def one(k_body):
        k, body = k_body
        fn = os.path.join(ctx.cases_dir, f"c11_shard_{base + k}.v")
        with open(fn, "w") as f:
            f.write(hdr + body + "\n")
        rc, out = common.coqc_file(fn, timeout=timeout, cwd=ctx.cases_dir)
        return rc == 0, common.parse_evals(out), out

    with ThreadPoolExecutor(max_workers=par) as ex:
        return list(ex.map(one, enumerate(bodies)))


def coq_compare(ctx, state, shard=400):
    """Run the models in Coq over everything pending; decide which variant (pinned / proposed fix) the code is."""
    bodies, index = [], []
    for stream, lits, metas in state["pending"]:
        for i in range(0, len(lits), shard):
            body = f"Definition cases : list case := {clist(lits[i:i + shard])}.\n"
            body += "".join(f"Eval vm_compute in (failing ({e}) 0 cases).\n" for e in EVALS)
            bodies.append(body)
            index.append((stream, metas[i:i + shard]))
    res = _coq_shards(ctx, bodies)
    bad = {e: [] for e in EVALS}
    for (stream, metas), (ok, vals, raw) in zip(index, res):
        if not ok or len(vals) != len(EVALS):
            ctx.tie_broken("correspondence", f"{stream}:model-evaluation", raw[-1500:])
            continue
        for e, v in zip(EVALS, vals):
            for i in common.parse_nat_list(v):
                bad[e].append((stream, metas[i]))
    state["pending"] = []
    for e in EVALS:                          # graphs / op calls the model cannot even express disagree with every variant
        if e.startswith("skel_agrees"):
            bad[e] = state["skel_errors"] + bad[e]
        if e.startswith("eskel_agrees"):
            bad[e] = state["eskel_errors"] + bad[e]
    return bad


def report(ctx, bad, n_cases):
    def show(item):
        stream, (shape, idx, r) = item
        return (f"[{stream}] X[{r['src']}] shape {tuple(shape)} tensors {r['vals']}: numpy "
                f"{r['np'][1].tolist() if r['np'][0] == 'ok' else 'error'}, graph "
                f"{r['graph'][1].tolist() if r['graph'][0] == 'ok' else r['graph'][1][:80]}, eager "
                f"{r['eager'][1].tolist() if r['eager'][0] == 'ok' else r['eager'][1][:80]}, emitted {r['skel']!r}, "
                f"eager calls {r['eskel']!r}" + (" -- " + r["skel_error"] if "skel_error" in r else "")
                + (" -- " + r["eskel_error"] if "eskel_error" in r else ""))

    b = bad["np_agrees"]
    ctx.obligation(f"correspondence NumPy = NumpySpec.np_index on {n_cases} cases", not b, show(b[0]) if b else "")
    if b:
        ctx.tie_broken("correspondence", "numpy-spec", show(b[0]))
    variants = {}
    for front in ("converter", "eager"):
        chosen = None
        for name, o_key, s_key in VARIANTS[front]:
            if not bad[o_key] and not bad[s_key]:
                chosen = name
                break
        variants[front] = chosen or "neither"
        what = ("graph result on onnxruntime = run_conv and emitted Slice/Squeeze/Gather operands = conv_ops"
                if front == "converter" else "eager result = run_eager and eager op calls = eager_ops")
        _n, o0, s0 = VARIANTS[front][0]
        ctx.obligation(f"correspondence {front}: {what} on {n_cases} cases (variant {variants[front]})", chosen is not None,
                       "" if chosen else show((bad[o0] + bad[s0])[0]))
        if chosen is None:
            # smallest disagreeing case of the variant with the fewest disagreements
            _n, o1, s1 = min(VARIANTS[front], key=lambda t: len(bad[t[1]]) + len(bad[t[2]]))
            items = bad[o1] + bad[s1]
            items.sort(key=lambda it: (len(it[1][1]), len(it[1][0]), str(it[1][1])))
            ctx.tie_broken("correspondence", front, f"{len(items)} disagreeing cases (closest variant {_n}); smallest: " + show(items[0]))
    return variants


# ----------------------------------------------------------------------------- generators

STEPS = [None, 1, 2, -1, -2]


def bounds_for(d):
    return [None] + list(range(-d - 1, d + 2))


def gen_axis_exhaustive(rank_pos=((1, 0),), dims=(1, 2, 3, 4)):
    """Every slice of the property's quantifier on one axis: start/stop in {None, -d-1..d+1}, step in STEPS;
    every int in [-d-1, d] (one past both ends), as a literal and as a rank-0 tensor.  (rank, axis position):
    the other axes get ':' in front and nothing behind."""
    for rank, pos in rank_pos:
        for d in dims:
            shape = tuple([2] * pos + [d] + [3] * (rank - pos - 1))
            pre = [("slice", None, None, None)] * pos
            for a, b, s in itertools.product(bounds_for(d), bounds_for(d), STEPS):
                yield shape, tuple(pre + [("slice", a, b, s)])
            for i in range(-d - 1, d + 1):
                yield shape, tuple(pre + [("int", i)])
                yield shape, tuple(pre + [("t0", i)])


def rand_index(rng, d):
    return rng.randint(-d, d - 1) if d > 0 else rng.choice([-1, 0])


def rand_comp(rng, d):
    r = rng.random()
    if r < 0.22:
        return ("int", rand_index(rng, d))
    if r < 0.30:
        return ("slice", None, None, None)
    if r < 0.66:
        return ("slice", rng.choice(bounds_for(d)), rng.choice(bounds_for(d)), rng.choice(STEPS))
    if r < 0.72:
        def b():
            v = rng.choice(bounds_for(d))
            return v if v is None or rng.random() < 0.4 else ("t", v)
        s = rng.choice(STEPS)
        if s is not None and rng.random() < 0.3:
            s = ("t", s)
        return ("slice", b(), b(), s)
    if r < 0.86:
        return ("t0", rand_index(rng, d))
    return ("t1", [rand_index(rng, d) for _ in range(rng.randint(1, 3))])


def gen_random(rng, n, max_rank=3, dims=(1, 2, 3, 4)):
    for _ in range(n):
        rank = rng.randint(1, max_rank)
        shape = tuple(rng.choice(dims) for _ in range(rank))
        k = rng.randint(1, rank)
        idx = tuple(rand_comp(rng, shape[j]) for j in range(k))
        if all(c == ("slice", None, None, None) for c in idx) and rng.random() < 0.9:
            # X[:] / X[:, :] is one form (refused by the converter today); keep only a few of them
            idx = idx[:-1] + (rand_comp(rng, shape[k - 1]),)
        yield shape, idx


def gen_documented():
    """The forms listed in the docstring of _translate_subscript_expr (and X[::-1], listed as unsupported there but
    exercised by the repo's tests), on the 4x3 array of tests/models/getitem.py and on a rank-3 array."""
    S = lambda a=None, b=None, s=None: ("slice", a, b, s)
    forms = [
        (S(), ("int", 1)), (S(None, 2), ("int", 0)), (S(None, 2), S(None, 1)), (S(2, 0, -1),), (S(1),), (S(None, 2),),
        (S(1, -1),), (S(1, 2),), (("int", -1),), (("int", 0),), (S(None, 0, -1),), (S(None, None, -1),),
    ]
    for shape in ((4, 3), (3, 4, 2)):
        for f in forms:
            yield shape, f
        for i in (0, 1, 2, -1, -3):
            yield shape, (("t0", i),)                                           # A[i]
        for i in (0, 1):
            yield shape, (S(("t", i + 1), ("t", i + 2)),)                       # A[i+1:i+2]
            for j in (1, 2):
                for k in (0, 1, 2):   # (k = -1 would go through Slice(-1, 0) + Squeeze and fail: an allowed error)
                    yield shape, (S(("t", i), ("t", i + j)), ("t0", k))         # A[i:i+j, k]


def gen_tensor_forms(rng, shapes=((2, 3, 4), (3, 3, 3)), per_form=1):
    """Every tuple of length <= 3 over {int, ':', slice, rank-0 tensor, rank-1 tensor} with in-range values."""
    def inst(kind, d):
        if kind == "int":
            return ("int", rng.randint(-d, d - 1))
        if kind == ":":
            return ("slice", None, None, None)
        if kind == "slice":
            return ("slice", rng.choice([None, 0, 1, -1]), rng.choice([None, d, -1, d - 1]), rng.choice([None, 1, -1, 2]))
        if kind == "t0":
            return ("t0", rng.randint(-d, d - 1))
        return ("t1", [rng.randint(-d, d - 1) for _ in range(rng.randint(1, 3))])
    kinds = ["int", ":", "slice", "t0", "t1"]
    for shape in shapes:
        for n in (1, 2, 3):
            for ks in itertools.product(kinds, repeat=n):
                if not any(k in ("t0", "t1") for k in ks):
                    continue
                for _ in range(per_form):
                    yield shape, tuple(inst(k, shape[j]) for j, k in enumerate(ks))


def gen_pairs(shape=(3, 4)):
    """All pairs of components from a reduced alphabet on a rank-2 shape (independence of axes)."""
    def alphabet(d):
        out = [("int", i) for i in range(-d, d)] + [("slice", None, None, None)]
        for a, b, s in itertools.product([None, -d - 1, -1, 1, d], [None, -d - 1, -1, 1, d], [None, 2, -1, -2]):
            out.append(("slice", a, b, s))
        return out
    for a in alphabet(shape[0]):
        for b in alphabet(shape[1]):
            yield shape, (a, b)


def load_corpus():
    """corpus/C11/cases.json: witnesses of the Coq statements and inputs that once exposed a defect or a mutant."""
    import json
    doc = json.load(open(os.path.join(common.VERIF, "corpus", PROPERTY, "cases.json")))

    def comp(c):
        c = list(c)
        if c[0] == "slice":
            return ("slice",) + tuple(tuple(b) if isinstance(b, list) else b for b in c[1:4])
        if c[0] == "t1":
            return ("t1", list(c[1]))
        return (c[0], int(c[1]))
    return [(tuple(c["shape"]), tuple(comp(x) for x in c["idx"])) for c in doc["cases"]]


def report_diffs(ctx, state, bad, variants):
    """A front end returned a tensor that is not NumPy's: VIOLATION, keyed by its structural class when the model of
    the code predicts exactly that tensor, as 'unexplained' otherwise."""
    def okey(front):
        for name, o_key, _s in VARIANTS[front]:
            if name == variants[front]:
                return o_key
        return VARIANTS[front][0][1]
    unexplained = {"converter": {id(m[2]) for _, m in bad[okey("converter")] + state["skel_errors"]},
                   "eager": {id(m[2]) for _, m in bad[okey("eager")] + state["eskel_errors"]}}
    seen = {}
    unknown_reported = set()
    diffs = sorted(state["diffs"], key=lambda t: (0 in t[3], t[5]["np"][0] != "ok", t[6][1].size == 0, len(t[4]), int(np.prod(t[3])), len(t[3]), str(t[4])))
    for front, stream, _i, shape, idx, r, o in diffs:
        cls = classify(front, shape, idx, fixed=variants[front].startswith("gather-axis-fix"))
        if id(r) in unexplained[front] and not cls.startswith("unclassified"):
            cls = "unexplained:" + cls
        key = f"C11:{front}:{cls}"
        state["diff"][(front, cls.split(":")[0])] += 1
        if key in seen:
            continue
        seen[key] = 1
        if cls.startswith(("unclassified", "unexplained")):
            # not one of the recorded classes: report the smallest such input per front end only
            if front in unknown_reported:
                continue
            unknown_reported.add(front)
        o_np = r["np"]
        ctx.violation(key,
                      f"{front}: X[{r['src']}] on shape {tuple(shape)} (tensor-valued parts {r['vals']}) returns "
                      f"{o[1].tolist()} of shape {tuple(o[1].shape)} while NumPy "
                      + (f"returns {o_np[1].tolist()} of shape {tuple(o_np[1].shape)}" if o_np[0] == "ok" else f"raises {o_np[1]}"),
                      {"front": front, "stream": stream, "shape": list(shape), "idx": [list(c) for c in idx],
                       "source": f"X[{r['src']}]", "tensor_values": r["vals"],
                       "numpy": o_np[1].tolist() if o_np[0] == "ok" else o_np[1],
                       "got": o[1].tolist(), "got_shape": list(o[1].shape)})


def run(ctx):
    import collections
    ctx.assume("the ONNX operator documents of Slice-13, Squeeze-13 and Gather-13 as transcribed in coq/Index/OnnxSlice.v; their "
               "agreement with onnxruntime is measured on every case (graph result vs run_conv, eager result vs run_eager)")
    ctx.assume("Python slice.indices / range and NumPy basic indexing as transcribed in coq/Index/NumpySpec.v; agreement with "
               "NumPy measured on every case whose NumPy result is a per-axis view (np_modelled)")
    ctx.assume("dimensions fit int64 (d <= INT64_MAX); the operands the converter emits are int64 constants")
    ctx.assume("eager mode is run with a recording evaluator that delegates to onnxruntime through "
               "evaluator._prepare_model_and_inputs_for_eager with single-threaded sessions")
    ctx.assume("boolean mask TENSORS and tensor-valued indices of rank >= 3 are outside the property's quantifier and are not generated; "
               "rank-2 tensor indices are (stream adv-forms); Ellipsis, None/newaxis, boolean / float / string literals are generated as near "
               "misses (stream outside-forms: must fail or equal NumPy; NumPy itself is the specification there, plus the rank formula "
               "DynForms.np_x_rank); step 0 is generated with tensor-valued steps (thorough) and as an attribute parameter")
    ctx.assume("NumPy's rule for combining advanced and basic indexing (broadcast of all advanced indices; block at the first advanced "
               "index when they are adjacent, in front otherwise) as transcribed in coq/Index/AdvSpec.v np_arr; agreement with NumPy is "
               "measured on every case of the adv-forms stream, good and bad forms alike")
    ctx.assume("ONNX Gather with an index tensor of rank r = Gather with the flattened index followed by the reshape of that axis into the "
               "index shape (Gather-13: output rank q + r - 1, index axes in place of the gathered axis); measured on onnxruntime per case")
    ctx.check_props()
    state = {"n": 0, "outcomes": collections.Counter(), "diff": collections.Counter(), "identity_refused": 0,
             "pending": [], "diffs": [], "streams": {}, "skel_errors": [], "eskel_errors": []}
    runner = Runner(ctx)
    rng = ctx.rng
    thorough = ctx.tier == "thorough"
    try:
        process(ctx, runner, load_corpus(), "corpus", state)
        process(ctx, runner, list(gen_documented()), "documented", state)
        from harness import c11_docs
        docs_cover = c11_docs.run(ctx, {impl.expr_source(idx)[0] for _shape, idx in gen_documented()})
        process(ctx, runner, list(gen_axis_exhaustive()), "axis-exhaustive", state)
        process(ctx, runner, list(gen_tensor_forms(rng, per_form=2 if thorough else 1)), "tensor-forms", state)
        process(ctx, runner, list(gen_random(rng, 20000 if thorough else 3000)), "random", state)
        # dimensions of size 0: outside the property's quantifier (dims 1..4) but inside the theorems (d >= 0)
        process(ctx, runner, list(gen_random(rng, 1500 if thorough else 200, dims=(0, 0, 1, 3))), "zero-dim", state)
        if thorough:
            process(ctx, runner, list(gen_axis_exhaustive(rank_pos=((2, 1), (3, 2), (3, 1)))), "axis-exhaustive-inner", state)
            process(ctx, runner, list(gen_pairs()), "pairs", state)
        import sys
        from harness import c11_adv
        adv_cover = c11_adv.run(ctx, sys.modules[__name__], runner)
        state["adv_eager_variant"] = adv_cover.get("eager_variant")
        state["streams"]["adv-forms"] = adv_cover["cases"]
        from harness import c11_dyn
        dyn_cover = c11_dyn.run(ctx, sys.modules[__name__], runner, state)
        state["streams"]["outside-forms"] = dyn_cover["outside_forms"]["cases"]
    finally:
        runner.close()
    n = state["n"]
    bad = coq_compare(ctx, state)
    variants = report(ctx, bad, n)
    report_diffs(ctx, state, bad, variants)
    # generator health: most cases must be ones where both front ends return NumPy's result
    oc = state["outcomes"]
    good = {f: oc[(f, "ok", "np-ok")] - sum(v for (ff, _c), v in state["diff"].items() if ff == f) for f in ("converter", "eager")}
    floor = 0.5
    for f in ("converter", "eager"):
        ok = good[f] >= floor * n
        ctx.obligation(f"generator health: {f} returns NumPy's tensor on at least {int(floor * 100)}% of the cases ({good[f]}/{n})", ok)
        if not ok:
            ctx.tie_broken("harness", "generator-degenerate", f"{f}: only {good[f]} of {n} cases produce a tensor equal to NumPy's")
    ctx.cover(rule="script functions `return X[idx]` generated per index form, converted and run on onnxruntime (graph), eagerly and in "
                   "NumPy on X = arange; streams: corpus (witnesses of the Coq statements, past failures), documented forms, exhaustive one-axis sweep of the "
                   "property's quantifier (start/stop in {None,-d-1..d+1}, step in {None,1,2,-1,-2}, ints -d-1..d as literal and rank-0 "
                   "tensor, d=1..4), all kind-tuples of length<=3 with a tensor-valued component, seeded random tuples on rank 1-3 "
                   "(dims 1-4), shapes with 0 dims, adv-forms: every kind tuple of length<=4 over {int, ':', slice, rank-0/1/2 tensor} with a "
                   "tensor-valued component (any number of tensor indices; negative entries; index tensors and dims of size 0 and 1); thorough adds the one-axis sweep on inner axes, all pairs of a reduced alphabet, "
                   "13x random volume. distinct non-trivial key = (stream, rank, kind of every component incl. sign / tensor-valued bound)",
              exhaustive=False,
              cases_per_stream=state["streams"], forms_converted=len(runner.forms),
              forms_refused_by_converter=sum(1 for v in runner.forms.values() if v[0] is None),
              identity_form_refused=state["identity_refused"],
              outcomes={f"{a}:{b}:{c}": v for (a, b, c), v in sorted(oc.items())},
              different_tensor_by_class={f"{a}:{b}": v for (a, b), v in sorted(state["diff"].items())},
              code_variant=variants, adv_forms=adv_cover, documented_forms=docs_cover, dynamic_and_outside_forms=dyn_cover)
    if thorough:
        ctx.coqchk(["Props.C11"])


def replay(doc):
    """./check C11 --replay <file>: re-run the recorded expression on the real code."""
    import collections
    rp = doc["replay"]
    if "idx" not in rp:
        import json
        print(json.dumps(doc, indent=1))
        return 0

    def comp(c):
        c = list(c)
        if c[0] == "slice":
            return ("slice",) + tuple(tuple(b) if isinstance(b, list) else b for b in c[1:4])
        return tuple(c)
    idx = tuple(comp(c) for c in rp["idx"])
    shape = tuple(rp["shape"])
    ctx = common.Ctx(PROPERTY, "quick", 0)
    runner = Runner(ctx)
    try:
        runner.prepare([idx])
        r = runner.evaluate(shape, idx)
    finally:
        runner.close()
        shutil.rmtree(ctx.scratch, ignore_errors=True)
    show = lambda o: o[1].tolist() if o[0] == "ok" else "ERROR " + o[1]
    print(f"X[{r['src']}]  shape {shape}  tensor-valued parts {r['vals']}")
    print("  numpy :", show(r["np"]))
    print("  graph :", show(r["graph"]), " emitted:", r["skel"])
    print("  eager :", show(r["eager_user"]), " op calls:", r["eskel"])
    bad = [f for f, o in (("converter", r["graph"]), ("eager", r["eager_user"]))
           if o[0] == "ok" and not (r["np"][0] == "ok" and same(o, r["np"]))]
    print("  different tensor returned by:", bad or "nobody")
    return 1 if bad else 0
