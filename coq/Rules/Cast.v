(* Model of CastIdentity, CastCast (_basic_rules.py) and cast_constant_of_shape(_without_value) (_cast_constant_of_shape.py) (C05).
   No proofs in this file. *)
From Coq Require Import ZArith List Bool.
Import ListNotations.
Local Open Scope Z_scope.

(* ONNX TensorProto.DataType numbers *)
Definition FLOAT := 1. Definition FLOAT16 := 10. Definition DOUBLE := 11. Definition BFLOAT16 := 16.

(* CastIdentity.check: x.dtype == to  (an unknown dtype never equals) *)
Definition ci_check (xdtype : option Z) (to : Z) : bool := match xdtype with Some d => d =? to | None => false end.
(* CastCast.check: (type2, type3) in {(FLOAT, FLOAT16), (FLOAT, BFLOAT16)}; the source type is not looked at *)
Definition cc_check (t2 t3 : Z) : bool := (t2 =? FLOAT) && ((t3 =? FLOAT16) || (t3 =? BFLOAT16)).

(* Round-to-nearest-even of an integer x (a value in units of the finest grid) onto the grid of spacing 2^g:
   within one binade a cast to a float type with fewer mantissa bits is exactly this. *)
Definition rne (g : Z) (x : Z) : Z :=
  let m := 2 ^ g in let q := x / m in let r := x mod m in
  if 2 * r <? m then q * m else if m <? 2 * r then (q + 1) * m else (if Z.even q then q else q + 1) * m.
(* values in [1,2) in units of 2^-30: float32 has spacing 2^-23 (g = 7), float16 2^-10 (g = 20) *)
Definition to_f32 := rne 7.
Definition to_f16 := rne 20.

(* cast_constant_of_shape: the fused value is built with ir.tensor([python scalar], dtype): numpy refuses integers outside
   the target range (OverflowError), where ONNX Cast wraps *)
Definition np_int_conv (lo hi v : Z) : option Z := if (lo <=? v) && (v <=? hi) then Some v else None.
Definition onnx_int_cast (lo hi v : Z) : Z := (v - lo) mod (hi - lo + 1) + lo.
Definition const_of_shape {A} (n : nat) (v : A) : list A := repeat v n.

Definition ci_case := (option Z * Z * bool)%type.
(* correspondence is one-directional, as the property is: what the implementation did must be permitted by the model;
   not firing is always permitted (a stricter check is never a C05 violation) *)
Definition ci_agrees (c : ci_case) : bool := let '(d, t, f) := c in implb f (ci_check d t).
Definition cc_case := (Z * Z * bool)%type.
Definition cc_agrees (c : cc_case) : bool := let '(a, b, f) := c in implb f (cc_check a b).
Definition cv_case := (Z * Z * Z * option Z)%type.     (* lo, hi, v, emitted value (None = raised) *)
Definition cv_agrees (c : cv_case) : bool :=
  let '(lo, hi, v, o) := c in
  match np_int_conv lo hi v, o with
  | None, None => true                                  (* the shipped rule raises *)
  | None, Some b => b =? onnx_int_cast lo hi v          (* ... a repaired one emits what Cast yields *)
  | Some a, Some b => a =? b
  | Some _, None => false
  end.
Fixpoint disagreeing {A} (f : A -> bool) (i : nat) (l : list A) : list nat :=
  match l with [] => [] | c :: t => (if f c then [] else [i]) ++ disagreeing f (S i) t end.
