(* C19 proofs: InstanceNormalization over the channels of a group + per-channel affine = GroupNorm. *)
From Coq Require Import List Field Ring Bool Arith Lia ZArith.
Require Import OV.Fusion.Field OV.Fusion.GroupNorm.
Import ListNotations.

Section Laws.
  Variable F : Type.
  Variable o : fops F.
  Hypothesis Fth : is_field o.
  Variable sqrt : F -> F.
  Add Field FF : (Fth : field_theory (f0 o) (f1 o) (fadd o) (fmul o) (fsub o) (fopp o) (fdiv o) (finv o) (@eq F)).

  Lemma split_like_map_concat : forall (f : F -> F) (chans : list (list F)),
    split_like F chans (map f (concat chans)) = map (map f) chans.
  Proof.
    induction chans as [|c t IH]; simpl; auto.
    rewrite map_app.
    assert (L : length c = length (map f c)) by (rewrite map_length; reflexivity).
    rewrite L at 1. rewrite firstn_app, Nat.sub_diag, firstn_all. simpl. rewrite app_nil_r.
    rewrite L. rewrite skipn_app, skipn_all, Nat.sub_diag. simpl. rewrite IH. reflexivity.
  Qed.

  (* weight 1 and bias 0 leave the normalised value *)
  Lemma inst_norm_unit : forall v eps,
    inst_norm_row F o sqrt v (f1 o) (f0 o) eps
    = map (fun x => fdiv o (fsub o x (mean o v)) (sqrt (fadd o (variance F o v) eps))) v.
  Proof.
    intros. unfold inst_norm_row. apply map_ext. intro x. rewrite !(Fdiv_def Fth). ring.
  Qed.

  (* for every number of channels in the group and every spatial size *)
  Theorem instance_to_group_norm_identity : forall (chans : list (list F)) (w b : list F) (eps : F),
    ign_pattern F o sqrt chans w b eps = gn_spec F o sqrt chans w b eps.
  Proof.
    intros. unfold ign_pattern, gn_spec. rewrite inst_norm_unit, split_like_map_concat. reflexivity.
  Qed.
End Laws.

(* Reshape(x [N, G*cpg, HW], [0, G, -1]): channel g*cpg + j of sample n sits at offset j*HW of group row (n, g) *)
Lemma group_reshape_index : forall n g j e G cpg HW,
  (n * G + g) * (cpg * HW) + (j * HW + e) = (n * (G * cpg) + (g * cpg + j)) * HW + e.
Proof. intros. ring. Qed.

(* side conditions: an accepted instance is rank 4, its Reshapes are [0, groups, -1] and back to the input shape *)
Lemma zlist_eqb_eq : forall a b, zlist_eqb a b = true -> a = b.
Proof.
  induction a as [|x a IH]; intros [|y b] H; simpl in H; try discriminate; auto.
  apply andb_prop in H. destruct H as [H1 H2]. apply Z.eqb_eq in H1. f_equal; auto.
Qed.
Theorem gn_check_sound : forall ag i g, gn_check ag i = Some g ->
  g = gn_groups i /\ length (gn_input i) = 4%nat /\ gn_adjusted i = Some [0; g; -1]%Z /\ gn_original i = Some (gn_input i)
  /\ gn_norm_weight_ones i = true /\ gn_norm_bias_zeros i = true
  /\ length (gn_weight_full i) = 3%nat /\ all_ones (tl (gn_weight_full i)) = true.
Proof.
  intros ag i g. unfold gn_check.
  match goal with |- (if ?c then _ else _) = _ -> _ => destruct c eqn:E; [|discriminate] end.
  intro H; inversion H; subst.
  repeat (apply andb_prop in E; destruct E as [E ?]).
  apply Nat.eqb_eq in H4. 
  destruct (gn_adjusted i) as [a|]; [|discriminate]. destruct (gn_original i) as [s|]; [|discriminate].
  apply zlist_eqb_eq in H0, H1. subst.
  apply Nat.eqb_eq in H6. rewrite H4 in H6.
  repeat split; auto.
Qed.
(* NOT ensured: that weight_full / bias_full have C elements.  [1,1,1] factors broadcast in the pattern but the fused
   node then receives a gamma of length 1 *)
Theorem gn_check_affine_refuted : exists i g, gn_check false i = Some g /\ gn_affine_ok i = false /\ gn_check true i = None.
Proof.
  exists (mk_gn_in true true 2 [1; 4; 2; 2]%Z [1; 1; 1]%Z [1; 1; 1]%Z (Some [0; 2; -1]%Z) (Some [1; 4; 2; 2]%Z)), 2%Z.
  repeat split; vm_compute; reflexivity.
Qed.

(* with the repair (affine_guard = true) an accepted instance has one gamma and one beta per channel: what the fused node needs *)
Lemma all_ones_prod : forall l, all_ones l = true -> fold_right Z.mul 1%Z l = 1%Z.
Proof.
  induction l as [|x l IH]; simpl; auto. intro H. apply andb_prop in H. destruct H as [H1 H2].
  apply Z.eqb_eq in H1. subst. rewrite IH by auto. reflexivity.
Qed.
Theorem gn_check_affine_sufficient : forall i g, gn_check true i = Some g -> gn_affine_ok i = true.
Proof.
  intros i g H. pose proof (gn_check_sound _ _ _ H) as (_ & L4 & _ & _ & _ & _ & _ & _).
  unfold gn_check in H.
  match type of H with (if ?c then _ else _) = _ => destruct c eqn:E; [|discriminate] end.
  repeat (apply andb_prop in E; destruct E as [E ?]).
  simpl in E. unfold gn_affine_ok.
  destruct (gn_input i) as [|n [|c [|hh [|ww [|]]]]]; simpl in L4; try discriminate.
  destruct (gn_weight_full i) as [|w0 wt]; [discriminate|]. destruct (gn_bias_full i) as [|b0 bt]; [discriminate|].
  apply andb_prop in E. destruct E as [E1 E2]. apply Z.eqb_eq in E1, E2. subst.
  simpl in *. rewrite !all_ones_prod by assumption. rewrite !Z.mul_1_r, !Z.eqb_refl. reflexivity.
Qed.
Example gn_check_affine_fires :
  gn_check true (mk_gn_in true true 2 [1; 4; 2; 2]%Z [4; 1; 1]%Z [4; 1; 1]%Z (Some [0; 2; -1]%Z) (Some [1; 4; 2; 2]%Z)) = Some 2%Z.
Proof. vm_compute. reflexivity. Qed.
