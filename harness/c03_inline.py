"""C03 / C04 tie of coq/Opt/InlineFn.v to the real pipeline: onnx_ir InlinePass, RemoveUnusedFunctionsPass, RemoveUnusedOpsetsPass
as optimize_ir runs them, observed on models with model-local functions (functions called once / twice / through another function,
matches inside If / Loop bodies nested up to three times, reference attributes, C03's generated DAGs with functions) and compared
with the Gallina models INSIDE Coq:

  InlinePass   the real pass runs with `_instantiate_call` wrapped: per instantiated call the (callee name -> chosen name) pairs of the
               top-level and the nested definitions are recorded in instantiation order = the model's naming oracle;
               Coq:  inline_model fuel ft oracle g_before  must be  Some g  with  graph_eqb g g_after.
               The model refusing (None: a function returning a formal / one value twice, a side condition) is counted with its reason;
               a disagreement is first put to the direct oracle (onnx.reference / onnxruntime before vs after the pass).
  RemoveUnusedFunctionsPass   identifiers left = map id (remove_unused_functions_fn g ft)
  RemoveUnusedOpsetsPass      imports left, for the model and for every function = remove_unused_opsets
"""
from __future__ import annotations

import collections
import contextlib

import onnx

from harness import c03_run as R
from harness import graphlit
from harness.common import clist, cstr, parse_nat_list

REQ = ["OV.Graph.Syntax", "OV.Graph.Wf", "OV.Builder.Inline", "OV.Opt.InlineFn"]


def func_lit(f: onnx.FunctionProto) -> str:
    params = [f"({cstr(a)}, None)" for a in f.attribute]
    for ap in f.attribute_proto:
        kind, txt = graphlit.attr_lit(ap)
        if kind != "attr":
            raise ValueError("graph-valued attribute default")
        params.append(f"({cstr(ap.name)}, Some {txt})")
    return (f"(Func {cstr(f.domain)} {cstr(f.name)} {clist(list(f.input), cstr)} {clist(params)} "
            f"{clist([graphlit.node_lit(n) for n in f.node])} {clist(list(f.output), cstr)})")


def pairs_lit(ps):
    return clist([f"({cstr(a)}, {cstr(b)})" for a, b in ps])


@contextlib.contextmanager
def recording_sites(sites):
    from onnx_ir.passes.common import inliner
    import onnx_ir as ir
    orig = inliner.InlinePass._instantiate_call

    def pair(olds, news, top, nested, depth):
        for o, n in zip(olds, news):
            for vo, vn in zip(o.outputs, n.outputs):
                (top if depth == 0 else nested).append((vo.name or "", vn.name or ""))
            for name, attr in o.attributes.items():
                if attr.type == ir.AttributeType.GRAPH and name in n.attributes:
                    pair(list(attr.as_graph()), list(n.attributes[name].as_graph()), top, nested, depth + 1)
                elif attr.type == ir.AttributeType.GRAPHS and name in n.attributes:
                    for ga, gb in zip(attr.as_graphs(), n.attributes[name].as_graphs()):
                        pair(list(ga), list(gb), top, nested, depth + 1)

    def wrapped(self, node, call_site_id):
        fn = self._functions[node.op_identifier()]
        nodes, values = orig(self, node, call_site_id)
        top, nested = [], []
        pair(list(fn), list(nodes), top, nested, 0)
        sites.append((node.op_identifier(), top, nested))
        return nodes, values
    inliner.InlinePass._instantiate_call = wrapped
    try:
        yield
    finally:
        inliner.InlinePass._instantiate_call = orig


def observe_inline(model_proto):
    """-> (before proto, after proto, sites) of onnx_ir InlinePass (criteria None, as optimize_ir builds it) on a copy"""
    import onnx_ir as ir
    from onnx_ir.passes.common import inliner
    m = onnx.ModelProto()
    m.CopyFrom(model_proto)
    mi = ir.serde.deserialize_model(m)
    before = ir.serde.serialize_model(mi)
    sites = []
    with recording_sites(sites):
        res = inliner.InlinePass()(mi)
    return before, ir.serde.serialize_model(res.model), sites


def _functional(ps):
    d = {}
    for a, b in ps:
        if d.setdefault(a, b) != b:
            return False
    return True


def refusal_reason(before):
    for f in before.functions:
        if set(f.output) & set(f.input):
            return "function-returns-a-formal"
        if len(set(f.output)) != len(f.output):
            return "function-returns-a-value-twice"
    return "side-condition"


class InlineTie:
    def __init__(self, ctx, pid):
        self.ctx, self.pid = ctx, pid
        self.stats = collections.Counter()
        self.queue = []          # (label, before, after, sites, case-like for the oracle)
        self.ruf = []            # (label, before, after)
        self.ops = []
        self.seen = set()

    # ------------------------------------------------------------------ collecting
    def add_model(self, label, model_proto, feeds):
        if not model_proto.functions:
            return
        if any(getattr(f, "overload", "") for f in model_proto.functions):
            self.stats["skipped:overloads"] += 1
            return
        key = model_proto.SerializeToString(deterministic=True)
        if key in self.seen:
            return
        self.seen.add(key)
        try:
            before, after, sites = observe_inline(model_proto)
        except Exception as e:
            t, site, msg = R.root_cause(e)
            self.stats[f"inline-raised:{t}"] += 1       # totality is C04's (entry-point check); here nothing to compare
            return
        self.stats["inline-observed"] += 1
        self.stats["inline-sites"] += len(sites)
        self.queue.append((label, before, after, sites, feeds))

    def add_pass_records(self, label, recs):
        """records of c03_passes.observe: the table-pruning passes"""
        for pname, b, a, _mod in recs:
            if b is None or a is None:
                continue
            if pname == "RemoveUnusedFunctionsPass" and b.functions and len(self.ruf) < 400:
                self.ruf.append((label, b, a))
            if pname == "RemoveUnusedOpsetsPass" and len(self.ops) < 400:
                self.ops.append((label, b, a))

    # ------------------------------------------------------------------ comparing
    def finish(self):
        ctx = self.ctx
        self._finish_inline()
        self._finish_tables()
        st = self.stats
        ctx.obligation("correspondence InlinePass: the real pass (names it chose = the model's oracle) = Opt/InlineFn.v inline_model, compared in Coq "
                       "(graph_eqb on the whole main graph)",
                       st["inline-disagree"] == 0 and st["inline-agree"] >= 20 and st["inline-agree"] >= 2 * st["inline-model-refused"],
                       f"{dict(st)}")
        ctx.obligation("correspondence RemoveUnusedFunctionsPass / RemoveUnusedOpsetsPass = Opt/InlineFn.v remove_unused_functions_fn / "
                       "remove_unused_opsets (model and every function), compared in Coq",
                       st["ruf-disagree"] == 0 and st["opsets-disagree"] == 0 and st["ruf-agree"] > 0 and st["opsets-agree"] > 0, f"{dict(st)}")
        return st

    def _finish_inline(self):
        ctx, st = self.ctx, self.stats
        q = self.queue
        for start in range(0, len(q), 60):
            chunk = q[start:start + 60]
            defs, idx = [], []
            for i, (label, before, after, sites, feeds) in enumerate(chunk):
                if not all(_functional(t) and _functional(n) for _id, t, n in sites):
                    st["inline-outside-model:renaming-not-a-function-of-the-name"] += 1
                    continue
                try:
                    ft = clist([func_lit(f) for f in before.functions])
                    orc = clist([f"(Names {pairs_lit(t)} {pairs_lit(n)})" for _id, t, n in sites])
                    g0, g1 = graphlit.graph_lit(before.graph), graphlit.graph_lit(after.graph)
                except Exception as e:
                    st[f"inline-not-printable:{type(e).__name__}"] += 1
                    continue
                defs.append(f"Definition v_{i} : nat := match inline_model 1500 {ft} {orc} {g0} with "
                            f"Some g => if graph_eqb 400 g {g1} then 0 else 1 | None => 2 end.\n")
                idx.append(i)
            if not idx:
                continue
            if start == 0:
                # canary: the comparison must tell a wrong result apart (first printable case, one op_type of the real result altered)
                label, before, after, sites, feeds = chunk[idx[0]]
                wrong = onnx.ModelProto()
                wrong.CopyFrom(after)
                if wrong.graph.node:
                    wrong.graph.node[0].op_type = wrong.graph.node[0].op_type + "X"
                    ft = clist([func_lit(f) for f in before.functions])
                    orc = clist([f"(Names {pairs_lit(t)} {pairs_lit(n)})" for _id, t, n in sites])
                    defs.append(f"Definition canary : nat := match inline_model 1500 {ft} {orc} {graphlit.graph_lit(before.graph)} with "
                                f"Some g => if graph_eqb 400 g {graphlit.graph_lit(wrong.graph)} then 0 else 1 | None => 2 end.\n")
                    self._canary = True
            lst = clist([f"v_{i}" for i in idx])
            body = "".join(defs) + ("Fixpoint pick (k : nat) (i : nat) (l : list nat) : list nat := match l with [] => [] | v :: t => "
                                    "(if Nat.eqb v k then [i] else []) ++ pick k (S i) t end.\n"
                                    f"Eval vm_compute in (pick 1 0 {lst}).\nEval vm_compute in (pick 2 0 {lst}).\n")
            canary = start == 0 and getattr(self, "_canary", False)
            if canary:
                body += "Eval vm_compute in canary.\n"
            ok, vals, raw = ctx.coq_eval(REQ, body, timeout=900, name="inline")
            if not ok or len(vals) < 2:
                ctx.tie_broken("correspondence", "inline:evaluation", raw[-1200:])
                return
            if canary:
                st["canary-wrong-result-told-apart"] = int(len(vals) >= 3 and vals[2].strip().startswith("1"))
                if not st["canary-wrong-result-told-apart"]:
                    ctx.tie_broken("correspondence", "inline:canary", f"an altered result was not told apart: {vals[2:]}")
            differ = {idx[j] for j in parse_nat_list(vals[0])}
            refused = {idx[j] for j in parse_nat_list(vals[1])}
            for i in idx:
                label, before, after, sites, feeds = chunk[i]
                ctx.case(("inline", len(sites), len(before.functions), "agree" if i not in differ | refused else "other"))
                if i in refused:
                    st["inline-model-refused"] += 1
                    st["inline-model-refused:" + refusal_reason(before)] += 1
                    continue
                if i not in differ:
                    st["inline-agree"] += 1
                    st[f"inline-agree:sites={min(len(sites), 4)}{'+' if len(sites) > 4 else ''}"] += 1
                    continue
                # model and pass disagree: the property first (same outputs before / after the pass)
                bad = None
                for rname, fn in R.RUNTIMES:
                    s0, o0 = fn(before, feeds)
                    s1, o1 = fn(after, feeds)
                    if s0 == "ok" and (s1 != "ok" or any(R.compare_outputs(a, b, None) is not None for a, b in zip(o0, o1))):
                        bad = rname
                        break
                if bad:
                    ctx.violation(f"{self.pid}:inline-pass:outputs-differ", f"InlinePass changes the outputs of {label} ({bad})",
                                  {"model_b64": R.model_b64(before), "feeds": R.feeds_json(feeds), "entry": "optimize", "opts": None, "as_ir": True})
                else:
                    st["inline-disagree"] += 1
                    ctx.tie_broken("correspondence", "inline:model-differs-from-pass", f"{label}: sites {[(str(s[0]), s[1][:4]) for s in sites][:4]}")

    def _finish_tables(self):
        ctx, st = self.ctx, self.stats

        def ids(m):
            return clist([f"({cstr(f.domain)}, {cstr(f.name)})" for f in m.functions])
        defs, n = [], 0
        for label, b, a in self.ruf:
            try:
                ft = clist([func_lit(f) for f in b.functions])
                defs.append(f"Definition u_{n} : bool := list_eqb (fun x y : string * string => String.eqb (fst x) (fst y) && String.eqb (snd x) (snd y)) "
                            f"(map (fun f => (f_dom f, f_name f)) (remove_unused_functions_fn {graphlit.graph_lit(b.graph)} {ft})) {ids(a)}.\n")
                n += 1
            except Exception as e:
                st[f"ruf-not-printable:{type(e).__name__}"] += 1
        m = 0
        for label, b, a in self.ops:
            try:
                fdom = clist([f.domain for f in b.functions], cstr)
                parts = [f"str_list_eqb (remove_unused_opsets {graphlit.imports_lit(b.opset_import)} (domains_graph {graphlit.graph_lit(b.graph)} ++ {fdom})) "
                         f"{graphlit.imports_lit(a.opset_import)}"]
                fa = {(f.domain, f.name): f for f in a.functions}
                for f in b.functions:
                    g = fa.get((f.domain, f.name))
                    if g is not None:
                        parts.append(f"str_list_eqb (remove_unused_opsets {graphlit.imports_lit(f.opset_import)} (domains_graph {graphlit.function_lit(f)})) "
                                     f"{graphlit.imports_lit(g.opset_import)}")
                defs.append(f"Definition w_{m} : bool := {' && '.join(parts)}.\n")
                m += 1
            except Exception as e:
                st[f"opsets-not-printable:{type(e).__name__}"] += 1
        if not n and not m:
            return
        body = "".join(defs) + ("Fixpoint bad (i : nat) (l : list bool) : list nat := match l with [] => [] | b :: t => (if b then [] else [i]) ++ bad (S i) t end.\n"
                                f"Eval vm_compute in (bad 0 {clist([f'u_{i}' for i in range(n)])}).\n"
                                f"Eval vm_compute in (bad 0 {clist([f'w_{i}' for i in range(m)])}).\n")
        ok, vals, raw = ctx.coq_eval(REQ, body, timeout=900, name="tables")
        if not ok or len(vals) < 2:
            ctx.tie_broken("correspondence", "unused-functions-opsets:evaluation", raw[-1200:])
            return
        b1, b2 = parse_nat_list(vals[0]), parse_nat_list(vals[1])
        st["ruf-agree"] += n - len(b1)
        st["ruf-disagree"] += len(b1)
        st["opsets-agree"] += m - len(b2)
        st["opsets-disagree"] += len(b2)
        st["ruf-removed-something"] += sum(1 for _l, b, a in self.ruf if len(a.functions) < len(b.functions))
        st["opsets-removed-something"] += sum(1 for _l, b, a in self.ops if len(a.opset_import) < len(b.opset_import))
        for i in b1[:3]:
            ctx.tie_broken("correspondence", "remove-unused-functions:model-differs", f"{self.ruf[i][0]}: before {[f.name for f in self.ruf[i][1].functions]} "
                           f"after {[f.name for f in self.ruf[i][2].functions]}")
        for i in b2[:3]:
            ctx.tie_broken("correspondence", "remove-unused-opsets:model-differs", f"{self.ops[i][0]}: before {[o.domain for o in self.ops[i][1].opset_import]} "
                           f"after {[o.domain for o in self.ops[i][2].opset_import]}")


def function_hosts(rng, quick):
    """hand-built hosts with functions (shared with C04's rewrite family): (label, model, feeds)"""
    from harness import c04_rewrite as W
    res = []
    for which in W.RULESETS:
        for path in W.PATHS:
            for cont in W.CONTAINERS[1:]:
                if quick and rng.random() < 0.5:
                    continue
                res.append((f"host:{which}:{'/'.join(path)}:{cont}", W.build_host(which, path, cont, "none"), W.FEEDS))
    import numpy as np
    import onnx.parser
    x = {"x": np.array([1.0, -2.0, 3.0], dtype=np.float32)}
    for label, text in EXTRA_HOSTS:
        m = onnx.parser.parse_model(text)
        onnx.checker.check_model(m, full_check=True)
        res.append((label, m, [x]))
    return res


EXTRA_HOSTS = [
    ("extra:fewer-actuals-and-defaults", """
<ir_version: 8, opset_import: [ "" : 18, "local" : 1]>
agraph (float[3] x) => (float[3] z)
{
    lo = Constant <value = float {-1.0}> ()
    a = local.clipf (x)
    b = local.clipf (a, lo)
    c = local.scale <k = 3.0> (b)
    d = local.scale (c)
    z = local.unused_after (d)
}
<domain: "local", opset_import: [ "" : 18]>
clipf (v, lo) => (r)
{
    t = Abs (v)
    r = Clip (t, lo)
}
<domain: "local", opset_import: [ "" : 18, "local" : 1]>
scale <k: float = 2.0> (v) => (r)
{
    kk = Constant <value_float: float = @k> ()
    t = Mul (v, kk)
    r = local.clipf (t)
}
<domain: "local", opset_import: [ "" : 18]>
unused_after (v) => (r)
{
    r = Identity (v)
}
<domain: "local", opset_import: [ "" : 18]>
never_called (v) => (r)
{
    r = Neg (v)
}
"""),
    ("extra:function-returns-a-formal", """
<ir_version: 8, opset_import: [ "" : 18, "local" : 1]>
agraph (float[3] x) => (float[3] z, float[3] w)
{
    y = Neg (x)
    z, w = local.f (y)
}
<domain: "local", opset_import: [ "" : 18]>
f (a) => (r, a)
{
    r = Neg (a)
}
"""),
]
