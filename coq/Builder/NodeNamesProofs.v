(* Node names: with the node counter shared by the whole builder tree (bcfg_fixed), the names of ALL nodes the build
   creates -- in the root graph and in every If / Loop / Scan body at any depth, CastLike nodes included -- are
   pairwise distinct: the k-th node created anywhere in the tree is called <scope>/<op>_node_<k>, and a node name
   determines its counter (NamingProofs.node_name_inj, any scope, any operator name).  No hypothesis on the trace
   except that it contains no raw nodes (the names of the nodes spliced in by call_inline are observed, not made by
   this model; their prefix discipline is Props/C18_inline.v). *)
From Coq Require Import String List Bool Arith Lia.
Require Import OV.Graph.Syntax OV.Graph.Sem.
Require Import OV.Builder.Strings OV.Builder.StringsProofs OV.Builder.Naming OV.Builder.NamingProofs.
Require Import OV.Builder.Trace OV.Builder.TraceProofs OV.Builder.TraceCF OV.Builder.TraceCFProofs.
Require Import OV.Builder.SemX OV.Builder.TraceCFX OV.Builder.TraceCFXProofs.
Import ListNotations.
Local Open Scope list_scope.

Definition nn_inv (s : bst) : Prop :=
  List.length (b_nnames s) = b_total s /\
  forall i, i < b_total s -> exists st op, nth i (b_nnames s) ""%string = node_name st op i.

Lemma nn_same : forall s s', b_total s' = b_total s -> b_nnames s' = b_nnames s -> nn_inv s -> nn_inv s'.
Proof. intros s s' Ht Hn [H1 H2]. unfold nn_inv. rewrite Ht, Hn. auto. Qed.

Lemma nn_bump : forall s st op, nn_inv s -> nn_inv (bump s (node_name st op (b_total s))).
Proof.
  intros s st op [H1 H2]. unfold nn_inv. cbn [bump b_nnames b_total]. split.
  - rewrite app_length. cbn. lia.
  - intros i Hi. destruct (Nat.eq_dec i (b_total s)) as [->|Hne].
    + exists st, op. rewrite app_nth2 by lia. rewrite H1, Nat.sub_diag. reflexivity.
    + rewrite app_nth1 by lia. apply H2. lia.
Qed.

Lemma fresh_many_nn : forall rn gens s s' ns, fresh_many rn s gens = (s', ns) ->
  b_total s' = b_total s /\ b_nnames s' = b_nnames s.
Proof.
  intro rn. induction gens as [|g r IH]; intros s s' ns H; cbn [fresh_many] in H.
  - inversion H; subst. auto.
  - destruct (fresh rn s g) as [s1 n] eqn:Ef. destruct (fresh_many rn s1 r) as [s2 ns'] eqn:Em.
    inversion H; subst. unfold fresh in Ef. inversion Ef; subst. destruct (IH _ _ _ Em) as [A B]. cbn in A, B. auto.
Qed.

Lemma promote_nn : forall s l s' n, promote s l = (s', n) -> b_total s' = b_total s /\ b_nnames s' = b_nnames s.
Proof.
  intros s l s' n H. unfold promote in H. destruct (assoc_str (l_key l) (b_cache s)) as [[n0 l0]|]; inversion H; subst; auto.
Qed.

Lemma resolve_nn : forall args st s local s' local' ins pre,
  resolve bcfg_fixed st s local args = (s', local', ins, pre) -> nn_inv s -> nn_inv s'.
Proof.
  induction args as [|a r IH]; intros st s local s' local' ins pre H Hi.
  - cbn in H. inversion H; subst. exact Hi.
  - destruct a as [id | l | l like | ]; cbn [resolve] in H.
    + destruct (resolve bcfg_fixed st s local r) as [[[s1 l1] ins1] pre1] eqn:Er. inversion H; subst. eauto.
    + destruct (promote s l) as [s0 n] eqn:Epr.
      destruct (resolve bcfg_fixed st s0 local r) as [[[s1 l1] ins1] pre1] eqn:Er. inversion H; subst.
      destruct (promote_nn _ _ _ _ Epr) as [A B]. eapply IH; eauto. eapply nn_same; eauto.
    + destruct (promote s l) as [s0 n] eqn:Epr. cbv zeta in H.
      match type of H with context [resolve bcfg_fixed st ?s3 (S local) r] =>
        destruct (resolve bcfg_fixed st s3 (S local) r) as [[[s1 l1] ins1] pre1] eqn:Er end.
      inversion H; subst. destruct (promote_nn _ _ _ _ Epr) as [A B].
      eapply IH; [exact Er|]. unfold note_anon.
      assert (Hb : nn_inv (bump s0 (node_name st "CastLike" (b_total s0)))) by (apply nn_bump; eapply nn_same; eauto).
      unfold cnt. cbn [shared_counter bcfg_fixed].
      eapply nn_same; [| |exact Hb]; reflexivity.
    + destruct (resolve bcfg_fixed st s local r) as [[[s1 l1] ins1] pre1] eqn:Er. inversion H; subst. eauto.
Qed.

Section NN.
  Variable rn : list (nat * string).

  Definition nn_call (c : call) : Prop := forall s local s' local' ns,
    build_call bcfg_fixed rn c s local = (s', local', ns) -> cfx_call c = true -> nn_inv s -> nn_inv s'.
  Definition nn_sub (sb : sub) : Prop := forall s s' g,
    build_sub bcfg_fixed rn sb s = (s', g) -> cfx_sub sb = true -> nn_inv s -> nn_inv s'.

  Lemma nn_calls : forall body, Forall nn_call body -> forall s local s' ns,
    build_calls bcfg_fixed rn body s local = (s', ns) -> forallb cfx_call body = true -> nn_inv s -> nn_inv s'.
  Proof.
    induction 1 as [|c r Hc Hr IH]; intros s local s' ns H Hcf Hi; cbn [build_calls] in H.
    - inversion H; subst. exact Hi.
    - destruct (build_call bcfg_fixed rn c s local) as [[s1 l1] ns1] eqn:Ec.
      destruct (build_calls bcfg_fixed rn r s1 l1) as [s2 ns2] eqn:Er. inversion H; subst.
      cbn [forallb] in Hcf. apply andb_true_iff in Hcf as [H1 H2]. eauto.
  Qed.

  Lemma nn_subs : forall subs, Forall (fun ks => nn_sub (snd ks)) subs -> forall s s' gs,
    build_subs bcfg_fixed rn subs s = (s', gs) -> cfx_subs subs = true -> nn_inv s -> nn_inv s'.
  Proof.
    induction 1 as [|[k sb] r Hc Hr IH]; intros s s' gs H Hcf Hi; cbn [build_subs] in H.
    - inversion H; subst. exact Hi.
    - destruct (build_sub bcfg_fixed rn sb s) as [s1 g] eqn:Ec.
      destruct (build_subs bcfg_fixed rn r s1) as [s2 gs2] eqn:Er. inversion H; subst.
      cbn [cfx_subs] in Hcf. apply andb_true_iff in Hcf as [H1 H2]. cbn [snd] in Hc. eauto.
  Qed.

  Lemma nn_all : forall c, nn_call c.
  Proof.
    apply (call_ind2 nn_call nn_sub).
    - intros st dom op args attrs subs outs Hs s local s' local' ns H Hcf Hi.
      rewrite build_call_eq in H. cbv zeta in H.
      destruct (build_subs bcfg_fixed rn subs s) as [s1 sgs] eqn:Es.
      destruct (resolve bcfg_fixed st s1 local args) as [[[s2 local2] ins] pre] eqn:Er.
      destruct (fresh_many rn s2 (out_names st op (cnt bcfg_fixed s2 local2) outs)) as [s3 onames] eqn:Ef.
      inversion H; subst. clear H. rewrite cfx_call_eq in Hcf.
      pose proof (nn_subs _ Hs _ _ _ Es Hcf Hi) as I1.
      pose proof (resolve_nn _ _ _ _ _ _ _ _ Er I1) as I2.
      destruct (fresh_many_nn _ _ _ _ _ Ef) as [A B].
      assert (I3 : nn_inv s3) by (eapply nn_same; eauto).
      unfold cnt. cbn [shared_counter bcfg_fixed]. rewrite <- A. now apply nn_bump.
    - intros a b c s local s' local' ns H Hcf. discriminate.
    - intros ins body rets decl Hb s s' g H Hcf Hi. rewrite build_sub_eq in H.
      destruct (fresh_many rn s ins) as [s1 inames] eqn:Ef.
      destruct (build_calls bcfg_fixed rn body s1 0) as [s2 nodes] eqn:Eb. inversion H; subst.
      destruct (fresh_many_nn _ _ _ _ _ Ef) as [A B]. rewrite cfx_sub_eq in Hcf.
      eapply nn_calls; eauto. eapply nn_same; eauto.
  Qed.
End NN.

Theorem node_names_unique_across_subgraphs_fixed : forall ins tr,
  cfx_trace tr = true -> NoDup (build_node_names bcfg_fixed ins tr).
Proof.
  intros ins tr Hcf. unfold build_node_names, build_state.
  destruct (build_calls bcfg_fixed (renames_calls tr) tr (init_state ins) 0) as [s nodes] eqn:Eb. cbn [fst].
  assert (Hi : nn_inv s).
  { eapply (nn_calls (renames_calls tr) tr); eauto.
    - apply Forall_forall. intros. apply nn_all.
    - split; [reflexivity|]. intros i Hi. cbn in Hi. lia. }
  destruct Hi as [H1 H2]. apply (NoDup_nth (b_nnames s) ""%string). intros i j Hi Hj E.
  rewrite H1 in Hi, Hj. destruct (H2 i Hi) as (st1 & op1 & E1). destruct (H2 j Hj) as (st2 & op2 & E2).
  rewrite E1, E2 in E. eapply node_name_inj; eauto.
Qed.

(* and they are exactly one name per node: as many names as nodes were counted *)
Theorem node_names_count : forall ins tr,
  cfx_trace tr = true ->
  List.length (build_node_names bcfg_fixed ins tr) = b_total (fst (build_state bcfg_fixed ins tr)).
Proof.
  intros ins tr Hcf. unfold build_node_names, build_state.
  destruct (build_calls bcfg_fixed (renames_calls tr) tr (init_state ins) 0) as [s nodes] eqn:Eb. cbn [fst].
  assert (Hi : nn_inv s).
  { eapply (nn_calls (renames_calls tr) tr); eauto.
    - apply Forall_forall. intros. apply nn_all.
    - split; [reflexivity|]. intros i Hi. cbn in Hi. lia. }
  exact (proj1 Hi).
Qed.
