(* C06 property theorems: statements only, each closed by `exact`, Print Assumptions beneath.

   Model of the matcher: Match/Matcher.v (`run`, `run_commute`, parameterised by `flags` = which of the five
   defects found in the pinned source are repaired; `flags_as_pinned` is the pinned behaviour, the
   correspondence check determines on every run which setting the implementation exhibits).
   Declarative meaning: Match/Spec.v (`instanceb g p cand sigma`, `removable`).

   Committed-choice meaning of patterns with OrValue: Match/Committed.v (`crun`, `cmatch`: one flat environment,
   ordered choice), proved equal to `run` for every pattern and graph (C06_match_iff_committed).

   Kept visible:
   * completeness with respect to the *unordered* meaning `instanceb` is false for patterns with OrValue
     (C06_match_complete_full, C06_or_committed_choice_refuted): an OR alternative that matches locally is committed
     (documented in docs/tutorial/rewriter/node_value_checkers.md).  The exact statement for those patterns is
     C06_match_iff_committed + the laws C06_or_first_alternative / C06_or_fails_iff;
   * the fifth repair flag `attr_fix`: AttrConstantPattern.matches as read raises TypeError for a scalar pattern against a
     list attribute of the same name (fixed in the repository, bbeff32); without it the matcher raises on the node and, with
     several output nodes, on any candidate tuple (C06_attr_scalar_vs_list_refuted); with it completeness for several
     output nodes needs no side condition on the attributes;
   * that the variants of commute() mean the pattern with swapped operands is by construction of `variant`
     (Match/CommuteProofs.v); a separate declarative characterisation of `variant` is not given;
   * constants: `isclose` over the rationals (the float32 value read from the tensor, the python float of the
     pattern); rounding inside math.isclose is not modelled: the random generators stay 3% away from the bound, the
     tolerance-boundary families (dyadic tolerances: every double operation of math.isclose is exact; decimal tolerances:
     the float32 neighbours of the bound on which the exact and the double verdict coincide) go up to the bound. *)
From Coq Require Import List ZArith String Bool QArith Qabs.
Close Scope Q_scope.
Require Import OV.Match.Pattern OV.Match.Matcher OV.Match.Spec OV.Match.SoundProofs OV.Match.CompleteProofs
  OV.Match.CommuteProofs OV.Match.Witness OV.Match.WitnessProofs
  OV.Match.Committed OV.Match.CommittedProofs OV.Match.MultiProofs OV.Match.FeatureProofs OV.Match.ExtraWitnessProofs.
Import ListNotations.

(* soundness, all pattern features (OR alternatives, several output nodes, optional inputs, attributes, ...):
   what is reported is an instance, the node list is the image of sigma, the outputs are sigma(outputs),
   and with the removability check the matched nodes are removable *)
Theorem C06_match_sound : forall fl g p,
  repaired fl = true ->
  forall root rm m,
  run fl p g root rm = Ok m ->
  exists cand, hd_error cand = Some root /\
    instanceb g p cand (sigma_of m) = true /\
    m_nodes m = rev (image (sigma_of m)) /\
    spec_outputs (gp_nodes p) (sigma_of m) (gp_outs p) = Some (m_outs m) /\
    (rm = true -> removable g (m_nodes m) (m_outs m)).
Proof. exact run_sound. Qed.
Print Assumptions C06_match_sound.

Example C06_match_sound_satisfiable :
  repaired flags_fixed = true /\ exists m, run flags_fixed p_or g_one_relu 2 true = Ok m /\ m_nodes m = [2; 1; 0].
Proof. exact sound_example. Qed.

(* completeness for OR-free patterns with one output node: every instance is found, and what is returned
   agrees with the instance on every pattern node and variable it binds *)
Theorem C06_match_complete_orfree_partial : forall fl p g root r s,
  repaired fl = true -> or_free p = true -> topo p = true ->
  output_nodes p = [r] -> outs_reachable p r ->
  instanceb g p [root] s = true ->
  exists m, run fl p g root false = Ok m /\
    (forall q n, assoc Nat.eqb q (m_nb m) = Some n -> node_is s q n = true) /\
    (forall x b, assoc String.eqb x (m_b m) = Some b -> var_is s x b = true \/ (b = BNone /\ In x (gp_inputs p))) /\
    (forall k v, assoc vkey_eqb k (m_vb m) = Some v -> key_is s k v = true).
Proof. exact run_complete_orfree. Qed.
Print Assumptions C06_match_complete_orfree_partial.

(* the full statement (any pattern) is false for the algorithm: an OR alternative that matches locally is kept *)
Definition C06_match_complete_full : Prop := forall fl p g root r s,
  repaired fl = true -> topo p = true -> output_nodes p = [r] -> outs_reachable p r ->
  instanceb g p [root] s = true -> exists m, run fl p g root false = Ok m.

Theorem C06_or_committed_choice_refuted :
  topo p_choice = true /\ output_nodes p_choice = [3] /\
  instanceb g_choice p_choice [2] s_choice = true /\
  run flags_fixed p_choice g_choice 2 false = Fail /\ run flags_as_pinned p_choice g_choice 2 false = Fail.
Proof. exact or_committed_choice_witness. Qed.
Print Assumptions C06_or_committed_choice_refuted.

(* ... and the exact statement for ALL patterns, OrValue and several output nodes included: the matcher (stack of
   partial matches, push / abandon / merge) reports exactly the committed-choice meaning of Match/Committed.v -- same
   verdict (match / no match / raises), same bindings, node map, node order and outputs.  Soundness and completeness
   with respect to that meaning in one equation. *)
Theorem C06_match_iff_committed : forall fl g p, repaired fl = true ->
  forall root rm, run fl p g root rm = crun (fresh_iter fl) (attr_fix fl) p g root rm.
Proof. exact run_eq_committed. Qed.
Print Assumptions C06_match_iff_committed.

Theorem C06_match_reported_iff_committed_instance : forall fl p g root rm m,
  repaired fl = true -> fresh_iter fl = true -> attr_fix fl = true ->
  (run fl p g root rm = Ok m <-> cmatch p g root rm m).
Proof. exact run_reports_iff_committed. Qed.
Print Assumptions C06_match_reported_iff_committed_instance.

(* the laws of the committed meaning.  An OrValue matches iff some alternative matches from the environment at the
   OrValue and all EARLIER alternatives fail from that same environment (first alternative whose sub-pattern
   matches); it fails iff it cannot stand for the value or every alternative fails; and a failure after an input
   has matched is the failure of the node (no return into later alternatives). *)
Theorem C06_or_first_alternative : forall g tbl rec k name tagv alts v e e',
  cvalue g tbl rec (POr k name tagv alts) v e = Ok e' <->
  boundary_blocks g (POr k name tagv alts) v = false /\
  exists e1 pre tag alt post e2,
    e_bind_value name (KObj k) v e = Some e1 /\
    alts = (pre ++ (tag, alt) :: post)%list /\
    (forall ta, In ta pre -> cvalue g tbl rec (snd ta) v e1 = Fail) /\
    cvalue g tbl rec alt v e1 = Ok e2 /\
    e_bind_tag tagv tag e2 = Ok e'.
Proof. exact cvalue_or_first. Qed.
Print Assumptions C06_or_first_alternative.

Theorem C06_or_fails_iff : forall g tbl rec k name tagv alts v e,
  cvalue g tbl rec (POr k name tagv alts) v e = Fail <->
  boundary_blocks g (POr k name tagv alts) v = true \/
  e_bind_value name (KObj k) v e = None \/
  exists e1, e_bind_value name (KObj k) v e = Some e1 /\
             forall ta, In ta alts -> cvalue g tbl rec (snd ta) v e1 = Fail.
Proof. exact cvalue_or_fail. Qed.
Print Assumptions C06_or_fails_iff.

Theorem C06_or_no_backtracking_after_commit : forall g tbl rec pv pins a ins e e1,
  cvalue g tbl rec pv a e = Ok e1 -> cinputs g tbl rec pins ins e1 = Fail ->
  cinputs g tbl rec (Some pv :: pins) (a :: ins) e = Fail.
Proof. exact cinputs_committed. Qed.
Print Assumptions C06_or_no_backtracking_after_commit.

(* committed meaning vs. unordered meaning: every committed match is an instance; without OrValue they coincide *)
Theorem C06_committed_is_instance : forall fresh afix p g root rm m,
  crun fresh afix p g root rm = Ok m ->
  exists cand, hd_error cand = Some root /\
    instanceb g p cand (sigma_of m) = true /\
    m_nodes m = rev (image (sigma_of m)) /\
    spec_outputs (gp_nodes p) (sigma_of m) (gp_outs p) = Some (m_outs m) /\
    (rm = true -> removable g (m_nodes m) (m_outs m)).
Proof. exact committed_is_instance. Qed.
Print Assumptions C06_committed_is_instance.

Theorem C06_committed_iff_instance_orfree : forall p g root r,
  or_free p = true -> topo p = true -> output_nodes p = [r] -> outs_reachable p r ->
  ((exists m, cmatch p g root false m) <-> (exists s, instanceb g p [root] s = true)).
Proof. exact committed_iff_instance_orfree. Qed.
Print Assumptions C06_committed_iff_instance_orfree.

Example C06_committed_satisfiable :
  (exists m, crun true true p_or g_one_relu 2 true = Ok m /\ m_nodes m = [2; 1; 0]) /\
  (exists m, crun true true p_or g_or_second 3 true = Ok m /\ m_nodes m = [3; 2; 1; 0] /\
             run flags_fixed p_or g_or_second 3 true = Ok m) /\
  crun true true p_choice g_choice 2 false = Fail /\ instanceb g_choice p_choice [2] s_choice = true.
Proof. exact committed_example. Qed.

(* several output nodes (shared interior nodes allowed), OR-free: an instance whose first output node is the given
   node and whose other output nodes are nodes of the matched graph is matched -- whatever the other candidate
   tuples are.  (What is returned is the match of the first candidate tuple, in candidate order, that carries an
   instance: C06_match_sound.) *)
Theorem C06_match_complete_orfree_multi : forall fl g p s root rest,
  repaired fl = true -> fresh_iter fl = true -> attr_fix fl = true ->
  or_free p = true -> topo p = true ->
  outs_reachable_multi p ->
  root < List.length (g_nodes g) ->
  Forall (fun n => own_node g n = true) rest ->
  instanceb g p (root :: rest) s = true ->
  exists m, run fl p g root false = Ok m.
Proof. exact run_complete_orfree_multi_instance. Qed.
Print Assumptions C06_match_complete_orfree_multi.

(* the two halves: every such instance sits on a candidate tuple; and the matcher never raises on a candidate tuple *)
Theorem C06_instance_in_candidates : forall fl g p s root rest,
  fresh_iter fl = true ->
  instanceb g p (root :: rest) s = true ->
  Forall (fun n => own_node g n = true) rest ->
  In (root :: rest) (candidates fl p g root).
Proof. exact instance_in_candidates. Qed.
Print Assumptions C06_instance_in_candidates.

Theorem C06_matcher_does_not_raise_orfree : forall fl g p,
  repaired fl = true -> or_free p = true -> topo p = true ->
  attr_fix fl = true \/ attrs_typed (gp_nodes p) g = true ->
  (forall r, In r (output_nodes p) -> r < List.length (gp_nodes p)) ->
  forall cand, List.length cand = List.length (output_nodes p) ->
  Forall (fun n => n < List.length (g_nodes g)) cand ->
  try_candidate fl g p false cand <> Err.
Proof. exact try_candidate_no_err. Qed.
Print Assumptions C06_matcher_does_not_raise_orfree.

Example C06_match_complete_multi_satisfiable :
  or_free p_two_roots = true /\ topo p_two_roots = true /\ attr_fix flags_fixed = true /\
  outs_reachable_multi p_two_roots /\ 0 < List.length (g_nodes g_two_roots) /\
  Forall (fun n => own_node g_two_roots n = true) [2] /\
  instanceb g_two_roots p_two_roots [0; 2] s_two_roots = true /\
  In [0; 2] (candidates flags_fixed p_two_roots g_two_roots 0) /\
  exists m, run flags_fixed p_two_roots g_two_roots 0 false = Ok m /\ m_nodes m = [0; 2].
Proof. exact multi_full_example. Qed.

(* hence the instance at a root is unique on what the matcher binds *)
Theorem C06_instance_unique_orfree : forall fl p g root r s1 s2,
  repaired fl = true -> or_free p = true -> topo p = true ->
  output_nodes p = [r] -> outs_reachable p r ->
  instanceb g p [root] s1 = true -> instanceb g p [root] s2 = true ->
  exists m, run fl p g root false = Ok m /\
    (forall q n, assoc Nat.eqb q (m_nb m) = Some n -> node_is s1 q n = true /\ node_is s2 q n = true).
Proof. exact instance_unique_orfree. Qed.
Print Assumptions C06_instance_unique_orfree.

Example C06_match_complete_satisfiable :
  or_free p_plain = true /\ topo p_plain = true /\ output_nodes p_plain = [2] /\ outs_reachable p_plain 2 /\
  instanceb g_plain p_plain [2] s_plain = true /\
  exists m, run flags_fixed p_plain g_plain 2 false = Ok m /\ m_nb m = [(0, 0); (1, 1); (2, 2)].
Proof. exact complete_example. Qed.

(* removability: the executable check is the declarative condition, and (one output node) matching with the
   check = matching without it + the matched nodes are removable *)
Theorem C06_valid_to_replace_iff : forall g matched outs,
  valid_to_replace g matched outs = true <-> removable g matched outs.
Proof. exact valid_to_replace_iff. Qed.
Print Assumptions C06_valid_to_replace_iff.

Theorem C06_removable_iff : forall fl p g root r m,
  out_fail fl = true -> output_nodes p = [r] ->
  (run fl p g root true = Ok m <-> run fl p g root false = Ok m /\ removable g (m_nodes m) (m_outs m)).
Proof. exact removable_iff. Qed.
Print Assumptions C06_removable_iff.

Example C06_removable_satisfiable :
  (exists m, run flags_fixed p_plain g_plain_used 2 false = Ok m) /\ run flags_fixed p_plain g_plain_used 2 true = Fail.
Proof. exact removable_example. Qed.

(* commute: the rules of the commuted rule set are exactly the variants of the admissible swap choices (any
   subset of the commutative binary nodes), a match of the rule set is a match of one of them, and no match is
   reported exactly when none of them matches *)
Theorem C06_commute_variants : forall p ps, commute p = Ok ps ->
  forall v, In v ps <-> exists sw, admissible (gp_nodes p) sw /\ variant p sw = Some v.
Proof. exact commute_variants. Qed.
Print Assumptions C06_commute_variants.

(* the copies keep every value pattern (a Constant with its value, rel_tol and abs_tol) and only reverse the operands *)
Theorem C06_commute_swap_keeps_patterns : forall np np', swap_node np = Some np' ->
  np_ins np' = rev (np_ins np) /\ np_op np' = np_op np /\ np_dom np' = np_dom np /\ np_attrs np' = np_attrs np /\
  np_other_attrs np' = np_other_attrs np /\ np_other_ins np' = np_other_ins np /\ np_outs np' = np_outs np.
Proof. exact swap_node_keeps. Qed.
Print Assumptions C06_commute_swap_keeps_patterns.

Theorem C06_commute_closure : forall fl p g root rm,
  (forall i m, run_commute fl p g root rm = Ok (i, m) ->
     exists sw v, admissible (gp_nodes p) sw /\ variant p sw = Some v /\ run fl v g root rm = Ok m) /\
  (run_commute fl p g root rm = Fail <->
     forall sw v, admissible (gp_nodes p) sw -> variant p sw = Some v -> run fl v g root rm = Fail).
Proof. exact commute_closure. Qed.
Print Assumptions C06_commute_closure.

Example C06_commute_satisfiable :
  run flags_fixed p_plain g_plain_swapped 2 true = Fail /\
  exists m, run_commute flags_fixed p_plain g_plain_swapped 2 true = Ok (1, m).
Proof. exact commute_example. Qed.

(* the pinned behaviour violates soundness in two ways (findings; replayed on the real matcher by the harness:
   corpus/C06/f16_merge.json, corpus/C06/outputs.json) *)
(* the fifth finding (fixed: bbeff32): as read, a scalar constant attribute pattern against a list-valued attribute raises --
   on the node itself, and on an earlier candidate tuple of a pattern with several output nodes, whose instance on a later
   tuple is then not matched (completeness for several output nodes is false for that setting without `attrs_typed`) *)
Theorem C06_attr_scalar_vs_list_refuted :
  run flags_attr_as_read p_attr_scalar g_attr_list 0 false = Err /\
  run flags_fixed p_attr_scalar g_attr_list 0 false = Fail /\
  or_free p_two_roots_attr = true /\ topo p_two_roots_attr = true /\
  instanceb g_two_roots_attr p_two_roots_attr [0; 2] s_two_roots_attr = true /\
  In [0; 2] (candidates flags_attr_as_read p_two_roots_attr g_two_roots_attr 0) /\
  attrs_typed (gp_nodes p_two_roots_attr) g_two_roots_attr = false /\
  run flags_attr_as_read p_two_roots_attr g_two_roots_attr 0 false = Err /\
  exists m, run flags_fixed p_two_roots_attr g_two_roots_attr 0 false = Ok m /\ m_nodes m = [0; 2].
Proof. exact attr_scalar_vs_list_witness. Qed.
Print Assumptions C06_attr_scalar_vs_list_refuted.

Theorem C06_merge_loses_bindings_refuted :
  exists m, run flags_as_pinned p_or g_two_relus 3 true = Ok m /\
            m_nodes m = [3; 2; 0; 1] /\
            (forall s, instanceb g_two_relus p_or [3] s = false) /\
            run flags_fixed p_or g_two_relus 3 true = Fail.
Proof. exact merge_loses_bindings_witness. Qed.
Print Assumptions C06_merge_loses_bindings_refuted.

Theorem C06_output_count_refuted :
  exists m, run flags_as_pinned p_two_outs g_one_out 1 true = Ok m /\
            m_outs m = [] /\ gp_outs p_two_outs <> [] /\
            (forall s, instanceb g_one_out p_two_outs [1] s = false) /\
            run flags_fixed p_two_outs g_one_out 1 true = Fail.
Proof. exact output_count_witness. Qed.
Print Assumptions C06_output_count_refuted.

(* ------------------------------------------------------------------ bindings are exactly the instance's *)
(* OR-free, one output node: what is returned is an instance (nothing missing) and lies below every instance at that
   node -- pattern nodes, variables, attribute variables (BAttr), None, unnamed value patterns (nothing extra); the
   only other entries are the pattern inputs that were not reached, bound to None.  With OrValue / several output
   nodes the returned bindings are those of the committed instance: C06_match_iff_committed. *)
Theorem C06_bindings_exact_orfree : forall fl p g root r m,
  repaired fl = true -> or_free p = true -> topo p = true -> output_nodes p = [r] -> outs_reachable p r ->
  run fl p g root false = Ok m ->
  instanceb g p [root] (sigma_of m) = true /\
  spec_outputs (gp_nodes p) (sigma_of m) (gp_outs p) = Some (m_outs m) /\
  forall s, instanceb g p [root] s = true ->
    (forall q n, assoc Nat.eqb q (m_nb m) = Some n -> node_is s q n = true) /\
    (forall x b, assoc String.eqb x (m_b m) = Some b -> var_is s x b = true \/ (b = BNone /\ In x (gp_inputs p))) /\
    (forall k v, assoc vkey_eqb k (m_vb m) = Some v -> key_is s k v = true).
Proof. exact bindings_exact_orfree. Qed.
Print Assumptions C06_bindings_exact_orfree.

Example C06_bindings_exact_satisfiable :
  exists m, run flags_fixed p_plain g_plain 2 false = Ok m /\
    m_b m = [("x"%string, BVal 0)] /\ m_nb m = [(0, 0); (1, 1); (2, 2)] /\
    instanceb g_plain p_plain [2] s_plain = true.
Proof. exact bindings_exact_example. Qed.

(* ------------------------------------------------------------------ the documented meaning, feature by feature *)
(* what the instance conditions say; both directions of the matcher with respect to them are C06_match_sound and the
   completeness theorems above *)
Theorem C06_attr_constant_agrees : forall s h name c,
  attr_local s h (name, APConst c) = true <->
  exists a, assoc String.eqb name (h_attrs h) = Some a /\ attr_const_matches c a = Some true.
Proof. exact attr_const_local_iff. Qed.
Print Assumptions C06_attr_constant_agrees.

Theorem C06_attr_constant_equal : forall c a,
  attr_const_matches c a = Some true <-> c = a \/ (c = AStr EmptyString /\ a = AInts []).
Proof. exact attr_const_matches_true. Qed.
Print Assumptions C06_attr_constant_equal.

Theorem C06_attr_variable_binds : forall s h name x none_ok,
  attr_local s h (name, APVar (Some x) none_ok) = true <->
  (exists a, assoc String.eqb name (h_attrs h) = Some a /\ var_is s x (BAttr name a) = true) \/
  (assoc String.eqb name (h_attrs h) = None /\ none_ok = true /\ var_is s x BNone = true).
Proof. exact attr_var_local_iff. Qed.
Print Assumptions C06_attr_variable_binds.

Theorem C06_no_other_attributes : forall np h,
  no_other_attrs np h = true <->
  forall name a, In (name, a) (h_attrs h) -> exists ap, assoc String.eqb name (np_attrs np) = Some ap.
Proof. exact no_other_attrs_iff. Qed.
Print Assumptions C06_no_other_attributes.

Theorem C06_inputs_positionwise : forall g s pins ins,
  inputs_local g s pins ins = true <->
  forall i pp, nth_error pins i = Some pp ->
    match pp with
    | None => nth i ins None = None
    | Some pv => vlocal g s pv (nth i ins None) = true
    end.
Proof. exact inputs_local_iff. Qed.
Print Assumptions C06_inputs_positionwise.

Theorem C06_extra_inputs_only_if_allowed : forall g s p np h, nlocal g s p np h = true ->
  List.length (h_ins h) <= List.length (np_ins np) \/ np_other_ins np = true.
Proof. exact input_count_iff. Qed.
Print Assumptions C06_extra_inputs_only_if_allowed.

(* (session 6: constants of any shape are in the model -- `cval_view cv` = (shape, elements in row-major order); the
   statement is the earlier one with "0-d" / "shape (len,)" spelled through the view, see Props/C06_const.v) *)
Theorem C06_constant_within_tolerance : forall g q rel abs x,
  const_ok g (CPScalar q rel abs) x = true <->
  exists cv y, assoc Nat.eqb x (g_consts g) = Some cv /\ cval_view cv = Some ([], [y]) /\ isclose y q rel abs = true.
Proof. exact const_scalar_iff. Qed.
Print Assumptions C06_constant_within_tolerance.

Theorem C06_isclose_meaning : forall a b rel abs,
  isclose a b rel abs = true <->
  (Qabs (a - b) <= rel * qmax (Qabs a) (Qabs b))%Q \/ (Qabs (a - b) <= abs)%Q.
Proof. exact isclose_iff. Qed.
Print Assumptions C06_isclose_meaning.

Theorem C06_constant_list : forall g ps rel abs x,
  const_ok g (CPVec ps rel abs) x = true <->
  exists cv ys, assoc Nat.eqb x (g_consts g) = Some cv /\ cval_view cv = Some ([List.length ps], ys) /\
                all_close ys ps rel abs = true.
Proof. exact const_vector_iff. Qed.
Print Assumptions C06_constant_list.

(* scalar pattern vs 1-element tensor, list pattern vs scalar *)
Theorem C06_scalar_pattern_not_vector : forall g q rel abs x ys,
  assoc Nat.eqb x (g_consts g) = Some (CVec ys) -> const_ok g (CPScalar q rel abs) x = false.
Proof. exact const_scalar_not_vector. Qed.
Print Assumptions C06_scalar_pattern_not_vector.

Theorem C06_list_pattern_not_scalar : forall g ps rel abs x y,
  assoc Nat.eqb x (g_consts g) = Some (CScalar y) -> const_ok g (CPVec ps rel abs) x = false.
Proof. exact const_vector_not_scalar. Qed.
Print Assumptions C06_list_pattern_not_scalar.

Example C06_features_satisfiable :
  exists m, run flags_fixed p_feat g_feat 0 true = Ok m /\
    m_b m = [("hi"%string, BNone); ("x"%string, BVal 0); ("m"%string, BNone)] /\ m_nb m = [(0, 0)] /\ m_outs m = [BVal 2].
Proof. exact feature_example. Qed.
