(* C05, CastCast / cast_constant_of_shape / ScatterAllStatic: statements only. *)
From Coq Require Import ZArith List Bool Arith.
Require Import OV.Rules.Cast OV.Rules.CastProofs OV.Rules.ScatterND OV.Rules.ScatterNDProofs.
Import ListNotations.
Open Scope Z_scope.

(* CastCast is right when the source value is representable in the intermediate type (round-to-nearest-even model of the
   narrowing casts inside one binade) -- a condition on the *source* type that `check` does not look at *)
Theorem C05_castcast_representable : forall g1 g2 x, 0 <= g1 -> x mod 2 ^ g1 = 0 -> rne g2 (rne g1 x) = rne g2 x.
Proof. exact castcast_sound_if_representable. Qed.
Print Assumptions C05_castcast_representable.

(* from float64 it is double rounding: finding C05:castcast:double-rounding-wider-source *)
Theorem C05_castcast_double_rounding_refuted : exists x, cc_check FLOAT FLOAT16 = true /\ to_f16 (to_f32 x) <> to_f16 x.
Proof. exact castcast_double_rounding_refuted. Qed.
Print Assumptions C05_castcast_double_rounding_refuted.

Theorem C05_cast_constant_of_shape : forall (A B : Type) (f : A -> B) v n,
  map f (const_of_shape n v) = const_of_shape n (f v).
Proof. exact cast_constant_of_shape_sound. Qed.
Print Assumptions C05_cast_constant_of_shape.

Theorem C05_cast_constant_of_shape_int_value : forall lo hi v w,
  lo <= hi -> np_int_conv lo hi v = Some w -> w = onnx_int_cast lo hi v.
Proof. exact np_int_conv_sound. Qed.
Print Assumptions C05_cast_constant_of_shape_int_value.

Theorem C05_scatter_all_static : forall (A : Type) (data upd : list A),
  length data = length upd -> scatter take_update data (seq 0 (length upd)) upd = upd.
Proof. exact scatter_all_static_sound. Qed.
Print Assumptions C05_scatter_all_static.

(* reduction attribute ignored: finding C05:scatternd-static:reduction-attribute-ignored *)
Theorem C05_scatter_all_static_reduction_refuted : exists data upd : list Z,
  length data = length upd /\ scatter Z.add data (seq 0 (length upd)) upd <> upd.
Proof. exact scatter_all_static_reduction_refuted. Qed.
Print Assumptions C05_scatter_all_static_reduction_refuted.

(* ScatterAllDynamic: wherever `check` accepts (constant axis, both shapes known, same_dim(data.shape[axis], transposed.shape[0])),
   for every runtime shape the annotations denote, ScatterND over Range(0, Shape(data)[axis]) returns `updates` *)
Theorem C05_scatter_all_dynamic : forall (A : Type) val ds ts a (dsh tsh : list Z) n (tdata upd : list A),
  da_check (Some ds) (Some ts) (Some a) = Fire ->
  Forall2 (dim_denotes val) ds dsh -> Forall2 (dim_denotes val) ts tsh ->
  py_index dsh a = Some n ->
  hd_error tsh = Some (Z.of_nat (length tdata)) ->
  length upd = Z.to_nat n ->
  scatter take_update tdata (full_range n) upd = upd.
Proof. exact scatter_all_dynamic_sound. Qed.
Print Assumptions C05_scatter_all_dynamic.

Theorem C05_scatter_all_dynamic_near_misses :
  da_check (Some [St 2; St 3]) (Some [St 3; St 2]) (Some 0%Z) = NoFire /\
  da_check (Some [Sy 0; St 3]) (Some [Sy 1; St 3]) (Some 0%Z) = NoFire /\
  da_check (Some [Un; St 3]) (Some [Un; St 3]) (Some 0%Z) = NoFire /\
  da_check (Some [St 2; St 3]) (Some [St 3; St 2]) None = NoFire /\
  da_check None (Some [St 3; St 2]) (Some 1%Z) = NoFire /\ da_check (Some [St 2; St 3]) None (Some 1%Z) = NoFire /\
  scatter take_update [10; 20; 30]%Z (full_range 2) [1; 2]%Z <> [1; 2]%Z.
Proof. exact scatter_all_dynamic_near_miss. Qed.
Print Assumptions C05_scatter_all_dynamic_near_misses.
