(* C14 part B -- rule singletons and pass objects keep per-call state on `self`.
   A tiny imperative language for the bodies of check()/rewrite() (and of FoldConstantsPass.call)
   reduced to what matters here: which fields of `self` are read, which are written, branching,
   loops, helper calls, returns and raises.  Values of expressions are arbitrary: an `oracle` maps
   everything evaluated so far (the trace -- this fixes all local variables, the matched nodes, the
   model) and the values of the fields the expression reads to its value, or to None when the
   evaluation raises.  Reading an unset field raises (AttributeError).
   `ana` is a forward must-definition analysis.  No proofs in this file (MustDefProofs.v). *)
From Coq Require Import List String Bool Arith.
Import ListNotations.
Local Open Scope string_scope.

Definition field := string.
Definition value := nat.
Definition state := field -> option value.           (* the object's __dict__ (None = attribute absent) *)
Definition trace := list value.                      (* every value computed so far, most recent first *)
Definition oracle := trace -> list value -> option value.

Inductive stmt :=
| Skip
| Seq (a b : stmt)
| Read (fs : list field)                 (* evaluate something that reads self.f for f in fs *)
| Write (f : field) (fs : list field)    (* self.f = <expr reading fs>;  self.f[i] = e  is  Write f (f :: ...) *)
| If (fs : list field) (a b : stmt)      (* condition reads fs *)
| Loop (fs : list field) (body : stmt)   (* for / while: the iterator / condition reads fs *)
| Call (body : stmt)                     (* inlined helper method: a return inside ends the helper only *)
| CallChk (body onfail : stmt)           (* r = self.helper(..) / super().check(..);  if not r: <onfail>
                                            the helper's result is tested: onfail runs exactly when it is falsy *)
| Ret (may_succeed : bool) (fs : list field)
      (* return <expr reading fs>; may_succeed = false when the returned value is certainly falsy
         (`return check_result.fail(..)`, `return None`, `return False`) *)
| Abort.                                 (* raise *)

Fixpoint seq (l : list stmt) : stmt :=
  match l with [] => Skip | [a] => a | a :: r => Seq a (seq r) end.

Inductive outcome := Normal | Returned (ok : bool) | Aborted | OutOfFuel.

Definition upd (s : state) (f : field) (v : value) : state :=
  fun g => if String.eqb g f then Some v else s g.

Fixpoint read_all (s : state) (fs : list field) : option (list value) :=
  match fs with
  | [] => Some []
  | f :: r => match s f, read_all s r with
              | Some v, Some vs => Some (v :: vs)
              | _, _ => None
              end
  end.

Definition eval (orc : oracle) (s : state) (tr : trace) (fs : list field) : option value :=
  match read_all s fs with Some vs => orc tr vs | None => None end.

Fixpoint exec (orc : oracle) (fuel : nat) (p : stmt) (s : state) (tr : trace) : outcome * state * trace :=
  match fuel with
  | O => (OutOfFuel, s, tr)
  | S n =>
    match p with
    | Skip => (Normal, s, tr)
    | Seq a b =>
        match exec orc n a s tr with
        | (Normal, s', tr') => exec orc n b s' tr'
        | r => r
        end
    | Read fs =>
        match eval orc s tr fs with Some v => (Normal, s, v :: tr) | None => (Aborted, s, tr) end
    | Write f fs =>
        match eval orc s tr fs with Some v => (Normal, upd s f v, v :: tr) | None => (Aborted, s, tr) end
    | If fs a b =>
        match eval orc s tr fs with
        | Some v => if Nat.eqb v 0 then exec orc n b s (v :: tr) else exec orc n a s (v :: tr)
        | None => (Aborted, s, tr)
        end
    | Loop fs body =>
        match eval orc s tr fs with
        | Some v =>
            if Nat.eqb v 0 then (Normal, s, v :: tr)
            else match exec orc n body s (v :: tr) with
                 | (Normal, s', tr') => exec orc n (Loop fs body) s' tr'
                 | r => r
                 end
        | None => (Aborted, s, tr)
        end
    | Call body =>
        match exec orc n body s tr with
        | (Returned _, s', tr') => (Normal, s', tr')
        | r => r
        end
    | CallChk body onfail =>
        match exec orc n body s tr with
        | (Returned true, s', tr') => (Normal, s', tr')
        | (Returned false, s', tr') => exec orc n onfail s' tr'
        | (Normal, s', tr') => exec orc n onfail s' tr'      (* fell off the end: returns None *)
        | r => r
        end
    | Ret may fs =>
        match eval orc s tr fs with
        | Some v => (Returned (may && negb (Nat.eqb v 0)), s, v :: tr)
        | None => (Aborted, s, tr)
        end
    | Abort => (Aborted, s, tr)
    end
  end.

(* one match attempt on a rule object: check(); rewrite() only when check returned a truthy result.
   What the rest of the process can see: both outcomes and everything that was computed. *)
Definition run_match (orc : oracle) (fuel : nat) (check rewrite : stmt) (s : state) (tr : trace)
  : outcome * option outcome * trace * state :=
  match exec orc fuel check s tr with
  | (Returned true, s', tr') =>
      match exec orc fuel rewrite s' tr' with (o2, s'', tr'') => (Returned true, Some o2, tr'', s'') end
  | (o, s', tr') => (o, None, tr', s')
  end.

Definition observable (r : outcome * option outcome * trace * state) : outcome * option outcome * trace :=
  match r with (o, o2, tr, _) => (o, o2, tr) end.

(* ------------------------------------------------------------------------------------------------
   must-definition analysis.  A "top set" is None = unreachable (meet identity) or Some fields. *)
Definition fset := list field.
Definition mem (f : field) (D : fset) : bool := existsb (String.eqb f) D.
Definition subset (a D : fset) : bool := forallb (fun f => mem f D) a.
Definition inter (a b : fset) : fset := filter (fun f => mem f b) a.
Definition tset := option fset.
Definition meet (a b : tset) : tset :=
  match a, b with
  | None, x => x
  | x, None => x
  | Some x, Some y => Some (inter x y)
  end.

Record flow := { norm : tset;      (* fields certainly set (or configuration) when falling through *)
                 ret_ok : tset;    (* ... at every return that may be a success *)
                 ret_any : tset }. (* ... at every return *)

Fixpoint ana (p : stmt) (D : fset) : option flow :=
  match p with
  | Skip => Some {| norm := Some D; ret_ok := None; ret_any := None |}
  | Seq a b =>
      match ana a D with
      | None => None
      | Some ra =>
          match norm ra with
          | None => Some ra            (* b unreachable *)
          | Some D' =>
              match ana b D' with
              | None => None
              | Some rb => Some {| norm := norm rb; ret_ok := meet (ret_ok ra) (ret_ok rb);
                                   ret_any := meet (ret_any ra) (ret_any rb) |}
              end
          end
      end
  | Read fs => if subset fs D then Some {| norm := Some D; ret_ok := None; ret_any := None |} else None
  | Write f fs => if subset fs D then Some {| norm := Some (f :: D); ret_ok := None; ret_any := None |} else None
  | If fs a b =>
      if subset fs D then
        match ana a D, ana b D with
        | Some ra, Some rb => Some {| norm := meet (norm ra) (norm rb); ret_ok := meet (ret_ok ra) (ret_ok rb);
                                      ret_any := meet (ret_any ra) (ret_any rb) |}
        | _, _ => None
        end
      else None
  | Loop fs body =>
      if subset fs D then
        match ana body D with
        | Some rb =>
            (* writes only add fields, so the set after the body always contains D; checked rather
               than proved: the analysis certifies its own loop invariant *)
            if match norm rb with Some D' => subset D D' | None => true end
            then Some {| norm := Some D; ret_ok := ret_ok rb; ret_any := ret_any rb |}
            else None
        | None => None
        end
      else None
  | Call body =>
      match ana body D with
      | Some rb => Some {| norm := meet (norm rb) (ret_any rb); ret_ok := None; ret_any := None |}
      | None => None
      end
  | CallChk body onfail =>
      match ana body D with
      | None => None
      | Some rb =>
          match meet (norm rb) (ret_any rb) with
          | None => Some {| norm := None; ret_ok := None; ret_any := None |}   (* the helper only raises *)
          | Some Df =>
              match ana onfail Df with
              | None => None
              | Some rf => Some {| norm := meet (ret_ok rb) (norm rf); ret_ok := ret_ok rf; ret_any := ret_any rf |}
              end
          end
      end
  | Ret may fs =>
      if subset fs D then Some {| norm := None; ret_ok := if may then Some D else None; ret_any := Some D |}
      else None
  | Abort => Some {| norm := None; ret_ok := None; ret_any := None |}
  end.

(* all fields written anywhere *)
Fixpoint writes (p : stmt) : fset :=
  match p with
  | Skip | Read _ | Ret _ _ | Abort => []
  | Seq a b | If _ a b | CallChk a b => (writes a ++ writes b)%list
  | Write f _ => [f]
  | Loop _ b | Call b => writes b
  end.

(* A rule: its configuration fields (assigned by __init__ / class attributes, never by the protocol
   methods), check and rewrite. *)
Record rule := { r_name : string; r_config : fset; r_check : stmt; r_rewrite : stmt }.

Definition disjoint (a b : fset) : bool := forallb (fun f => negb (mem f b)) a.

Definition rule_ok (r : rule) : bool :=
  disjoint (writes (r_check r) ++ writes (r_rewrite r))%list (r_config r) &&
  match ana (r_check r) (r_config r) with
  | None => false
  | Some fc =>
      match ret_ok fc with
      | None => true                                  (* check never succeeds: rewrite never runs *)
      | Some D => match ana (r_rewrite r) D with Some _ => true | None => false end
      end
  end.

Definition bad_rules (l : list rule) : list string := map r_name (filter (fun r => negb (rule_ok r)) l).

(* identity-keyed per-graph caches (CosSinCacheFusion._inv_freq_cos_sin_cache): a finite map from
   keys (objects of the model being rewritten) to values; the stale part left by earlier graphs *)
Definition cache := list (nat * value).
Fixpoint lookup (k : nat) (c : cache) : option value :=
  match c with [] => None | (k', v) :: r => if Nat.eqb k k' then Some v else lookup k r end.

(* RewriteRuleSet.apply_to_model keeps the naming state for values created by replacements on the
   rule-set object (`_used_value_names`, `_value_name_counter`); the default rule set is a module-level
   object shared by all rewriter.rewrite calls of the process.  As read on 2026-09-26 the method re-initialises
   only `_used_value_names`: the counter continues where the previous model left it. *)
Definition ruleset_body (reset_counter : bool) : stmt :=
  seq [Write "_used_value_names" [];
       (if reset_counter then Write "_value_name_counter" [] else Skip);
       Loop ["rules"]
         (seq [Write "_value_name_counter" ["_value_name_counter"];
               Write "_used_value_names" ["_used_value_names"; "_value_name_counter"]]);
       Ret true []].

Definition ruleset_as_read : rule :=
  {| r_name := "RewriteRuleSet.apply_to_model (as read: counter not reset)"; r_config := ["rules"];
     r_check := ruleset_body false; r_rewrite := Skip |}.
Definition ruleset_reset : rule :=
  {| r_name := "RewriteRuleSet.apply_to_model (counter reset per model)"; r_config := ["rules"];
     r_check := ruleset_body true; r_rewrite := Skip |}.

(* the state __init__ leaves: rules set, no names in use, counter 0 *)
Definition ruleset_init : state :=
  fun f => if String.eqb f "rules" then Some 1
           else if String.eqb f "_value_name_counter" then Some 0
           else if String.eqb f "_used_value_names" then Some 0 else None.

(* an oracle for the witness: the loop runs while fewer than 6 values have been computed; every value is
   1 + the sum of what was read (so the counter counts) *)
Definition counting_oracle : oracle :=
  fun tr vs => if Nat.ltb (List.length tr) 6 then Some (1 + fold_right Nat.add 0 vs) else Some 0.
