(* Model of the statement emission of onnxscript/backend/onnx_export.py for straight-line graphs (C13):

     _Exporter._translate_graph       (def line, body, `return`)          -> export_graph
     _Exporter._translate_graph_body  (initializers as Constant nodes,
                                       then the nodes in order)           -> emit_init / emit_all emit_node
     _Exporter._translate_node        (lines 604-634: the generic call)   -> emit_node
     _Exporter._translate_onnx_var    ("" -> None)                        -> in_expr / in_name
     output_names of _translate_node  ("" -> _<index>)                    -> out_names
     _Exporter._translate_attributes  (order kept; ref attribute -> name) -> kw_of_attr

   The Python program is first-order data of OV.Script.Syntax (`opset<N>.Op(...)` of the default domain is
   `ECall (COp Op)`); its meaning is OV.Script.PySem.eval_script.  The graph is OV.Graph.Syntax with ONE
   convention of this file: an omitted node output stays in `outs` as the empty name (its position matters to
   the exporter, which prints `_<index>` for it); omitted inputs are `None` as everywhere.

   Two renamers, as in the source: `prename` names the parameters on the `def` line (for a ModelProto the source
   uses _cleanup_variable_name there whatever the options say), `rename` names every other occurrence
   (self._rename_variable: the clean-up, or the short names under rename=True).  The name of the Constant
   emitted for an initializer is renamed twice, as the source does (make_node receives the translated name and
   _translate_node translates its output again).

   Outside the model (export_graph = None): nodes of another domain than "", If/Loop/Scan, nodes carrying graph
   attributes or attributes the source cannot print (AOther), nodes without outputs.  Not modelled at all: the
   options use_operators / inline_const / skip_initializers (all off here), the text of attribute values (they
   are carried as values), type annotations, comments, doc strings, the import lines.
   No proofs in this file. *)
From Coq Require Import List String Ascii Bool Arith ZArith DecimalString.
Require Import OV.Export.Cleanup.
Require Import OV.Graph.Syntax OV.Graph.Names OV.Graph.Sem OV.Script.Syntax OV.Script.Translate OV.Gen.ScriptTables.
Import ListNotations.
Local Open Scope string_scope.

Definition nat_str (k : nat) : string := NilEmpty.string_of_uint (Nat.to_uint k).
(* f"_{i}" *)
Definition placeholder (i : nat) : string := "_" ++ nat_str i.
Definition is_empty (s : string) : bool := String.eqb s "".
Definition nonempty (s : string) : bool := negb (is_empty s).
Definition is_nil {A} (l : list A) : bool := match l with [] => true | _ => false end.

(* `name=value` / `name=ref_attr_name` *)
Definition kw_of_attr (a : string * attrv) : string * kwarg :=
  match a with
  | (k, ARef x) => (k, KName x)
  | (k, v) => (k, KLit v)
  end.
Definition is_other (a : string * attrv) : bool := match snd a with AOther _ => true | _ => false end.

(* node.op_type in {"If", "Loop", "Scan"} (the source does not look at the domain there) *)
Definition is_cf (op : string) : bool := String.eqb op "If" || String.eqb op "Loop" || String.eqb op "Scan".

Fixpoint emit_all {A} (f : A -> option (list stmt)) (l : list A) : option (list stmt) :=
  match l with
  | [] => Some []
  | a :: t => match f a, emit_all f t with
              | Some s, Some r => Some (s ++ r)%list
              | _, _ => None
              end
  end.

Section Emit.
  Variable kw : list string.                     (* keyword table of the source (Gen/ExportTables.kwlist) *)
  Variable prename rename : vname -> string.

  (* output_names: `_<i>` for an omitted output, the translated name otherwise *)
  Fixpoint out_names (i : nat) (outs : list vname) : list string :=
    match outs with
    | [] => []
    | o :: t => (if is_empty o then placeholder i else rename o) :: out_names (S i) t
    end.
  (* the placeholders among them *)
  Fixpoint ph_names (i : nat) (outs : list vname) : list string :=
    match outs with
    | [] => []
    | o :: t => ((if is_empty o then [placeholder i] else []) ++ ph_names (S i) t)%list
    end.

  (* input_names, as text and as argument expressions (Python `None` for an omitted input) *)
  Definition in_name (o : option vname) : string := match o with None => "None" | Some x => rename x end.
  Definition in_expr (o : option vname) : option expr := option_map (fun x => EVar (rename x)) o.

  (* "Suppress generation of redundant copy": Identity whose printed output equals its printed input *)
  Definition suppressed_identity (op : string) (ins : list (option vname)) (outs : list vname) : bool :=
    String.eqb op "Identity" &&
    match ins, out_names 0 outs with
    | [i], [o] => String.eqb o (in_name i)
    | _, _ => false
    end.

  Definition emit_node (n : node) : option (list stmt) :=
    let 'Node dom op ins outs attrs subs := n in
    if negb (String.eqb dom "") || is_cf op || negb (is_nil subs) || existsb is_other attrs then None
    else if suppressed_identity op ins outs then Some []
    else
      let call := ECall (COp (cleanup kw op)) (map in_expr ins) (map kw_of_attr attrs) in
      match out_names 0 outs with
      | [] => None
      | [o] => Some [SAssign o call]
      | os => Some [STuple os call]
      end.

  (* an initializer: make_node("Constant", [], [translate(name)], value=init) handed to _translate_node *)
  Definition emit_init (iv : vname * attrv) : option (list stmt) :=
    emit_node (Node "" "Constant" [] [rename (fst iv)] [("value", snd iv)] []).

  (* ivals: the initializers with their tensor values, in the order of graph.initializer *)
  Definition export_graph (fname : string) (ivals : list (vname * attrv)) (g : graph) : option func :=
    match emit_all emit_init ivals, emit_all emit_node (g_nodes g) with
    | Some si, Some sn =>
      Some {| f_name := fname;
              f_tparams := map prename (g_ins g);
              f_aparams := [];
              f_body := (si ++ sn ++ [SReturn (map (fun o => EVar (rename o)) (g_outs g))])%list |}
    | _, _ => None
    end.

  (* ---- the executable side conditions of the soundness theorem -------------------------------------- *)

  (* all non-empty value names of the graph, once each *)
  Definition gnames (g : graph) : list vname := dedup (filter nonempty (names_graph g)).

  (* `rename` is injective on them: for rename = cleanup kw this is collision_freeb of the non-empty names *)
  Definition rename_injb (g : graph) : bool := nodupb (map rename (gnames g)).
  (* no printed placeholder `_<i>` is the Python name of a value *)
  Definition placeholders_freeb (g : graph) : bool :=
    forallb (fun n => forallb (fun p => negb (memb p (map rename (gnames g)))) (ph_names 0 (n_outs n))) (g_nodes g).
  (* neither `None` (printed for an omitted input) nor the empty string is the Python name of a value *)
  Definition reserved_freeb (g : graph) : bool :=
    negb (memb "None" (map rename (gnames g))) && negb (memb "" (map rename (gnames g))).
  (* the def line names the parameters as the body does *)
  Definition params_agreeb (g : graph) : bool := forallb (fun x => String.eqb (prename x) (rename x)) (g_ins g).
  (* renaming an initializer's name twice is renaming it once *)
  Definition inits_stableb (g : graph) : bool := forallb (fun x => String.eqb (rename (rename x)) (rename x)) (g_inits g).

  (* straight-line well-formedness: every name defined once, before its uses; D = names defined so far *)
  Fixpoint wf_nodes (D : list vname) (ns : list node) : option (list vname) :=
    match ns with
    | [] => Some D
    | n :: t =>
      let named := filter nonempty (n_outs n) in
      if forallb (fun x => memb x D) (present (n_ins n))
         && forallb (fun x => negb (memb x D)) named
         && nodupb named
      then wf_nodes (named ++ D)%list t
      else None
    end.
  Definition straight_wfb (ivals : list (vname * attrv)) (g : graph) : bool :=
    let D0 := (g_ins g ++ g_inits g)%list in
    list_eqb (map fst ivals) (g_inits g) && nodupb D0 && negb (memb "" D0) &&
    match wf_nodes D0 (g_nodes g) with
    | Some D => forallb (fun o => memb o D) (g_outs g)
    | None => false
    end.

  (* the operator name survives _cleanup_variable_name, and the call binds its inputs to the formal inputs of
     the operator's schema (more inputs than a non-variadic schema has are a TypeError of the script call) *)
  Definition call_okb (op : string) (ins : list (option vname)) : bool :=
    String.eqb (cleanup kw op) op &&
    match lookup_assoc op op_typevars with
    | None => true
    | Some tvs => match cast_plan tvs (map (option_map (fun _ : vname => false)) ins) with Some _ => true | None => false end
    end.
  Definition calls_okb (ivals : list (vname * attrv)) (g : graph) : bool :=
    forallb (fun n => call_okb (n_op n) (n_ins n)) (g_nodes g) && (is_nil ivals || call_okb "Constant" []).

  Definition emit_okb (ivals : list (vname * attrv)) (g : graph) : bool :=
    straight_wfb ivals g && rename_injb g && placeholders_freeb g && reserved_freeb g && params_agreeb g && inits_stableb g && calls_okb ivals g.
End Emit.

(* ---- the values of the initializers on the graph side: what `Constant(value=t)` denotes ---------------- *)
Section InitEnv.
  Variable V : Type.
  Variable sem : string -> string -> list (string * attrv) -> list (option V) -> option (list V).
  Fixpoint init_env (ivals : list (vname * attrv)) : option (list (vname * V)) :=
    match ivals with
    | [] => Some []
    | (x, a) :: t =>
      match sem "" "Constant" [("value", a)] [], init_env t with
      | Some [v], Some e => Some ((x, v) :: e)
      | _, _ => None
      end
    end.
End InitEnv.

(* rename=True: the short names as a finite map -- `seq` is the sequence of names in the order in which the
   exporter first hands them to its renamer; a name outside it keeps its cleaned form *)
Definition assoc_rename (pairs : list (string * string)) (dflt : string -> string) (x : string) : string :=
  match lookup_assoc x pairs with Some r => r | None => dflt x end.
Definition short_map (kw : list string) (seq : list string) : string -> string :=
  assoc_rename (combine seq (snd (short_rename_all kw [] seq))) (cleanup kw).

(* ---- structural equality of programs, for the correspondence check --------------------------------------- *)
Fixpoint zlist_eqb (a b : list Z) : bool :=
  match a, b with
  | [], [] => true
  | x :: a', y :: b' => Z.eqb x y && zlist_eqb a' b'
  | _, _ => false
  end.
Definition attrv_eqb (a b : attrv) : bool :=
  match a, b with
  | AInt x, AInt y => Z.eqb x y
  | AInts x, AInts y => zlist_eqb x y
  | AStr x, AStr y => String.eqb x y
  | AStrs x, AStrs y => list_eqb x y
  | AFloat x, AFloat y => Z.eqb x y
  | AFloats x, AFloats y => zlist_eqb x y
  | ATensor d s p, ATensor d' s' p' => Z.eqb d d' && zlist_eqb s s' && zlist_eqb p p'
  | ARef x, ARef y => String.eqb x y
  | AOther x, AOther y => String.eqb x y
  | _, _ => false
  end.
Definition kwarg_eqb (a b : string * kwarg) : bool :=
  String.eqb (fst a) (fst b) &&
  match snd a, snd b with
  | KLit x, KLit y => attrv_eqb x y
  | KName x, KName y => String.eqb x y
  | _, _ => false
  end.
Fixpoint all2 {A} (eq : A -> A -> bool) (a b : list A) : bool :=
  match a, b with
  | [], [] => true
  | x :: a', y :: b' => eq x y && all2 eq a' b'
  | _, _ => false
  end.
(* only the expression forms the exporter emits with use_operators / inline_const off; anything else differs *)
Definition arg_eqb (a b : option expr) : bool :=
  match a, b with
  | None, None => true
  | Some (EVar x), Some (EVar y) => String.eqb x y
  | _, _ => false
  end.
Definition callee_eqb (a b : callee) : bool :=
  match a, b with
  | COp x, COp y => String.eqb x y
  | CFun x, CFun y => String.eqb x y
  | _, _ => false
  end.
Definition expr_eqb (a b : expr) : bool :=
  match a, b with
  | EVar x, EVar y => String.eqb x y
  | ECall f xs ks, ECall g ys ls => callee_eqb f g && all2 arg_eqb xs ys && all2 kwarg_eqb ks ls
  | _, _ => false
  end.
Definition stmt_eqb (a b : stmt) : bool :=
  match a, b with
  | SAssign x e, SAssign y f => String.eqb x y && expr_eqb e f
  | STuple xs e, STuple ys f => list_eqb xs ys && expr_eqb e f
  | SReturn es, SReturn fs => all2 expr_eqb es fs
  | _, _ => false
  end.
Definition func_eqb (a b : func) : bool :=
  String.eqb (f_name a) (f_name b) && list_eqb (f_tparams a) (f_tparams b) &&
  is_nil (f_aparams a) && is_nil (f_aparams b) && all2 stmt_eqb (f_body a) (f_body b).

(* one correspondence case: what the model emits against what the real exporter printed (parsed back);
   an export the model refuses (None) is reported as a disagreement as well *)
Definition emit_agrees (model : option func) (observed : func) : bool :=
  match model with Some f => func_eqb f observed | None => false end.
Fixpoint disagreeing_emit (i : nat) (cs : list (option func * func)) : list nat :=
  match cs with
  | [] => []
  | (m, o) :: t => ((if emit_agrees m o then [] else [i]) ++ disagreeing_emit (S i) t)%list
  end.
