(* C08 property theorems: statements only, each closed by `exact`, Print Assumptions beneath.

   Reading guide.  `aten_f` (coq/Torch/Aten.v) is the composition of ONNX operators that the trace-time Python
   of torch_lib's aten_f emits, evaluated with the operator semantics of coq/Torch/Onnx.v; `torch_f`
   (coq/Torch/Spec.v) is PyTorch's semantics; `None` is "refused".  Shape-level theorems are over all shapes
   (every rank, including 0-d, and every extent); axis-level theorems are over the list of slabs of the tensor
   along the operated axis, slab type arbitrary, hence over every rank.  Each implication has an evaluated
   instance in coq/Torch/Examples.v.  What is NOT covered: numeric kernels (everything that is not data
   movement, integer arithmetic or shape bookkeeping), multi-axis roll/flip as one statement (they are the
   composition of the single-axis operators proved here), the end-to-end torch.onnx.export claim; those are observed by the direct oracle only. *)
From Coq Require Import ZArith List Bool.
Require Import OV.Torch.Onnx OV.Torch.Spec OV.Torch.Aten OV.Torch.Lemmas
               OV.Torch.ArithProofs OV.Torch.AxisProofs OV.Torch.ShapeProofs OV.Torch.Examples
               OV.Torch.F32 OV.Torch.F32Proofs OV.Torch.StackProofs.
Import ListNotations.
Local Open Scope Z_scope.

(* ---------------------------------------------------------------- view-like operators *)
Theorem C08_flatten : forall s start end_ out,
  shape_pos s -> torch_flatten s start end_ = Some out -> aten_flatten s start end_ = Some out.
Proof. exact flatten_correct. Qed.
Print Assumptions C08_flatten.

(* genuine defect: a zero-extent dimension behind the flattened range is copied from the wrong position *)
Theorem C08_flatten_zero_size_dim_refuted : exists s start end_ out,
  torch_flatten s start end_ = Some out /\ exists other, aten_flatten s start end_ = Some other /\ other <> out.
Proof. exact flatten_zero_dim_refuted. Qed.
Print Assumptions C08_flatten_zero_size_dim_refuted.

Theorem C08_unflatten : forall s dim sizes out,
  shape_pos s -> zlen s <= INT64_MAX ->
  torch_unflatten s dim sizes = Some out -> aten_unflatten s dim sizes = Some out.
Proof. exact unflatten_correct. Qed.
Print Assumptions C08_unflatten.

(* squeeze.dim on a dimension of extent 1 (or a 0-d tensor); other extents are a listed skip of ops_test_data.py *)
Theorem C08_squeeze_dim : forall s dim,
  (zlen s = 0 \/ exists d, wrap_dim (zlen s) dim = Some d /\ nthZ s d = Some 1) ->
  wrap_dim (zlen s) dim <> None ->
  aten_squeeze_dim s dim = torch_squeeze_dim s dim.
Proof. exact squeeze_dim_correct. Qed.
Print Assumptions C08_squeeze_dim.

Theorem C08_unsqueeze : forall s dim, aten_unsqueeze s dim = torch_unsqueeze s dim.
Proof. exact unsqueeze_correct. Qed.
Print Assumptions C08_unsqueeze.

Theorem C08_permute : forall s dims out, torch_permute s dims = Some out -> aten_permute s dims = Some out.
Proof. exact permute_correct. Qed.
Print Assumptions C08_permute.

Theorem C08_transpose : forall s d0 d1 out, torch_transpose s d0 d1 = Some out -> aten_transpose s d0 d1 = Some out.
Proof. exact transpose_correct. Qed.
Print Assumptions C08_transpose.

Theorem C08_t : forall s out, torch_t s = Some out -> aten_t s = Some out.
Proof. exact t_correct. Qed.
Print Assumptions C08_t.

Theorem C08_expand : forall s size out, torch_expand s size = Some out -> aten_expand s size = Some out.
Proof. exact expand_correct. Qed.
Print Assumptions C08_expand.

Theorem C08_view : forall s size out, torch_view s size = Some out -> aten_view s size = Some out.
Proof. exact view_correct. Qed.
Print Assumptions C08_view.

(* aten_reshape / aten_view_copy emit Reshape with allowzero = 0 *)
Theorem C08_reshape : forall s size out, ~ In 0 size -> torch_view s size = Some out -> aten_reshape s size = Some out.
Proof. exact reshape_correct. Qed.
Print Assumptions C08_reshape.

(* genuine defect: a requested extent 0 is read as "copy the input dimension" *)
Theorem C08_reshape_zero_in_size_refuted : exists s size out, torch_view s size = Some out /\ aten_reshape s size <> Some out.
Proof. exact reshape_zero_refuted. Qed.
Print Assumptions C08_reshape_zero_in_size_refuted.

Theorem C08_repeat : forall s reps out, shape_ok s -> torch_repeat s reps = Some out -> aten_repeat s reps = Some out.
Proof. exact repeat_correct. Qed.
Print Assumptions C08_repeat.

Theorem C08_tile : forall s dims out, shape_ok s -> torch_tile s dims = Some out -> aten_tile s dims = Some out.
Proof. exact tile_correct. Qed.
Print Assumptions C08_tile.

Theorem C08_cat : forall ss dim out,
  (forall s, In s ss -> legacy_empty s = false) ->
  torch_cat_shape ss dim = Some out -> aten_cat ss dim = Some out.
Proof. exact cat_correct. Qed.
Print Assumptions C08_cat.

(* the repaired code (proposed_fixes/ready/C08_15_cat_concat_filtered_tensors.diff): no hypothesis about legacy empty tensors *)
Theorem C08_cat_fixed : forall ss dim out, torch_cat_shape ss dim = Some out -> aten_cat_fixed ss dim = Some out.
Proof. exact cat_fixed_correct. Qed.
Print Assumptions C08_cat_fixed.

Theorem C08_stack : forall ss dim out, torch_stack_shape ss dim = Some out -> aten_stack ss dim = Some out.
Proof. exact stack_correct. Qed.
Print Assumptions C08_stack.

(* ---------------------------------------------------------------- reductions: dim list / keepdim *)
Theorem C08_sum_dim : forall s dims keepdim out,
  torch_reduce_shape s dims keepdim = Some out -> aten_sum_dim s dims keepdim = Some out.
Proof. exact sum_dim_correct. Qed.
Print Assumptions C08_sum_dim.

Theorem C08_mean_dim : forall s dims keepdim out,
  torch_reduce_shape s (Some dims) keepdim = Some out -> aten_mean_dim s dims keepdim = Some out.
Proof. exact mean_dim_correct. Qed.
Print Assumptions C08_mean_dim.

Theorem C08_amax : forall s dims keepdim out,
  (0 < zlen s \/ dims = Some [] \/ dims = None) ->
  torch_reduce_shape s dims keepdim = Some out -> aten_amax s dims keepdim = Some out.
Proof. exact amax_correct. Qed.
Print Assumptions C08_amax.

(* ---------------------------------------------------------------- along one axis *)
Theorem C08_select : forall (A : Type) r dim (xs : list A) index,
  0 < r ->
  aten_select r dim xs index = obind (torch_axis r dim) (fun a => obind (torch_select xs index) (fun x => Some (a, x))).
Proof. exact @select_correct. Qed.
Print Assumptions C08_select.

Theorem C08_slice : forall (A : Type) r dim (xs : list A) start end_ step,
  0 < r -> (match step with Some v => 0 < v | None => True end) ->
  aten_slice r dim xs start end_ step
  = obind (torch_axis r dim) (fun a =>
      obind (torch_slice xs start end_ (match step with Some v => v | None => 1 end)) (fun ys => Some (a, ys))).
Proof. exact @slice_correct. Qed.
Print Assumptions C08_slice.

(* the code as it is (fixed = false) is right unless a negative start reaches the end of the axis;
   the repaired code (fixed = true) is right everywhere *)
Theorem C08_narrow : forall (A : Type) fixed r dim (xs : list A) start length out,
  0 < r -> zlen xs <= INT64_MAX ->
  (fixed = true \/ 0 <= start \/ start + length < 0 \/ length = 0) ->
  obind (torch_axis r dim) (fun a => obind (torch_narrow xs start length) (fun ys => Some (a, ys))) = Some out ->
  aten_narrow fixed r dim xs start length = Some out.
Proof. exact @narrow_correct. Qed.
Print Assumptions C08_narrow.

Theorem C08_narrow_negative_start_refuted : exists (xs : list Z) start length out,
  torch_narrow xs start length = Some out /\ out <> [] /\ aten_narrow false 1 0 xs start length = Some (0, []).
Proof. exact narrow_negative_start_refuted. Qed.
Print Assumptions C08_narrow_negative_start_refuted.

Theorem C08_split : forall (A : Type) r dim (xs : list A) c a out,
  norm_axis r dim = Some a -> 0 < zlen xs ->
  torch_split_sizes (zlen xs) c = Some out -> aten_split r dim xs c = Some (a, cut xs out).
Proof. exact @split_correct. Qed.
Print Assumptions C08_split.

Theorem C08_split_empty_dim_refuted : exists (xs : list Z) c,
  torch_split_sizes (zlen xs) c = Some [0] /\ aten_split 1 0 xs c = Some (0, []).
Proof. exact split_empty_refuted. Qed.
Print Assumptions C08_split_empty_dim_refuted.

(* chunk: whenever the emitted graph is executable (chunks = 1, or Split(num_outputs) accepted) it is right *)
Theorem C08_chunk : forall (A : Type) r dim (xs : list A) k a sz,
  norm_axis r dim = Some a -> 0 < k ->
  (k = 1 \/ split_num_outputs (zlen xs) k = Some sz) ->
  exists out, torch_chunk_sizes (zlen xs) k = Some out /\ aten_chunk r dim xs k = Some (a, cut xs out).
Proof. exact @chunk_correct. Qed.
Print Assumptions C08_chunk.

(* genuine defect: torch.chunk may return fewer chunks than requested; Split(num_outputs) cannot *)
Theorem C08_chunk_fewer_chunks_refuted : exists (xs : list Z) k out,
  torch_chunk_sizes (zlen xs) k = Some out /\ aten_chunk 1 0 xs k = None.
Proof. exact chunk_fewer_chunks_refuted. Qed.
Print Assumptions C08_chunk_fewer_chunks_refuted.

(* roll along one axis, the code as it is: right when the shift stays within the axis and dim is not -1 *)
Theorem C08_roll_dim : forall (A : Type) r numel dim (xs : list A) shift a,
  norm_axis r dim = Some a ->
  0 < zlen xs <= numel ->
  (shift < 0 -> - shift <= zlen xs) ->
  (0 <= shift -> shift < 2 * zlen xs /\ dim <> -1) ->
  aten_roll_dim false r numel dim xs shift = Some (a, torch_roll1 xs shift).
Proof. exact @roll_dim_correct. Qed.
Print Assumptions C08_roll_dim.

Theorem C08_roll_flat : forall (A : Type) (xs : list A) shift,
  0 < zlen xs -> (shift < 0 -> - shift <= zlen xs) -> (0 <= shift -> shift < 2 * zlen xs) ->
  aten_roll_flat false xs shift = Some (torch_roll1 xs shift).
Proof. exact @roll_flat_correct. Qed.
Print Assumptions C08_roll_flat.

(* the repaired code: every shift, every dim, empty axes included *)
Theorem C08_roll_dim_fixed : forall (A : Type) r numel dim (xs : list A) shift a,
  norm_axis r dim = Some a -> zlen xs <= INT64_MAX ->
  aten_roll_dim true r numel dim xs shift = Some (a, torch_roll1 xs shift).
Proof. exact @roll_dim_fixed_correct. Qed.
Print Assumptions C08_roll_dim_fixed.

Theorem C08_roll_flat_fixed : forall (A : Type) (xs : list A) shift,
  zlen xs <= INT64_MAX -> aten_roll_flat true xs shift = Some (torch_roll1 xs shift).
Proof. exact @roll_flat_fixed_correct. Qed.
Print Assumptions C08_roll_flat_fixed.

(* genuine defects of the code as it is *)
Theorem C08_roll_shift_beyond_size_refuted : exists (xs : list Z) shift,
  aten_roll_dim false 1 3 0 xs shift <> Some (0, torch_roll1 xs shift).
Proof. exact roll_shift_beyond_size_refuted. Qed.
Print Assumptions C08_roll_shift_beyond_size_refuted.

Theorem C08_roll_last_dim_refuted : exists (xs : list Z) shift,
  norm_axis 1 (-1) = Some 0 /\ aten_roll_dim false 1 3 (-1) xs shift = None.
Proof. exact roll_last_dim_refuted. Qed.
Print Assumptions C08_roll_last_dim_refuted.

Theorem C08_roll_empty_tensor_refuted : exists (xs : list (list Z)) shift,
  aten_roll_dim false 2 0 0 xs shift <> Some (0, torch_roll1 xs shift).
Proof. exact roll_empty_tensor_refuted. Qed.
Print Assumptions C08_roll_empty_tensor_refuted.

Theorem C08_flip : forall (A : Type) r dim (xs : list A),
  0 < r -> zlen xs < - INT64_MIN ->
  aten_flip1 r dim xs = obind (torch_axis r dim) (fun a => Some (a, torch_flip1 xs)).
Proof. exact @flip1_correct. Qed.
Print Assumptions C08_flip.

Theorem C08_index_select : forall (A : Type) r dim (xs : list A) idx a out,
  0 <= r -> wrap_dim r dim = Some a -> torch_index_select xs idx = Some out ->
  aten_index_select r dim xs idx = Some (a, out).
Proof. exact @index_select_correct. Qed.
Print Assumptions C08_index_select.

Theorem C08_cumsum : forall r dim xs a,
  0 <= r -> (r = 0 -> exists x, xs = [x]) ->
  wrap_dim r dim = Some a -> aten_cumsum r dim xs = Some (a, torch_cumsum xs).
Proof. exact cumsum_correct. Qed.
Print Assumptions C08_cumsum.

(* ---------------------------------------------------------------- integer arithmetic *)
Theorem C08_floor_divide_signed : forall a b, b <> 0 -> aten_floor_divide true a b = torch_div_floor a b.
Proof. exact floor_divide_signed_correct. Qed.
Print Assumptions C08_floor_divide_signed.

Theorem C08_floor_divide_unsigned : forall a b, 0 <= a -> 0 < b -> aten_floor_divide false a b = torch_div_floor a b.
Proof. exact floor_divide_unsigned_correct. Qed.
Print Assumptions C08_floor_divide_unsigned.

(* div.Tensor_mode / div.Scalar_mode on integer tensors is computed through float32 (Cast, Div, Floor | trunc, CastLike);
   with IEEE round-to-nearest-even (coq/Torch/F32.v) the detour is exact for operands of magnitude < 2^24 ... *)
Theorem C08_div_mode_int : forall a b,
  Z.abs a < two24 -> 0 < Z.abs b < two24 ->
  aten_div_mode_int true a b = torch_div_floor a b /\ aten_div_mode_int false a b = torch_div_trunc a b.
Proof. exact div_mode_int_correct. Qed.
Print Assumptions C08_div_mode_int.

(* ... and wrong beyond (genuine defect): 16777217 // 1 *)
Theorem C08_div_mode_int_beyond_2p24_refuted : exists a b,
  b <> 0 /\ aten_div_mode_int true a b <> torch_div_floor a b /\ aten_div_mode_int false a b <> torch_div_trunc a b.
Proof. exact div_mode_int_refuted. Qed.
Print Assumptions C08_div_mode_int_beyond_2p24_refuted.

Theorem C08_remainder : forall a b, b <> 0 -> aten_remainder a b = torch_remainder a b.
Proof. exact remainder_correct. Qed.
Print Assumptions C08_remainder.

Theorem C08_remainder_sign : forall a b, b <> 0 ->
  (0 < b -> 0 <= aten_remainder a b < b) /\ (b < 0 -> b < aten_remainder a b <= 0).
Proof. exact remainder_sign. Qed.
Print Assumptions C08_remainder_sign.

Theorem C08_fmod : forall a b, b <> 0 -> aten_fmod a b = torch_fmod a b.
Proof. exact fmod_correct. Qed.
Print Assumptions C08_fmod.

Theorem C08_fmod_sign : forall a b, b <> 0 ->
  (0 <= a -> 0 <= aten_fmod a b) /\ (a <= 0 -> aten_fmod a b <= 0) /\ Z.abs (aten_fmod a b) < Z.abs b.
Proof. exact fmod_sign. Qed.
Print Assumptions C08_fmod_sign.

Theorem C08_clamp : forall x lo hi, (lo <> None \/ hi <> None) -> Some (aten_clamp x lo hi) = torch_clamp x lo hi.
Proof. exact clamp_correct. Qed.
Print Assumptions C08_clamp.

Theorem C08_clamp_tensor : forall x lo hi, (lo <> None \/ hi <> None) -> Some (aten_clamp_tensor x lo hi) = torch_clamp x lo hi.
Proof. exact clamp_tensor_correct. Qed.
Print Assumptions C08_clamp_tensor.

Theorem C08_arange : forall start end_ step out,
  torch_arange start end_ step = Some out -> aten_arange start end_ step = Some out.
Proof. exact arange_correct. Qed.
Print Assumptions C08_arange.

Theorem C08_tril_mask : forall k i j, aten_tril_keep k i j = torch_tril_keep k i j.
Proof. exact tril_mask_correct. Qed.
Print Assumptions C08_tril_mask.

Theorem C08_triu_mask : forall k i j, aten_triu_keep k i j = torch_triu_keep k i j.
Proof. exact triu_mask_correct. Qed.
Print Assumptions C08_triu_mask.
