(* C08 (second group of families) -- further ONNX operator semantics used by the torch_lib models, transcribed from
   the operator documents: EyeLike-9, Mul/ReduceSum on a matrix, Slice-13 on a shape, broadcasting of two shapes,
   MaxPool-12 / AveragePool-11 output extents, Pad-18 (constant mode, negative pads allowed), Range/Gather with a
   2-D index (windows), GatherElements / ScatterElements / TopK / Softmax axis ranges, Where broadcasting.
   `None` = the operator document calls the node invalid / the runtime refuses it.  No proofs in this file. *)
From Coq Require Import ZArith List Bool.
Require Import OV.Torch.Onnx.
Import ListNotations.
Local Open Scope Z_scope.

Fixpoint mapi {A B} (f : Z -> A -> B) (i : Z) (l : list A) : list B :=
  match l with [] => [] | x :: t => f i x :: mapi f (i + 1) t end.

(* numpy-style broadcasting of two shapes (Mul, Where, ...) *)
Definition bcast_shape (a b : list Z) : option (list Z) := option_map (@rev Z) (bcast_rev (rev a) (rev b)).

(* Slice-13 along one axis of a shape, step 1 *)
Definition slice_shape (s : list Z) (axis start end_ : Z) : option (list Z) :=
  obind (norm_axis (zlen s) axis) (fun a =>
  obind (nthZ s a) (fun n => Some (replace_at s a (snd (slice_bounds n start end_ 1))))).

(* ------------------------------------------------------------------ EyeLike-9: "this op sets T2[i, i+k] = 1" *)
Definition eye (k i j : Z) : Z := if j =? i + k then 1 else 0.
(* Mul of a matrix (list of rows) with the EyeLike mask of the same shape *)
Definition mask_rows (k : Z) (m : list (list Z)) : list (list Z) :=
  mapi (fun i row => mapi (fun j v => v * eye k i j) 0 row) 0 m.
(* ReduceSum of an [n1, n2] matrix along axis 0 (keepdims = 0): out[j] = sum_i m[i][j]; an empty matrix gives zeros *)
Definition col (j : Z) (row : list Z) : Z := nth (Z.to_nat j) row 0.
Definition reduce_sum_rows (n2 : Z) (m : list (list Z)) : list Z :=
  map (fun j => fold_right Z.add 0 (map (col j) m)) (iota n2).

(* ------------------------------------------------------------------ MaxPool-12 / AveragePool-11, explicit pads
   output_spatial_shape[i] = floor|ceil((input + pad_shape - dilation * (kernel - 1) - 1) / stride + 1), pad_shape = sum
   of the two pads.  `pool_out_doc18` is the text of the opset-12..21 documents alone; `pool_out` adds the sentence of
   the current document (MaxPool-22 / AveragePool-22: "Sliding windows that would start in the right padded region are
   ignored"), which onnxruntime and onnx.reference apply to every opset: only window starts o * stride < input +
   pad_begin count. *)
Definition pool_ok (n k s pb pe d : Z) : bool := (0 <? k) && (0 <? s) && (0 <? d) && (0 <=? pb) && (0 <=? pe) && (0 <=? n).
Definition pool_out_doc18 (ceil_mode : bool) (n k s pb pe d : Z) : option Z :=
  if negb (pool_ok n k s pb pe d) then None
  else let num := n + (pb + pe) - d * (k - 1) - 1 in
       Some (if ceil_mode then ceil_div num s + 1 else num / s + 1).
Definition pool_out (ceil_mode : bool) (n k s pb pe d : Z) : option Z :=
  option_map (fun o => if ceil_mode then Z.min o (ceil_div (n + pb) s) else o) (pool_out_doc18 ceil_mode n k s pb pe d).

(* all spatial axes: kernel_shape, strides, dilations of length e, pads of length 2e laid out [x1_begin, x2_begin, ..., x1_end, x2_end, ...] *)
Fixpoint pool_dims (ceil_mode : bool) (ns ks ss pbs pes ds : list Z) : option (list Z) :=
  match ns, ks, ss, pbs, pes, ds with
  | [], [], [], [], [], [] => Some []
  | n :: ns', k :: ks', s :: ss', pb :: pbs', pe :: pes', d :: ds' =>
    match pool_out ceil_mode n k s pb pe d, pool_dims ceil_mode ns' ks' ss' pbs' pes' ds' with
    | Some o, Some r => if 0 <? o then Some (o :: r) else None        (* an output extent < 1: the runtime refuses *)
    | _, _ => None
    end
  | _, _, _, _, _, _ => None                                        (* "Attribute ... has incorrect size" *)
  end.
(* input [N, C, spatial...]; rank = 2 + |kernel_shape| *)
Definition pool_shape (ceil_mode : bool) (s ks ss pads ds : list Z) : option (list Z) :=
  let e := zlen ks in
  if negb (zlen s =? e + 2) || negb (zlen pads =? 2 * e) then None
  else option_map (fun sp => take 2 s ++ sp) (pool_dims ceil_mode (drop 2 s) ks ss (take e pads) (drop e pads) ds).

(* ------------------------------------------------------------------ Pad-18, constant mode, along one axis.
   "pads ... [x1_begin, x2_begin, ..., x1_end, x2_end, ...]"; negative pads remove elements (as in onnxruntime and
   onnx.reference: "the number of padding elements to add or remove (if negative)"); the result extent is n + begin + end. *)
Definition pad_cut (n pb pe : Z) : bool := n <? Z.max (- pb) 0 + Z.max (- pe) 0.     (* more removed than there is *)
Definition pad_axis {A} (fill : A) (xs : list A) (pb pe : Z) : option (list A) :=
  let n := zlen xs in
  let cb := Z.max (- pb) 0 in
  let ce := Z.max (- pe) 0 in
  if pad_cut n pb pe then None
  else Some (repeat fill (Z.to_nat pb) ++ take (n - cb - ce) (drop cb xs) ++ repeat fill (Z.to_nat pe)).
Fixpoint zip_pad (s pb pe : list Z) : option (list Z) :=
  match s, pb, pe with
  | [], [], [] => Some []
  | n :: s', b :: pb', e :: pe' =>
    match zip_pad s' pb' pe' with
    | Some r => if pad_cut n b e then None else Some (n + b + e :: r)
    | None => None
    end
  | _, _, _ => None
  end.
(* pads has 2 * rank entries *)
Definition pad_shape (s pads : list Z) : option (list Z) :=
  let r := zlen s in
  if zlen pads =? 2 * r then zip_pad s (take r pads) (drop r pads) else None.

(* ------------------------------------------------------------------ Gather with a 2-D index tensor along an axis:
   the axis is replaced by the two index axes; row w of the index selects the slabs of window w *)
Definition gather_windows {A} (xs : list A) (idx : list (list Z)) : option (list (list A)) :=
  omap_all (gather_axis xs) idx.

(* ------------------------------------------------------------------ axis attribute only (kernel semantics not modelled):
   GatherElements-13 / ScatterElements-18 / TopK-11 / Softmax-13 / LogSoftmax-13 accept axis in [-r, r-1], r >= 1 *)
Definition axis_ok (r axis : Z) : option Z := if r <? 1 then None else norm_axis r axis.
