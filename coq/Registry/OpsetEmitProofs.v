(* C17 -- proofs about the generator model (Registry/OpsetEmit.v): for every schema passing the stated
   well-formedness test the emitted method passes method_ok against that schema, and names that schema. *)
From Coq Require Import List String ZArith Bool Lia.
Import ListNotations.
Require Import OV.Registry.OpsetMethod OV.Registry.OpsetMethodProofs OV.Registry.OpsetEmit.
Local Open Scope string_scope.
Local Open Scope list_scope.

(* ------------------------------------------------------------------ reflexivity of the equality tests *)

Lemma list_eqb_refl {A} (e : A -> A -> bool) : (forall x, e x x = true) -> forall l, list_eqb e l l = true.
Proof. intros R l; induction l; cbn; auto. rewrite R, IHl; auto. Qed.

Lemma dflt_eqb_refl : forall d, dflt_eqb d d = true.
Proof.
  destruct d; cbn; auto using Z.eqb_refl, String.eqb_refl;
    apply list_eqb_refl; auto using Z.eqb_refl, String.eqb_refl.
Qed.

(* ------------------------------------------------------------------ shape of the emitted parameter list *)

Lemma emit_input_is_input : forall s i, is_input (emit_input s i) = true.
Proof. intros s [n k]; unfold is_input, emit_input; cbn. destruct k; auto. destruct (has_variadic s); auto. Qed.

Lemma emit_attr_is_kw : forall a, is_input (emit_attr a) = false.
Proof. intros a; unfold is_input, emit_attr; cbn. destruct (a_required a); auto. Qed.

Lemma filter_all {A} (f : A -> bool) : forall l, (forall x, In x l -> f x = true) -> filter f l = l.
Proof. induction l; cbn; intros H; auto. rewrite (H a (or_introl eq_refl)). f_equal. apply IHl. intros; apply H; auto. Qed.

Lemma filter_none {A} (f : A -> bool) : forall l, (forall x, In x l -> f x = false) -> filter f l = [].
Proof. induction l; cbn; intros H; auto. rewrite (H a (or_introl eq_refl)). apply IHl. intros; apply H; auto. Qed.

Lemma in_params_emit : forall s, in_params (emit_method s) = emit_inputs s.
Proof.
  intro s. unfold in_params, emit_method; cbn. rewrite filter_app.
  rewrite filter_all, filter_none, app_nil_r; auto.
  - intros x I. apply in_map_iff in I as [a [<- _]]. apply emit_attr_is_kw.
  - intros x I. apply in_map_iff in I as [a [<- _]]. apply emit_input_is_input.
Qed.

Lemma kw_params_emit : forall s, kw_params (emit_method s) = emit_attrs s.
Proof.
  intro s. unfold kw_params, emit_method; cbn. rewrite filter_app.
  rewrite filter_none, filter_all; auto.
  - intros x I. apply in_map_iff in I as [a [<- _]]. unfold is_kw. rewrite emit_attr_is_kw; auto.
  - intros x I. apply in_map_iff in I as [a [<- _]]. unfold is_kw. rewrite emit_input_is_input; auto.
Qed.

Lemma inputs_first_emit : forall ins kws,
  (forall x, In x ins -> is_input x = true) -> (forall x, In x kws -> is_input x = false) ->
  inputs_first (ins ++ kws) = true.
Proof.
  induction ins as [|p t IH]; cbn; intros kws Hi Hk.
  - destruct kws as [|k kt]; cbn; auto. rewrite (Hk k (or_introl eq_refl)).
    apply forallb_forall. intros x I. unfold is_kw. rewrite Hk; auto. right; auto.
  - rewrite (Hi p (or_introl eq_refl)). apply IH; auto.
Qed.

Lemma emit_names_eq : forall s, map p_name (emit_inputs s ++ emit_attrs s) = emit_names s.
Proof.
  intro s. unfold emit_names, emit_inputs, emit_attrs. rewrite map_app, !map_map. reflexivity.
Qed.

Lemma inputs_ok_emit : forall s l, forallb2 (input_ok s) (map (emit_input s) l) l = true.
Proof.
  intros s l; induction l as [|[n k] t IH]; cbn; auto. rewrite IH, andb_true_r.
  unfold input_ok, emit_input; cbn. rewrite String.eqb_refl; cbn.
  destruct k; cbn; auto; destruct (has_variadic s); cbn; auto.
Qed.

Lemma attrs_ok_emit : forall l, forallb2 attr_ok (map emit_attr l) l = true.
Proof.
  induction l as [|a t IH]; cbn; auto. rewrite IH, andb_true_r.
  unfold attr_ok, emit_attr; cbn. rewrite String.eqb_refl; cbn.
  destruct (a_required a); cbn; auto. apply dflt_eqb_refl.
Qed.

Lemma sb_list_refl : forall l : list (string * bool),
  list_eqb (fun a b => String.eqb (fst a) (fst b) && Bool.eqb (snd a) (snd b)) l l = true.
Proof. apply list_eqb_refl. intros [a b]; cbn. rewrite String.eqb_refl, Bool.eqb_reflx; auto. Qed.

Lemma ss_list_refl : forall l : list (string * string),
  list_eqb (fun a b => String.eqb (fst a) (fst b) && String.eqb (snd a) (snd b)) l l = true.
Proof. apply list_eqb_refl. intros [a b]; cbn. rewrite !String.eqb_refl; auto. Qed.

(* ------------------------------------------------------------------ the generator theorem *)

Theorem emit_method_ok : forall s, schema_wfb s = true -> method_ok (emit_method s) s = true.
Proof.
  intros s W. unfold schema_wfb in W. rewrite !andb_true_iff in W. destruct W as [[[[ND _] _] _] _].
  unfold method_ok. rewrite in_params_emit, kw_params_emit.
  assert (prepare_ok (emit_method s) = true) as P.
  { unfold prepare_ok. rewrite in_params_emit. unfold emit_method; cbn.
    destruct (emit_inputs s) eqn:E; auto. apply sb_list_refl. }
  assert (forwards_ok (emit_method s) = true) as F.
  { unfold forwards_ok. rewrite kw_params_emit. unfold emit_method; cbn. apply ss_list_refl. }
  rewrite P, F. unfold emit_method at 1 2 3 4; cbn [m_op m_domain m_opname m_name].
  rewrite !String.eqb_refl. cbn [andb].
  unfold params_split_ok. unfold emit_method; cbn [m_params].
  rewrite inputs_first_emit, emit_names_eq, ND; cbn [andb].
  - unfold emit_inputs, emit_attrs. rewrite inputs_ok_emit, attrs_ok_emit. reflexivity.
  - intros x I. apply in_map_iff in I as [a [<- _]]. apply emit_input_is_input.
  - intros x I. apply in_map_iff in I as [a [<- _]]. apply emit_attr_is_kw.
Qed.

(* the emitted method names the schema it was generated from (up to the registry key) *)
Theorem emit_resolves : forall reg s, In s reg ->
  exists s', static_schema reg (emit_method s) = Some s' /\
             s_name s' = s_name s /\ s_domain s' = s_domain s /\ s_since s' = s_since s.
Proof.
  intros reg s I. unfold static_schema, emit_method; cbn.
  destruct (resolve_total reg (s_name s) (s_since s) (s_domain s) s) as [s' R]; auto; try lia.
  exists s'. split; auto.
  destruct (resolve_spec _ _ _ _ _ R) as [_ [E1 [E2 [LE MAX]]]].
  repeat split; auto. specialize (MAX s I eq_refl eq_refl). lia.
Qed.

(* ------------------------------------------------------------------ boolean equality is equality *)

Lemma pkind_eqb_eq : forall a b, pkind_eqb a b = true -> a = b.
Proof. destruct a, b; cbn; auto; discriminate. Qed.

Lemma param_eqb_eq : forall a b, param_eqb a b = true -> a = b.
Proof.
  intros [n k d] [n' k' d']; unfold param_eqb; cbn. rewrite !andb_true_iff. intros [[H1 H2] H3].
  apply String.eqb_eq in H1. apply pkind_eqb_eq in H2. apply dflt_eqb_eq in H3. subst; auto.
Qed.

Lemma sb_eqb_eq : forall a b, sb_eqb a b = true -> a = b.
Proof. intros [a b] [a' b']; unfold sb_eqb; cbn. rewrite andb_true_iff. intros [H1 H2].
  apply String.eqb_eq in H1. apply Bool.eqb_prop in H2. subst; auto. Qed.

Lemma ss_eqb_eq : forall a b, ss_eqb a b = true -> a = b.
Proof. intros [a b] [a' b']; unfold ss_eqb; cbn. rewrite andb_true_iff. intros [H1 H2].
  apply String.eqb_eq in H1. apply String.eqb_eq in H2. subst; auto. Qed.

Lemma method_eqb_eq : forall a b, method_eqb a b = true -> a = b.
Proof.
  intros [n ps o si d on pr fw] [n' ps' o' si' d' on' pr' fw']; unfold method_eqb; cbn.
  rewrite !andb_true_iff. intros [[[[[[[H1 H2] H3] H4] H5] H6] H7] H8].
  apply String.eqb_eq in H1, H3, H5, H6. apply Z.eqb_eq in H4.
  apply (list_eqb_eq _ param_eqb_eq) in H2. apply (list_eqb_eq _ ss_eqb_eq) in H8.
  assert (pr = pr') as ->.
  { destruct pr, pr'; try discriminate; auto. f_equal. apply (list_eqb_eq _ sb_eqb_eq); auto. }
  subst; auto.
Qed.

(* ------------------------------------------------------------------ classes made of emitted methods *)

(* If the methods of every class are what the model generator emits and every schema is well formed, then
   every method of every class was emitted from a schema of the class's own (domain, version), passes
   method_ok against it and names it: the per-method part of the registry test holds by construction. *)
Theorem classes_emitted_ok : forall skip reg cs,
  classes_emitted skip reg cs = true -> forallb schema_wfb reg = true ->
  forall c, In c cs -> forall m, In m (c_methods c) ->
    exists s, In s reg /\ s_domain s = c_domain c /\ s_since s = c_version c /\
              skip s = false /\
              m = emit_method s /\ method_ok m s = true /\
              exists s', static_schema reg m = Some s' /\
                         s_name s' = s_name s /\ s_domain s' = s_domain s /\ s_since s' = s_since s.
Proof.
  intros skip reg cs CE WF c Ic m Im.
  unfold classes_emitted in CE. rewrite forallb_forall in CE. specialize (CE c Ic).
  unfold class_emitted in CE. apply (list_eqb_eq _ method_eqb_eq) in CE. rewrite CE in Im.
  unfold emit_methods in Im. apply in_map_iff in Im as [s [<- Is]].
  apply filter_In in Is as [Is H]. unfold emitted_here in H. rewrite !andb_true_iff in H.
  destruct H as [[H1 H2] H3]. apply String.eqb_eq in H1. apply Z.eqb_eq in H2.
  rewrite forallb_forall in WF.
  exists s. repeat split; auto.
  - destruct (skip s); auto; discriminate.
  - apply emit_method_ok; auto.
  - apply emit_resolves; auto.
Qed.

(* ------------------------------------------------------------------ non-vacuity *)

(* the three shapes the generator distinguishes: plain + optional inputs (Clip-11), an optional input in
   front of a variadic one (Loop: no default), an input sharing its name with an attribute (Split-1) *)
Definition ex_loop : schema :=
  mkS "" "Loop" 11 false [("M", IOpt); ("cond", IOpt); ("v_initial", IVar)] [mkA "body" true DNone].
Definition ex_split1 : schema :=
  mkS "" "Split" 1 false [("input", IReq); ("split", IOpt)] [mkA "axis" false (DInt 0); mkA "split" false DNone].

Example ex_emit_loop :
  schema_wfb ex_loop = true /\
  emit_method ex_loop =
    mkM "Loop" [mkP "M" PReq DNone; mkP "cond" PReq DNone; mkP "v_initial" PVar DNone; mkP "body" PKwReq DNone]
        "Loop" 11 "" "Loop" (Some [("M", false); ("cond", false); ("v_initial", true)]) [("body", "body")].
Proof. vm_compute. split; reflexivity. Qed.

Example ex_emit_split1 :
  schema_wfb ex_split1 = true /\
  emit_method ex_split1 =
    mkM "Split" [mkP "input" PReq DNone; mkP "split_" POpt DNone; mkP "axis" PKw (DInt 0); mkP "split" PKw DNone]
        "Split" 1 "" "Split" (Some [("input", false); ("split_", false)]) [("axis", "axis"); ("split", "split")].
Proof. vm_compute. split; reflexivity. Qed.

(* the well-formedness test is not vacuous: an input called `schema` would be shadowed by the method body,
   and an input after a variadic one would be read back by Python as keyword-only *)
Example ex_wf_rejects :
  schema_wfb (mkS "" "Bad" 1 false [("schema", IReq)] []) = false /\
  schema_wfb (mkS "" "Bad" 1 false [("a", IVar); ("b", IOpt)] []) = false /\
  schema_wfb (mkS "" "Bad" 1 false [("a", IReq); ("a", IReq)] []) = false.
Proof. vm_compute. repeat split. Qed.

(* on the example registry the model generator emits the hand-written example methods: as read the
   deprecated Upsample-10 is skipped (Opset10 gets nothing and inherits Upsample-9), repaired it is emitted *)
Example ex_methods_are_emitted :
  emit_methods s_deprecated ex_reg "" 6 = [ex_clip6] /\ emit_methods s_deprecated ex_reg "" 9 = [ex_upsample9] /\
  emit_methods s_deprecated ex_reg "" 10 = [] /\ emit_methods no_exemption ex_reg "" 10 = [ex_upsample10] /\
  emit_methods (exempt_in [("", "Upsample")]) ex_reg "" 10 = [] /\
  emit_methods s_deprecated ex_reg "" 11 = [ex_clip11] /\
  classes_emitted no_exemption ex_reg [mkC "Opset10" (Some "Opset9") "" 10 [ex_upsample10]] = true /\
  classes_emitted no_exemption ex_reg [mkC "Opset10" (Some "Opset9") "" 10 []] = false /\
  forallb schema_wfb ex_reg = true.
Proof. vm_compute. repeat split. Qed.
