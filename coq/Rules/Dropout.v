(* Model of dropout_zero_rule / dropout_inference_rule (_no_op.py) and of CastIdentity's replacement (C05).
   ONNX Dropout: inference mode -> output = data; training mode -> output = scale * data * mask with scale = 1/(1 - ratio)
   and mask[i] ~ Bernoulli(1 - ratio) (ratio = 0: every element kept).  The scalar type is abstract.  No proofs here. *)
From Coq Require Import List Bool ZArith.
Import ListNotations.

Section DropoutSem.
  Variable F : Type.
  Variable zero : F.
  Variable mul : F -> F -> F.
  Variable scale_of : F -> F.            (* ratio |-> 1 / (1 - ratio) *)
  Fixpoint masked (s : F) (mask : list bool) (x : list F) : list F :=
    match mask, x with
    | m :: mask', v :: x' => (if m then mul s v else zero) :: masked s mask' x'
    | _, _ => []
    end.
  Definition dropout (training : bool) (ratio : F) (mask : list bool) (x : list F) : list F :=
    if training then masked (scale_of ratio) mask x else x.
End DropoutSem.

(* which Dropout nodes the two patterns accept: the attribute must be written with exactly that value
   (ratio = 0.0 / training_mode = 0); attribute absent = the pattern does not match *)
Definition dropout_zero_matches (ratio_attr_is_zero : option bool) : bool :=
  match ratio_attr_is_zero with Some b => b | None => false end.
Definition dropout_inference_matches (training_mode_attr : option Z) : bool :=
  match training_mode_attr with Some v => Z.eqb v 0 | None => false end.

(* ONNX Cast: per (source, target) type pair a function on the carrier; CastIdentity replaces Cast(x, to) by Identity(x) *)
Section CastSem.
  Variable V : Type.
  Variable cast : Z -> Z -> V -> V.
  Definition cast_node (xdtype to : Z) (v : V) : V := cast xdtype to v.
End CastSem.
