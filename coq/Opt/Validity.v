(* C04: model-level facts about the interface of the folded graph and about initializers that are also graph inputs
   (defaults the caller may override). *)
From Coq Require Import List String ZArith Bool Lia.
Require Import OV.Graph.Syntax OV.Graph.Sem OV.Graph.Names OV.Gen.FoldTables OV.Opt.Fold OV.Opt.SemLemmas OV.Opt.FoldProofs OV.Opt.FoldTheorems.
Import ListNotations.
Local Open Scope list_scope.
Local Open Scope string_scope.

Lemma prune_graph_sig alive g : g_ins (prune_graph alive g) = g_ins g /\ g_outs (prune_graph alive g) = g_outs g.
Proof. destruct g. cbn. auto. Qed.
Lemma erase_graph_sig news g : g_ins (erase_graph news g) = g_ins g /\ g_outs (erase_graph news g) = g_outs g.
Proof. destruct g. cbn. auto. Qed.

Section Vd.
  Variable V : Type.
  Variable ref_eval : string -> string -> list (string * attrv) -> list (option V) -> option (list V).
  Variable const_val : list (string * attrv) -> option V.
  Variable attr_of_val : V -> attrv.
  Variable v_dtype : V -> Z.
  Variable v_dims : V -> list Z.
  Variable v_ints : V -> option (list Z).
  Variable v_zero : V -> bool.
  Variable v_tensor : V -> bool.
  Variable fresh : nat -> vname.

  (* the declared inputs and outputs of a graph (names and order) survive the traversal and the output replacement:
     a replaced output keeps its NAME (the replacing value is renamed to it) *)
  Theorem output_replacement_preserves_signature : forall pe strict cfg depth fuel bound st g st' g' news tr,
    fold_graph V ref_eval const_val attr_of_val v_dtype v_dims v_ints v_tensor pe strict cfg depth fuel bound st g = OK (st', g', news, tr) ->
    g_ins g' = g_ins g /\ g_outs g' = g_outs g.
  Proof.
    intros pe strict cfg depth fuel bound st [gi inits nodes outs] st' g' news tr. unfold fold_graph.
    destruct (visit_nodes _ _ _ _ _ _ _ _ _ _ _ _ _ _ _ _ _ _) as [[[[[[st1 ns] inits'] news1] defd] tr1]| | |]; try discriminate.
    destruct (replace_outputs _ _ _ _ _ _ _ _ _ _) as [[[st2 ns'] tro]| | |]; try discriminate.
    intro H; inversion H; subst. cbn. auto.
  Qed.

  Theorem fold_model_preserves_signature : forall strict depth fuel cfg bound st g funs st' g' funs' tr gsem,
    fold_model V ref_eval const_val attr_of_val v_dtype v_dims v_ints v_zero v_tensor fresh strict depth fuel cfg bound st g funs
      = OK (st', g', funs', tr, gsem) ->
    g_ins g' = g_ins g /\ g_outs g' = g_outs g.
  Proof.
    intros strict depth fuel cfg bound st g funs st' g' funs' tr gsem. unfold fold_model.
    destruct (fold_graph _ _ _ _ _ _ _ _ _ _ _ _ _ _ _ g) as [[[[st1 g1] news1] tr1]| | |] eqn:FG; try discriminate.
    match goal with |- context [match ?x with OK _ => _ | Raised => _ | OutOfFuel => _ | Stuck _ => _ end] =>
      destruct x as [[[st2 fs] tr2]| | |] end; try discriminate.
    destruct (output_replacement_preserves_signature _ _ _ _ _ _ _ _ _ _ _ _ FG) as [A B].
    destruct (prune_graph_sig (s_inits V st2) (erase_graph news1 g1)) as [C D].
    destruct (erase_graph_sig news1 g1) as [E F].
    intro H; inversion H. split; congruence.
  Qed.

  (* the graph-input guard of process_node: a node that consumes a graph input is kept by the generic folding path *)
  Theorem graph_input_consumer_never_folded : forall cfg isf st n x,
    In x (present (n_ins n)) -> In x (c_graph_inputs cfg) ->
    exists r, generic_fold V ref_eval v_dims v_tensor cfg isf st n = DKeep V r st.
  Proof.
    intros cfg isf st n x Hx Hg. unfold generic_fold.
    destruct (is_onnx n "Constant"); [eexists; reflexivity|].
    destruct (is_control_flow n); [eexists; reflexivity|].
    destruct (is_non_det n); [eexists; reflexivity|].
    assert (E : existsb (fun x0 => mem x0 (c_graph_inputs cfg)) (present (n_ins n)) = true).
    { apply existsb_exists. exists x. split; [exact Hx|apply mem_In; exact Hg]. }
    rewrite E. eexists; reflexivity.
  Qed.

  (* with the guard of _get_numpy_value in the source (s_guard = the graph inputs) no partial evaluator can read the
     default of an initializer-input ... *)
  Theorem guarded_value_invisible : forall st x dt lim, mem x (s_guard V st) = true ->
    numpy_value V v_dtype v_dims st (Some x) dt lim = None /\ bool_value V v_dtype v_dims v_ints st (Some x) = None /\
    ((forall ds, assoc x (s_sym V st) <> Some (SShape ds)) -> shape_value V v_dtype v_dims v_ints st (Some x) = None).
  Proof.
    intros st x dt lim G. unfold bool_value, shape_value, numpy_value. rewrite G. repeat split; auto.
    intros H. destruct (assoc x (s_sym V st)) as [[?| |ds]|]; auto. exfalso. apply (H ds). reflexivity.
  Qed.

  (* ... in particular an If whose condition is an overridable input is never inlined *)
  Theorem guarded_if_not_inlined : forall st n x, in_at n 0 = Some x -> mem x (s_guard V st) = true ->
    pe_if V v_dtype v_dims v_ints st n = PNone V st.
  Proof.
    intros st n x I G. unfold pe_if. rewrite I. unfold bool_value, numpy_value. rewrite G. reflexivity.
  Qed.

  (* _clear_unused_initializers with the guard: the default of a graph input is never dropped *)
  Theorem clear_keeps_graph_input_defaults : clear_keeps_graph_inputs = true ->
    forall cfg st candidates i, In i (s_inits V st) -> In i (c_graph_inputs cfg) ->
      In i (s_inits V (clear_unused_initializers V cfg st candidates)).
  Proof.
    intros K cfg st candidates i Hi Hg. unfold clear_unused_initializers, set_inits. cbn [s_inits]. apply filter_In. split; [exact Hi|].
    rewrite K. apply (proj2 (mem_In i (c_graph_inputs cfg))) in Hg. rewrite Hg. cbn [andb negb].
    repeat rewrite andb_false_r. reflexivity.
  Qed.
  Theorem clear_without_guard_drops_default : clear_keeps_graph_inputs = false ->
    exists cfg st candidates i, In i (s_inits V st) /\ In i (c_graph_inputs cfg) /\
      ~ In i (s_inits V (clear_unused_initializers V cfg st candidates)).
  Proof.
    intro K. exists (mkConfig [] 0 0 [] ["c"] []), (mkState V [] [] [] [] [] 0 ["c"] []), ["c"], "c".
    unfold clear_unused_initializers, set_inits. cbn [s_inits]. rewrite K. cbn. repeat split; auto.
  Qed.
End Vd.

(* Without the guard (s_guard = []) the faithful model of the pass inlines an If on the DEFAULT of an overridable
   condition: the statement "initializers that are also graph inputs are never folded" is refuted for it.  The witness
   is replayed on the real code by the harness (known finding C04:initializer-input:folded-by-partial-evaluator). *)
Definition w_cfg : config := mkConfig [("", 18%Z)] 8192 262144 [] ["x"; "c"] ["y"].
Definition w_state : state Z := mkState Z [("c", 1%Z)] [] [] [] [] 0 ["c"] [].
Definition w_node : node :=
  Node "" "If" [Some "c"] ["y"] []
       [("then_branch", Graph [] [] [Node "" "Neg" [Some "x"] ["t"] [] []] ["t"]);
        ("else_branch", Graph [] [] [Node "" "Identity" [Some "x"] ["e"] [] []] ["e"])].
Theorem unguarded_initializer_input_folded_refuted :
  In "c" (c_graph_inputs w_cfg) /\
  match decide Z z_ref (fun _ => DT_BOOL) (fun _ => []) (fun z => Some [z]) (fun _ => true) (pe_none Z) w_cfg false w_state w_node with
  | DInline _ _ [Node "" "Neg" [Some "x"] ["y"] [] []] _ => True
  | _ => False
  end.
Proof. split; [cbn; auto|vm_compute; exact I]. Qed.

(* with the guard the same node is kept *)
Theorem guarded_initializer_input_kept :
  match decide Z z_ref (fun _ => DT_BOOL) (fun _ => []) (fun z => Some [z]) (fun _ => true) (pe_none Z) w_cfg false
               (mkState Z [("c", 1%Z)] [] [] [] [] 0 ["c"] ["x"; "c"]) w_node with
  | DKeep _ _ _ => True
  | _ => False
  end.
Proof. vm_compute. exact I. Qed.

(* the initial invariant holds for EVERY binding of the graph inputs (hence for every override value) when the
   recorded constants that may be read are initializers outside the input list *)
Section Initial.
  Variable V : Type.
  Theorem inv_initial_all_inputs : forall (st : state V) gi outer,
    s_sym V st = [] ->
    (forall x c, assoc x (s_const V st) = Some c -> mem x (s_guard V st) = false ->
                 ~ In x gi /\ forall v, lookup outer x = Some v -> v = c) ->
    forall args e0, bind gi args outer = Some e0 -> inv V st e0.
  Proof.
    intros st gi outer S H args e0 B. split.
    - intros x c v A G L. destruct (H x c A G) as [N O]. apply O.
      rewrite <- (lookup_bind_notin V gi args outer e0 x B N). exact L.
    - intros y x v Sv. unfold sym_val in Sv. rewrite S in Sv. discriminate.
  Qed.
End Initial.
