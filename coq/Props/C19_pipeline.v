(* C19 property theorems, the pipeline as a whole (optimize_for_ort / fuse_xformers of ort_fusions/_core.py): statements only.
   Gen/C19Pipeline.v is regenerated from the source on every run (harness/c19_pipeline.py, fail-closed); these theorems are
   re-proved against what the code says now.
   [sem] is the denotation of a model (its function from inputs to outputs over the abstract field; rounding is outside),
   [interp] what a stage does to a model.  The soundness of each stage is a hypothesis of the composition theorem, indexed by
   the stage NAME; Fusion/Pipeline.v lists for every name the Props theorems it rests on (proved_stages) or the named hypothesis
   H_... (assumed_stages: stages of other properties or not modelled).  A stage the table does not know fails the obligation.
   Not said: that the per-stage theorems (identities on one row / one head + check-sufficiency) amount to [sem] being preserved by
   the rule application itself -- that step is the splice theorem of property C07 (replacement of a matched sub-graph by an
   equivalent one), not re-proved here; the direct oracle compares every stage on the repo's models. *)
From Coq Require Import List String Bool.
Require Import OV.Fusion.Pipeline OV.Fusion.PipelineProofs OV.Gen.C19Pipeline OV.Fusion.PipelineShape.
Import ListNotations.
Local Open Scope string_scope.

(* the pipeline read from the source has the required shape: every stage known, the order constraints that matter (rms before
   skip-rms; rotary < cos/sin cache < CSE < partial rotary; cos/sin cache and SDPA before GQA / MHA; MHA-with-past before MHA;
   MHA before scale / bias / Attention, the latter two only when an MHA was fused; SDPA lowering after all its consumers; the
   final optimize; the outer pass list and its arguments) *)
Theorem C19_source_pipeline_shape : pipeline_ok src_pre_optimize src_fuse_xformers src_optimize_for_ort src_ort_rules = true.
Proof. exact source_pipeline_shape_ok. Qed.
Print Assumptions C19_source_pipeline_shape.

(* composition, any stage list *)
Theorem C19_run_preserves : forall (M D : Type) (sem : M -> D) (interp : stage -> M -> M) l,
  (forall s, In s l -> forall m, sem (interp s m) = sem m) -> forall m, sem (run M interp l m) = sem m.
Proof. exact run_preserves. Qed.
Print Assumptions C19_run_preserves.

(* optimize_for_ort as it is in the source now: sound as soon as the stages named in the table are *)
Theorem C19_optimize_for_ort_composition : forall (M D : Type) (sem : M -> D) (interp : stage -> M -> M),
  (forall s, mem (s_name s) known_names = true -> forall m, sem (interp s m) = sem m) ->
  forall m, sem (run M interp (whole_pipeline src_pre_optimize src_fuse_xformers src_optimize_for_ort) m) = sem m.
Proof. exact source_pipeline_sound. Qed.
Print Assumptions C19_optimize_for_ort_composition.

(* non-vacuity: the flattened pipeline really is the 30 stages of the source, and the shape predicate rejects a reordering *)
Example C19_pipeline_nontrivial :
  List.length (whole_pipeline src_pre_optimize src_fuse_xformers src_optimize_for_ort) = 30
  /\ pipeline_ok src_pre_optimize (rev src_fuse_xformers) src_optimize_for_ort src_ort_rules = false.
Proof. split; vm_compute; reflexivity. Qed.
