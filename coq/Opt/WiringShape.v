(* Every option of the public optimizer entry points reaches the pass it configures under the right name, at every call site
   (Gen/OptWiring.v is read from the current source by harness/c03_wiring.py):
     optimize -> optimize_ir: same keyword, at both call sites (ir.Model and ModelProto), same default as optimize_ir;
     optimize_ir -> FoldConstantsPass(shape_inference = onnx_shape_inference, input_size_limit, output_size_limit, should_fold),
                    PassManager(steps = num_iterations, early_stop = stop_if_no_change), `if inline`;
     fold_constants -> FoldConstantsPass likewise; optimizer.fold_constants forwards (model, *args, **kwargs) unchanged (checked by the
     translator itself). *)
From Coq Require Import List String Ascii Bool.
Require Import OV.Graph.Syntax OV.Gen.OptWiring.
Import ListNotations.
Local Open Scope string_scope.

Definition expected (f p : string) : list (string * string) :=
  if String.eqb f "optimize" then [("optimize_ir", p)]
  else if String.eqb p "onnx_shape_inference" then [("FoldConstantsPass", "shape_inference")]
  else if mem p ["input_size_limit"; "output_size_limit"; "should_fold"] then [("FoldConstantsPass", p)]
  else if String.eqb p "num_iterations" then [("PassManager", "steps")]
  else if String.eqb p "stop_if_no_change" then [("PassManager", "early_stop")]
  else if String.eqb p "inline" then [("if", "inline")]
  else [].

Definition sites_of (f callee : string) : list nat :=
  match find (fun r => String.eqb (fst r) f) call_sites with
  | Some (_, cs) => map snd (filter (fun c => String.eqb (fst c) callee) cs)
  | None => []
  end.

(* the option is handed to the expected (callee, keyword) at every call site of that callee, and to nothing else *)
Definition row_ok (r : string * string * string * list (string * string * nat)) : bool :=
  let '(f, p, _, uses) := r in
  match expected f p with
  | [] => false
  | exps =>
    forallb (fun u => let '(c, k, _) := u in existsb (fun e => String.eqb (fst e) c && String.eqb (snd e) k) exps) uses &&
    forallb (fun e => let '(c, k) := e in
                      if String.eqb c "if" then existsb (fun u => let '(c', _, _) := u in String.eqb c' "if") uses
                      else forallb (fun s => existsb (fun u => let '(c', k', s') := u in String.eqb c' c && String.eqb k' k && Nat.eqb s' s) uses)
                                   (sites_of f c) && negb (match sites_of f c with [] => true | _ => false end)) exps
  end.

(* optimize and optimize_ir, optimizer.fold_constants and fold_constants agree on the defaults of the options they share *)
Definition default_of (f p : string) : option string :=
  match find (fun r => let '(f', p', _, _) := r in String.eqb f f' && String.eqb p p') wiring with
  | Some (_, _, d, _) => Some d
  | None => None
  end.
Definition strip_prefix (d : string) : string :=      (* optimize writes constant_folding.X / _constant_folding.X for the same constant X *)
  let fix go (s : string) (acc : string) : string :=
      match s with
      | EmptyString => acc
      | String c t => if Ascii.eqb c (Ascii.ascii_of_nat 46) then go t EmptyString else go t (acc ++ String c EmptyString)
      end in go d EmptyString.
Definition defaults_ok : bool :=
  forallb (fun r => let '(f, p, d, _) := r in
                    if String.eqb f "optimize" then match default_of "optimize_ir" p with Some d' => String.eqb (strip_prefix d) (strip_prefix d') | None => false end
                    else true) wiring.

Theorem source_option_wiring_ok : forallb row_ok wiring && defaults_ok = true.
Proof. vm_compute. reflexivity. Qed.
