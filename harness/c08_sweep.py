"""C08 helper (runs as a subprocess: JSON on stdin, one JSON line on stdout): differential sweep over the repository's
own OpInfo table.

For every entry of tests/function_libs/torch_lib/ops_test_data.TESTED_TORCHLIB_OPS (op <-> torch_lib function, with the
repository's input wranglers, tolerances and skip/xfail matchers) the function is traced as in ops_test_common.graph_executor,
run on onnxruntime (ORT_DISABLE_ALL) and compared with torch eager on OpInfo sample inputs.  Beyond what ops_test.py does:
dtypes outside its TESTED_DTYPES (uint8, int16, float64) when the function's type constraints admit them, and every integer
`dim`-like keyword argument replayed as `dim - rank` (the same call for PyTorch).

Expected failures listed by the repository (skip / xfail entries, whole-op or per-sample) are never reported.
Output: {"ran": n, "by_status": {...}, "mismatches": [key, ...], "details": {key: short text}, "ops": n_ops}
where key = "<op_info_name>|<variant>|<function>|<dtype>|<sample index>|<perturbation>|<kind>".
"""
from __future__ import annotations

import json
import sys
import time
import warnings

warnings.filterwarnings("ignore")


def main():
    cfg = json.loads(sys.stdin.read() or "{}")
    per_op = int(cfg.get("samples_per_op", 3))
    budget = float(cfg.get("budget_s", 60))
    dtype_names = cfg.get("dtypes", ["float32", "int64"])
    only = set(cfg.get("only", []))
    t0 = time.time()

    import numpy as np
    import torch
    from torch.utils import _pytree as pytree

    import os
    sys.path.insert(0, os.path.dirname(os.path.dirname(os.path.abspath(__file__))))
    from harness import c08_exec as X
    X.mods()
    from tests.function_libs.torch_lib import ops_test_common as C
    from tests.function_libs.torch_lib import ops_test_data as D

    dtypes = [getattr(torch, n) for n in dtype_names]
    opinfos = {}
    for o in D.OPS_DB:
        opinfos.setdefault(o.name, []).append(o)

    def whole_op_expected_failure(name, variant, dtype):
        for meta in D.EXPECTED_SKIPS_OR_FAILS:
            if meta.op_name != name or not meta.enabled_if:
                continue
            if (meta.variant_name or "") != (variant or ""):
                continue
            if meta.dtypes is not None and dtype not in meta.dtypes:
                continue
            if meta.device_type not in (None, "cpu"):
                continue
            if meta.test_class_name not in (None, "TestOutputConsistencyFullGraph"):
                continue
            return True
        return False

    def sample_expected_failure(name, sample, dtype):
        if name not in D.OP_WITH_SKIPPED_XFAIL_SUBTESTS:
            return False
        for meta in D.SKIP_XFAIL_SUBTESTS:
            if meta.op_name != name or not meta.enabled_if:
                continue
            if meta.dtypes is not None and dtype not in meta.dtypes:
                continue
            if meta.device_type not in (None, "cpu"):
                continue
            try:
                if meta.matcher(sample):
                    return True
            except Exception:
                return True      # a matcher that cannot judge the sample: stay on the safe side
        return False

    DIM_KEYS = ("dim", "dims", "axis", "start_dim", "end_dim", "dim0", "dim1", "dim2")
    per_kind = int(cfg.get("per_kind", 2))

    def is_int(v):
        return isinstance(v, int) and not isinstance(v, bool)

    ENUM_LIKE = ("mode", "reduction", "dtype", "layout", "memory_format", "format", "device", "approximate")

    def enum_like_positions(fn):
        """positional argument slots (index into sample.args) whose parameter in the torch_lib function is an enumeration
        code (interpolation_mode, padding_mode, reduction, dtype, ...): negating such an integer is not a meaningful call
        (ATen casts it to a C++ enum unchecked), so the `negated` perturbation leaves those slots alone."""
        try:
            import inspect
            names = list(inspect.signature(getattr(fn, "function", None) or getattr(fn, "func", None) or fn).parameters)
        except Exception:
            return None
        return {i - 1 for i, n in enumerate(names) if i >= 1 and any(e in n.lower() for e in ENUM_LIKE)}, names

    def variants_of(sample, fn=None):
        """Generic perturbations of one OpInfo sample: [(tag, input, args, kwargs)].  Every variant is judged against torch
        eager on the SAME perturbed arguments (torch refusing it just drops the variant), so any of them is a legitimate
        differential case; they aim at what sample lists tend to leave out: negative dims, extents that differ from each
        other, per-dimension sequences with unequal entries, negative integer arguments."""
        x, args, kw = sample.input, list(sample.args), dict(sample.kwargs)
        out = []
        if isinstance(x, torch.Tensor) and x.dim() > 0:
            k2, changed = dict(kw), False
            for k in DIM_KEYS:
                v = k2.get(k)
                if is_int(v) and 0 <= v < x.dim():
                    k2[k] = v - x.dim()
                    changed = True
                elif isinstance(v, (list, tuple)) and v and all(is_int(q) and 0 <= q < x.dim() for q in v):
                    k2[k] = type(v)(q - x.dim() for q in v)
                    changed = True
            if changed:
                out.append(("negative-dim", x, args, k2))
        if isinstance(x, torch.Tensor) and x.dim() >= 2:
            sh = list(x.shape)
            new = [e + (len(sh) - 1 - i) if e >= 2 else e for i, e in enumerate(sh)]
            if new != sh:
                g = torch.Generator().manual_seed(7)
                if x.dtype.is_floating_point:
                    x2 = (torch.rand(new, generator=g) * 8 - 4).to(x.dtype)
                elif x.dtype == torch.bool:
                    x2 = torch.rand(new, generator=g) > 0.5
                else:
                    x2 = torch.randint(0 if x.dtype == torch.uint8 else -8, 9, new, generator=g).to(x.dtype)
                out.append(("distinct-extents", x2, args, kw))
        # sequences of equal ints -> last entry changed; positive ints -> negated (keyword and positional arguments)
        slots = [("kw:" + k, v) for k, v in kw.items()] + [(f"arg{i}", v) for i, v in enumerate(args)]
        enum_info = enum_like_positions(fn) if fn is not None else None
        for name, v in slots:
            def put(val, name=name):
                if name.startswith("kw:"):
                    k3 = dict(kw)
                    k3[name[3:]] = val
                    return x, args, k3
                a3 = list(args)
                a3[int(name[3:])] = val
                return x, a3, kw
            if isinstance(v, (list, tuple)) and len(v) >= 2 and all(is_int(q) for q in v) and len(set(v)) == 1 and v[0] >= 0:
                for delta in (-1, 1):
                    if v[-1] + delta >= 0:
                        out.append((f"unequal-entries:{name}:{delta:+d}",) + put(type(v)(list(v[:-1]) + [v[-1] + delta])))
            elif is_int(v) and v >= 1 and name[3:] not in DIM_KEYS:
                if name.startswith("kw:") and any(e in name[3:].lower() for e in ENUM_LIKE):
                    continue
                if name.startswith("arg"):
                    if enum_info is None or int(name[3:]) in enum_info[0]:
                        continue               # unknown signature or an enumeration code: not negated
                out.append((f"negated:{name}",) + put(-v))
        return out

    def dtypes_for_perturbation(op, fn):
        for dt in dtypes:
            try:
                if op.supports_dtype(dt, "cpu") and C.dtype_op_schema_compatible(dt, fn.op_signature):
                    return dt
            except Exception:
                pass
        return None

    ran = 0
    by_status = {}
    mismatches, details = [], {}
    n_ops = 0
    truncated = False
    infos = sorted((i for i in D.TESTED_TORCHLIB_OPS if not i.complex), key=lambda i: (i.op_info_name, getattr(i.op, "name", "")))
    for info in infos:
        if only and info.op_info_name not in only:
            continue
        if time.time() - t0 > budget:
            truncated = True
            break
        fn = info.op
        if cfg.get("progress"):
            print("OP", info.op_info_name, file=sys.stderr, flush=True)
        fname = getattr(fn, "name", getattr(fn, "__name__", "?"))
        for op in opinfos.get(info.op_info_name, []):
            variant = op.variant_test_name or ""
            for dtype in dtypes:
                try:
                    if not op.supports_dtype(dtype, "cpu"):
                        continue
                    if not C.dtype_op_schema_compatible(dtype, fn.op_signature):
                        continue
                except Exception:
                    continue
                if whole_op_expected_failure(info.op_info_name, variant, dtype):
                    by_status["listed-whole-op"] = by_status.get("listed-whole-op", 0) + 1
                    continue
                torch.manual_seed(42)
                np.random.seed(42)
                try:
                    samples = []
                    for s in op.sample_inputs("cpu", dtype, requires_grad=False):
                        samples.append(s)
                        if len(samples) >= 300:
                            break
                except Exception:
                    by_status["sample-generation-failed"] = by_status.get("sample-generation-failed", 0) + 1
                    continue
                if not samples:
                    continue
                n_ops += 1
                rtol, atol = info.get_tolerance(dtype)
                listed = [sample_expected_failure(info.op_info_name, smp, dtype) for smp in samples]
                by_status["listed-sample"] = by_status.get("listed-sample", 0) + sum(listed)
                # as is: `per_op` samples spread evenly over the whole sample list (the first and the last included)
                n = len(samples)
                idx = sorted({round(j * (n - 1) / max(1, per_op - 1)) for j in range(per_op)}) if n > per_op else list(range(n))
                runs = [(si, "as-is", samples[si].input, list(samples[si].args), dict(samples[si].kwargs)) for si in idx if not listed[si]]
                # perturbed: per kind of perturbation the first `per_kind` samples it applies to and torch accepts.
                # raw ATen / prims entry points do not validate their arguments (a negative dim can crash torch itself): as is only
                if not info.op_info_name.startswith(("ops.", "_")) and dtype == dtypes_for_perturbation(op, fn):
                    from torch.testing._internal.opinfo import core as opinfo_core
                    cands = {}
                    for si, smp in enumerate(samples):
                        if listed[si]:
                            continue
                        for tag, x2, a2_, k2_ in variants_of(smp, fn):
                            kind = tag.rsplit(":", 1)[0] if tag.startswith("unequal") else tag
                            cands.setdefault(kind, []).append((si, tag, x2, a2_, k2_))

                    def spread(lst, k):
                        if len(lst) <= k:
                            return lst
                        return [lst[i] for i in sorted({round(j * (len(lst) - 1) / max(1, k - 1)) for j in range(k)})]

                    for kind in sorted(cands):
                        accepted = []
                        for si, tag, x2, a2_, k2_ in spread(cands[kind], 8 * per_kind):
                            try:
                                op(x2, *a2_, **k2_)
                            except Exception:
                                by_status["torch-refuses"] = by_status.get("torch-refuses", 0) + 1
                                continue
                            try:          # the repository's per-sample skip/xfail matchers also judge the perturbed sample
                                if sample_expected_failure(info.op_info_name, opinfo_core.SampleInput(x2, args=tuple(a2_), kwargs=k2_), dtype):
                                    by_status["listed-sample"] = by_status.get("listed-sample", 0) + 1
                                    continue
                            except Exception:
                                continue
                            accepted.append((si, tag, x2, a2_, k2_))
                        # spread over the sample list (first and last included), not the first few
                        runs.extend(spread(accepted, per_kind))
                for si, tag, xin, args_, kw in runs:
                    if True:
                        key_base = f"{info.op_info_name}|{variant}|{fname}|{str(dtype).replace('torch.', '')}|{si}|{tag}"
                        inputs = (xin, *args_)
                        try:
                            torch_output = op(*inputs, **kw)
                        except Exception:
                            by_status["torch-refuses"] = by_status.get("torch-refuses", 0) + 1
                            continue
                        if isinstance(torch_output, torch.Tensor) and torch.is_complex(torch_output):
                            continue
                        ran += 1
                        status, text = "ok", ""
                        try:
                            input_onnx = [C.convert_tensor_to_numpy(x) for x in inputs]
                            kwargs_onnx = C.convert_kwargs_for_onnx(kw)
                            if info.input_wrangler:
                                input_onnx, kwargs_onnx = info.input_wrangler(input_onnx, kwargs_onnx)
                            a2 = [torch.from_numpy(a) if isinstance(a, np.ndarray) else
                                  ([torch.from_numpy(b) if isinstance(b, np.ndarray) else b for b in a] if isinstance(a, (list, tuple)) else a)
                                  for a in input_onnx]
                            k2 = {k: (torch.from_numpy(v) if isinstance(v, np.ndarray) else v) for k, v in kwargs_onnx.items()}
                            tr = X.trace(fn, a2, k2)
                            got = X.run_ort(tr)
                        except Exception as e:
                            msg = str(e)
                            if any(s in msg for s in ("NOT_IMPLEMENTED", "Could not find an implementation", "Type Error: Type 'tensor(")):
                                status = "no-kernel"
                            else:
                                status, text = "error", f"{type(e).__name__}: {msg[:160]}"
                        if status == "ok":
                            flat_t, _ = pytree.tree_flatten(torch_output)
                            flat_g, _ = pytree.tree_flatten(got)
                            if len(flat_t) != len(flat_g):
                                status, text = "structure", f"{len(flat_g)} vs {len(flat_t)} outputs"
                            else:
                                for j, (t, g) in enumerate(zip(flat_t, flat_g)):
                                    expected = t if isinstance(t, torch.Tensor) else torch.tensor(t)
                                    actual = torch.tensor(g)
                                    if info.op_info_name in D.NONDETERMINISTIC_OPS or j in D.COMPARE_SHAPE_ONLY_OPS[info.op_info_name]:
                                        if actual.shape != expected.shape or actual.dtype != expected.dtype:
                                            status, text = "shape-dtype", f"{actual.dtype}{tuple(actual.shape)} vs {expected.dtype}{tuple(expected.shape)}"
                                        continue
                                    try:
                                        torch.testing.assert_close(actual, expected, rtol=rtol, atol=atol, equal_nan=True, check_device=False)
                                    except AssertionError as e:
                                        first = str(e).strip().splitlines()[0][:120]
                                        status = "dtype" if "dtype" in first else ("shape" if "shape" in first else "values")
                                        text = first
                                        break
                        by_status[status] = by_status.get(status, 0) + 1
                        if status not in ("ok", "no-kernel") and cfg.get("dump"):     # development aid: the call that failed
                            def _short(v):
                                if isinstance(v, torch.Tensor):
                                    return f"T{tuple(v.shape)}{str(v.dtype).replace('torch.', '')}" + (str(v.flatten().tolist()[:6]) if v.numel() <= 6 else "")
                                if isinstance(v, (list, tuple)):
                                    return "[" + ",".join(_short(w) for w in v) + "]"
                                return repr(v)
                            text += " ARGS=" + ",".join(_short(v) for v in inputs) + " KW=" + ",".join(f"{k}={_short(v)}" for k, v in kw.items())
                            try:
                                text += " TORCH=" + ";".join(_short(w) for w in pytree.tree_flatten(torch_output)[0])[:200]
                                text += " ORT=" + ";".join(_short(torch.tensor(w)) for w in pytree.tree_flatten(got)[0])[:200]
                            except Exception:
                                pass
                        if status not in ("ok", "no-kernel"):
                            key = key_base + "|" + status
                            mismatches.append(key)
                            details[key] = text
    e2e = end_to_end(cfg) if cfg.get("e2e", True) else {}
    print(json.dumps({"e2e": e2e, "ran": ran, "ops": n_ops, "by_status": by_status, "mismatches": sorted(set(mismatches)),
                      "details": details, "truncated": truncated, "wall_s": round(time.time() - t0, 1)}))


def end_to_end(cfg):
    """torch.onnx.export(dynamo=True) of small modules built from the modelled operators; the exported model on
    onnxruntime vs the module.  -> {name: "equal" | "values" | "shape" | "dtype" | "export-error: ..."}"""
    import io

    import numpy as np
    import onnxruntime as ort
    import torch

    def mod(f):
        class M(torch.nn.Module):
            def forward(self, *xs):
                return f(*xs)
        return M()

    x23 = torch.arange(6).reshape(2, 3)
    x234 = torch.arange(24).reshape(2, 3, 4)
    mods = {
        "roll-last-dim": (mod(lambda x: torch.roll(x, 1, -1)), (x23,)),
        "roll-shift-beyond-size": (mod(lambda x: torch.roll(x.reshape(2, -1), -5, 1).transpose(0, -1)), (torch.arange(8),)),
        "roll-within-size": (mod(lambda x: torch.roll(x, [1, -2], [0, 1])), (x234,)),
        "narrow-flatten": (mod(lambda x: torch.narrow(x, 0, -2, 2).flatten(0) + 1), (torch.arange(12).reshape(4, 3),)),
        "div-floor-sum": (mod(lambda x: torch.div(x, 3, rounding_mode="floor").sum(dim=-1, keepdim=True)), (torch.arange(-6, 6).reshape(3, 4),)),
        "views": (mod(lambda x: x.permute(2, -3, 1).flatten(1).unsqueeze(-1).expand(-1, -1, 2).transpose(0, -1).reshape(2, -1)), (x234,)),
        "index-ops": (mod(lambda x: torch.cat([x.select(1, -1), x[:, 0, :].flip(-1)], -1).cumsum(0).clamp(3, 40)), (x234,)),
        "stack-split-tril": (mod(lambda x: torch.stack(torch.split(x, 2, -1), 0).sum(0).tril(-1).remainder(-5)), (x234,)),
    }
    out = {}
    for name in sorted(mods):
        m, args = mods[name]
        try:
            prog = torch.onnx.export(m, args, dynamo=True, verbose=False)
            buf = io.BytesIO()
            prog.save(buf)
            so = ort.SessionOptions()
            so.log_severity_level = 4
            so.intra_op_num_threads = 1
            so.inter_op_num_threads = 1
            sess = ort.InferenceSession(buf.getvalue(), so, providers=["CPUExecutionProvider"])
            got = sess.run(None, {i.name: a.numpy() for i, a in zip(sess.get_inputs(), args)})[0]
            want = m(*args).numpy()
            if got.dtype != want.dtype:
                out[name] = "dtype"
            elif got.shape != want.shape:
                out[name] = "shape"
            else:
                out[name] = "equal" if np.array_equal(got, want) else "values"
        except Exception as e:
            out[name] = "export-error: " + type(e).__name__
    return out


if __name__ == "__main__":
    main()
