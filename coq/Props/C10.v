(* C10 property theorems: statements only, each closed by `exact`, Print Assumptions beneath.
   Models: Version/Model.v (conversion loop, pass, ModelProto wrapper), Version/Adapters.v (adapters and
   their algebra), Version/Std.v (instantiation with the registry regenerated from the live module,
   Gen/VersionTables.v).  fx ranges over the variants of the code (as it stands / with the proposed
   repairs); `flags_fixed` = both adapter repairs in. *)
From Coq Require Import ZArith List Bool String.
Import ListNotations.
Require Import OV.Gen.VersionTables OV.Gen.VersionSchemas OV.Version.Model OV.Version.Adapters OV.Version.AdaptersProofs
               OV.Version.ConvertProofs OV.Version.Std OV.Version.StdProofs
               OV.Version.Schema OV.Version.SchemaProofs OV.Version.SchemaStd OV.Version.SchemaStdProofs
               OV.Version.AdaptTypingProofs OV.Version.Model2 OV.Version.Model2Proofs
               OV.Gen.VersionDocSteps OV.Version.UnsupportedProofs OV.Version.CApi OV.Version.CApiProofs.
Open Scope Z_scope.

(* ---- convert_consistent: a conversion that finishes without a logged skip declares the target
   consistently: model import, every function import, every default-domain node (recursively).
   For every variant of the shipped adapters, any fuel, any model that was self-consistent at some s. *)
Theorem C10_convert_consistent : forall fx fuel s t M M',
  consistent_at s M = true ->
  convert_native (std_adapt fx) supported_min supported_max fuel M t = MDone M' [] ->
  consistent_at t M' = true.
Proof. exact (fun fx fuel => native_consistent (std_adapt fx) (std_adapt_flat fx) supported_min supported_max fuel). Qed.
Print Assumptions C10_convert_consistent.

(* non-vacuity: subgraph, function, all three adapted ops, a custom-domain node; 18 -> 22 *)
Theorem C10_convert_consistent_example : exists M',
  consistent_at 18 ex_model = true /\ std_native flags_current ex_model 22 = MDone M' [] /\
  consistent_at 22 M' = true /\ List.length (m_graph M') = 14%nat.
Proof. exact native_consistent_example. Qed.
Print Assumptions C10_convert_consistent_example.

(* the same for an arbitrary registry whose adapters build nodes without subgraphs *)
Theorem C10_convert_consistent_any_registry : forall (adapt : adapter),
  (forall op k n news, adapt op k n = AReplace news -> Forall (fun m => n_subs m = []) news) ->
  forall smin smax fuel s t M M',
  consistent_at s M = true ->
  convert_native adapt smin smax fuel M t = MDone M' [] -> consistent_at t M' = true.
Proof. exact native_consistent. Qed.
Print Assumptions C10_convert_consistent_any_registry.

(* every finished conversion stamps model and functions, skipped nodes or not *)
Theorem C10_convert_stamps : forall fx fuel t M M' l,
  convert_native (std_adapt fx) supported_min supported_max fuel M t = MDone M' l ->
  m_decl M' = Some t /\ m_ai M' = None /\ Forall (fun f => f_decl f = Some t /\ f_ai f = None) (m_funcs M').
Proof. exact (fun fx fuel => native_stamps (std_adapt fx) supported_min supported_max fuel). Qed.
Print Assumptions C10_convert_stamps.

(* ---- convert_all_or_nothing.  The full statement
       forall M t, result is (MDone M' [] fully converted) or the state left behind equals M
   is REFUTED on the faithful model, for every variant: an adapter error inside the step loop is logged, the
   node stays as it was and the model is stamped (witness replayed on the real code by the harness:
   GroupNormalization whose input has no shape, 20 -> 21). *)
Theorem C10_convert_all_or_nothing_refuted : forall fx, exists M t M' log,
  consistent_at 20 M = true /\ std_native fx M t = MDone M' log /\ log <> [] /\
  m_decl M' = Some t /\ model_eqb M' M = false /\ nth_error (m_graph M') 1 = Some gn_noshape.
Proof. exact all_or_nothing_refuted. Qed.
Print Assumptions C10_convert_all_or_nothing_refuted.

(* the part that holds: a target below the model's version raises before anything is touched
   (function-free model, as after the inlining that the public entry performs) *)
Theorem C10_convert_all_or_nothing_partial : forall fx fuel s t M e M' l,
  consistent_at s M = true -> m_funcs M = [] -> t < s ->
  convert_native (std_adapt fx) supported_min supported_max fuel M t = MRaised e M' l -> M' = M /\ l = [].
Proof. exact (fun fx fuel => native_downgrade_unchanged (std_adapt fx) supported_min supported_max fuel). Qed.
Print Assumptions C10_convert_all_or_nothing_partial.

Theorem C10_convert_all_or_nothing_partial_example :
  consistent_at 20 w_skip = true /\ std_native flags_current w_skip 19 = MRaised EDowngrade w_skip [].
Proof. exact downgrade_example. Qed.
Print Assumptions C10_convert_all_or_nothing_partial_example.

(* internal entry only (the public entry inlines first): a reference attribute in a function stops the
   conversion half way -- graph converted, imports not stamped *)
Theorem C10_native_abort_half_converted_refuted : forall fx, exists M t e M' l,
  consistent_at 19 M = true /\ std_native fx M t = MRaised e M' l /\
  model_eqb M' M = false /\ m_decl M' = Some 19 /\ forallb (at_version 19) (m_graph M') = false.
Proof. exact native_abort_half_converted. Qed.
Print Assumptions C10_native_abort_half_converted_refuted.

(* ---- the pass with fallback.  Oracles (Section variables of ConvertProofs.NativeTheorems, here
   universally quantified with their assumed behaviour as hypotheses): onnx_ir's inline / clean-up passes
   keep a consistent model consistent, inlining leaves no function, a successful C-API call returns a graph
   consistent at the target.  Then: converted and consistent at t, or (fallback on, natively unsupported,
   C API failed) the model is left as it was, consistent at s. *)
Theorem C10_pass_consistent : forall fx fuel (inline cleanup : model -> model) (capi : model -> Z -> option model),
  (forall s M, consistent_at s M = true -> consistent_at s (inline M) = true) ->
  (forall s M, consistent_at s M = true -> consistent_at s (cleanup M) = true) ->
  (forall M, m_funcs (inline M) = []) ->
  (forall M t M2, capi M t = Some M2 -> consistent_at t (Model (m_decl M2) (m_ai M2) (m_graph M2) []) = true) ->
  forall fb s t M M',
  consistent_at s M = true ->
  pass_convert (std_adapt fx) supported_min supported_max fuel inline cleanup capi fb M t = MDone M' [] ->
  consistent_at t M' = true \/
  (fb = true /\ supported supported_min supported_max (inline M) t = false /\ capi (inline M) t = None /\
   M' = cleanup (inline M) /\ consistent_at s M' = true).
Proof. exact (fun fx fuel => pass_consistent (std_adapt fx) (std_adapt_flat fx) supported_min supported_max fuel). Qed.
Print Assumptions C10_pass_consistent.

(* all four branches on concrete oracles: native, already at the target, C API answers, C API fails *)
Theorem C10_pass_consistent_example :
  (exists M', std_pass flags_current id_model id_model no_capi true w_proto 21 = MDone M' [] /\ consistent_at 21 M' = true) /\
  std_pass flags_current id_model id_model no_capi true w_proto 19 = MDone w_proto [] /\
  (exists M', std_pass flags_current id_model id_model capi_19 true w_skip 19 = MDone M' [] /\ consistent_at 19 M' = true) /\
  std_pass flags_current id_model id_model no_capi true w_skip 19 = MDone w_skip [].
Proof. exact pass_example. Qed.
Print Assumptions C10_pass_consistent_example.

Theorem C10_pass_downgrade_unchanged : forall fx fuel (inline cleanup : model -> model) (capi : model -> Z -> option model),
  (forall s M, consistent_at s M = true -> consistent_at s (inline M) = true) ->
  (forall M, m_funcs (inline M) = []) ->
  forall s t M e M' l,
  consistent_at s M = true -> t < s ->
  pass_convert (std_adapt fx) supported_min supported_max fuel inline cleanup capi false M t = MRaised e M' l ->
  M' = inline M /\ l = [].
Proof. exact (fun fx fuel inline cleanup capi => pass_downgrade_unchanged (std_adapt fx) supported_min supported_max fuel inline cleanup capi). Qed.
Print Assumptions C10_pass_downgrade_unchanged.

(* ---- proto_wrapper_consistent.  REFUTED for the wrapper as it stands (opset_import not copied back):
   witness DFT(axis=1) at 19 -> 20, replayed on the real code. *)
Theorem C10_proto_wrapper_consistent_refuted : forall fx, exists p t p',
  consistent_at 19 p = true /\
  proto_convert false (std_pass fx id_model id_model no_capi false) p t = PDone p' [] /\
  m_decl p' = Some 19 /\ consistent_at t p' = false /\ list_eqb node_eqb (m_graph p') (m_graph p) = false.
Proof. exact proto_wrapper_refuted. Qed.
Print Assumptions C10_proto_wrapper_consistent_refuted.

(* in general: whenever the unrepaired wrapper returns for t <> s, the proto is not consistent at t *)
Theorem C10_proto_wrapper_current_inconsistent : forall (pass : model -> Z -> mres) p s t p' l,
  consistent_at s p = true -> s <> t ->
  proto_convert false pass p t = PDone p' l -> consistent_at t p' = false.
Proof. exact proto_current_inconsistent. Qed.
Print Assumptions C10_proto_wrapper_current_inconsistent.

(* the repaired wrapper (proposed_fixes/C10_proto_opset_import.diff): the caller's proto is as consistent as
   the in-memory model the pass produced *)
Theorem C10_proto_wrapper_fixed_consistent : forall (pass : model -> Z -> mres) p t p' l v M',
  pass (of_proto p) t = MDone M' l -> consistent_at v M' = true ->
  proto_convert true pass p t = PDone p' l -> consistent_at v p' = true.
Proof. exact proto_fixed_consistent. Qed.
Print Assumptions C10_proto_wrapper_fixed_consistent.

Theorem C10_proto_wrapper_fixed_example : exists p',
  proto_convert true (std_pass flags_current id_model id_model no_capi false) w_proto 20 = PDone p' [] /\
  consistent_at 20 p' = true /\ List.length (m_graph p') = 3%nat.
Proof. exact proto_fixed_example. Qed.
Print Assumptions C10_proto_wrapper_fixed_example.

Theorem C10_proto_wrapper_raise_unchanged : forall b (pass : model -> Z -> mres) p t e p',
  proto_convert b pass p t = PRaised e p' -> p' = p.
Proof. exact proto_raise_unchanged. Qed.
Print Assumptions C10_proto_wrapper_raise_unchanged.

(* ---- adapter algebra.  GroupNormalization 20 -> 21: Reshape[-1,1]; Expand[1,c/g]; Reshape[-1] repeats each
   of the g elements c/g times: element i of the result is element i/(c/g), for every g, c, vector. *)
Theorem C10_groupnorm_expand_nth : forall (A : Type) (d : nat) (s : list A) (def : A) (i : nat),
  (0 < d)%nat -> (i < List.length s * d)%nat ->
  nth i (expand_scale d s) def = nth (i / d) s def.
Proof. exact (@expand_scale_nth). Qed.
Print Assumptions C10_groupnorm_expand_nth.

(* per-group scale/bias read at opset 20 = expanded vectors read per channel at opset 21 *)
Theorem C10_groupnorm_expand_sound : forall (xhat : Z -> nat -> nat -> Z) (g c : nat) (eps : Z) (scale bias : list Z) (ch pos : nat),
  (0 < g)%nat -> (0 < c)%nat -> (c mod g = 0)%nat ->
  List.length scale = g -> List.length bias = g -> (ch < c)%nat ->
  gn21 xhat eps (expand_scale (c / g) scale) (expand_scale (c / g) bias) ch pos = gn18 xhat g c eps scale bias ch pos.
Proof. exact gn_expand_sound. Qed.
Print Assumptions C10_groupnorm_expand_sound.

Theorem C10_groupnorm_expand_example : expand_scale 3 [1; 2] = [1; 1; 1; 2; 2; 2].
Proof. exact expand_example. Qed.
Print Assumptions C10_groupnorm_expand_example.

(* the adapter fires (g = 2, c = 6), keeps epsilon in the repaired variant, expands by 3 *)
Theorem C10_groupnorm_adapter_example :
  gn_decide gn_static = GnExpand 2 3 /\
  eps_of (n_attrs (gn_last flags_fixed gn_static 2 3)) = 1056964608 /\
  expand_scale (Z.to_nat 3) [10; 20] = [10; 10; 10; 20; 20; 20].
Proof. exact gn_adapter_example. Qed.
Print Assumptions C10_groupnorm_adapter_example.

(* the adapter (with the epsilon repair) is sound wherever it fires *)
Theorem C10_groupnorm_adapter_sound : forall fx (xhat : Z -> nat -> nat -> Z) n g d c s0 b0 (scale bias : list Z) (ch pos : nat),
  fx_gn_eps fx = true ->
  gn_decide n = GnExpand g d -> n_shp n = [DStatic c; s0; b0] ->
  0 < g -> 0 < c -> c mod g = 0 ->
  List.length scale = Z.to_nat g -> List.length bias = Z.to_nat g -> (ch < Z.to_nat c)%nat ->
  gn21 xhat (eps_of (n_attrs (gn_last fx n g d))) (expand_scale (Z.to_nat d) scale) (expand_scale (Z.to_nat d) bias) ch pos
  = gn18 xhat (Z.to_nat g) (Z.to_nat c) (eps_of (n_attrs n)) scale bias ch pos.
Proof. exact gn_adapter_sound. Qed.
Print Assumptions C10_groupnorm_adapter_sound.

(* REFUTED for the code as it stands: epsilon is dropped (witness replayed through the execution oracle) *)
Theorem C10_groupnorm_epsilon_refuted : exists n g d,
  gn_decide n = GnExpand g d /\ eps_of (n_attrs (gn_last flags_current n g d)) <> eps_of (n_attrs n).
Proof. exact gn_eps_dropped_refuted. Qed.
Print Assumptions C10_groupnorm_epsilon_refuted.

(* REFUTED, every variant: symbolic channel dimension -> not adapted; missing shape -> adapter raises and the
   loop skips the node; and un-expanded vectors read at opset 21 differ from the opset-20 reading *)
Theorem C10_groupnorm_not_adapted_refuted : forall fx,
  (exists n, groupnormalization_20_21 fx n = ANone /\ get_int n "num_groups" None = Some 2 /\
             n_shp n = [DSym; DStatic 2; DStatic 2]) /\
  (exists n, groupnormalization_20_21 fx n = ARaiseVCE /\ n_shp n = [DMissing; DStatic 2; DStatic 2]) /\
  (exists (xhat : Z -> nat -> nat -> Z) g c eps scale bias ch pos,
     (0 < g)%nat /\ (c mod g = 0)%nat /\ List.length scale = g /\ List.length bias = g /\ (ch < c)%nat /\
     gn21 xhat eps scale bias ch pos <> gn18 xhat g c eps scale bias ch pos).
Proof. exact (fun fx => conj (gn_symbolic_not_adapted fx) (conj (gn_missing_shape_raises fx) gn_not_expanded_differs)). Qed.
Print Assumptions C10_groupnorm_not_adapted_refuted.

(* DFT 19 -> 20: axis attribute -> axis input.  Sound for an explicit axis in every variant ... *)
Theorem C10_dft_adapter_sound_explicit : forall fx rank n a,
  n_ins n <> [] -> get_int n "axis" None = Some a ->
  dft20_axis rank (dft_19_20 fx n) n = dft19_axis rank n.
Proof. exact dft_adapter_sound_explicit. Qed.
Print Assumptions C10_dft_adapter_sound_explicit.

(* ... and for every valid node once the default axis is materialised (proposed_fixes/C10_dft_default_axis.diff) *)
Theorem C10_dft_adapter_sound : forall fx rank n a,
  fx_dft_axis fx = true -> n_ins n <> [] -> get_int n "axis" (Some 1) = Some a ->
  dft20_axis rank (dft_19_20 fx n) n = dft19_axis rank n.
Proof. exact dft_adapter_sound. Qed.
Print Assumptions C10_dft_adapter_sound.

Theorem C10_dft_adapter_sound_example :
  dft20_axis 4 (dft_19_20 flags_fixed (Node "DFT" true None false [] [true] [] [])) (Node "DFT" true None false [] [true] [] [])
  = dft19_axis 4 (Node "DFT" true None false [] [true] [] []) /\
  dft19_axis 4 (Node "DFT" true None false [] [true] [] []) = Some 1.
Proof. exact dft_adapter_example. Qed.
Print Assumptions C10_dft_adapter_sound_example.

(* code as it stands, no axis attribute: the transformed axis is right exactly for rank-3 inputs *)
Theorem C10_dft_default_axis_iff : forall rank n,
  n_ins n <> [] -> lookup "axis" (n_attrs n) = None ->
  (dft20_axis rank (dft_19_20 flags_current n) n = dft19_axis rank n <-> rank = 3).
Proof. exact dft_default_axis_iff. Qed.
Print Assumptions C10_dft_default_axis_iff.

Theorem C10_dft_default_axis_refuted : exists rank n,
  n_ins n <> [] /\ dft20_axis rank (dft_19_20 flags_current n) n <> dft19_axis rank n.
Proof. exact dft_default_axis_refuted. Qed.
Print Assumptions C10_dft_default_axis_refuted.

(* GridSample 19 -> 20: the node standing in place of n interpolates as n did; other attributes carried over *)
Theorem C10_gridsample_adapter_sound : forall n m k,
  gs_after n = Some m -> gs_node_mode16 n = Some k -> gs_node_mode20 m = Some k.
Proof. exact gridsample_adapter_sound. Qed.
Print Assumptions C10_gridsample_adapter_sound.

Theorem C10_gridsample_adapter_keeps_attrs : forall n m a p,
  gridsample_19_20 n = AReplace [m] ->
  get_int n "align_corners" (Some 0) = Some a -> get_str n "padding_mode" (Some "zeros"%string) = Some p ->
  get_int m "align_corners" (Some 0) = Some a /\ get_str m "padding_mode" (Some "zeros"%string) = Some p.
Proof. exact gridsample_adapter_keeps_attrs. Qed.
Print Assumptions C10_gridsample_adapter_keeps_attrs.

Theorem C10_gridsample_example :
  gs_after (Node "GridSample" true None false [("mode"%string, AStr "bicubic")] [true; true] [] [])
  = Some (Node "GridSample" true None false
            [("align_corners"%string, AInt 0); ("mode"%string, AStr "cubic"); ("padding_mode"%string, AStr "zeros")]
            [true; true] [] []).
Proof. exact gridsample_example. Qed.
Print Assumptions C10_gridsample_example.

(* ---- the registry as regenerated from the live module: every registered adapter is one of the modelled
   ones (default domain, up-conversion) registered inside the supported range; and since no op is adapted at
   two versions the detached node is never replaced or failed again by the loop *)
Theorem C10_registry_modelled : forall d o v up, In (d, o, v, up) registry_keys ->
  d = ""%string /\ up = true /\ (exists f, modelled flags_current o v = Some f) /\ supported_min <= v < supported_max.
Proof. exact registry_modelled. Qed.
Print Assumptions C10_registry_modelled.

Theorem C10_registry_ghost_quiet : forall fx n k cnt k' log,
  std_adapt fx (n_op n) k n <> ANone -> k < k' -> ghost (std_adapt fx) n k' cnt log = (None, log).
Proof. exact std_ghost_quiet. Qed.
Print Assumptions C10_registry_ghost_quiet.

(* ---- the silent majority: nodes WITHOUT an adapter are only re-stamped.  That is right iff the schema in force at
   the next opset accepts every node the previous one accepted, reading omitted attributes the same way.
   Schemas: Gen/VersionSchemas.v, regenerated from the installed onnx.defs (every ai.onnx operator, the schema in
   force at supported_min and every later version up to supported_max).
   upward_compat_sound: for ALL node views (any arity, any types, any attributes). *)
Theorem C10_upward_compat_sound : forall o n, upward_compatb o n = true ->
  forall x, node_valid o x = true -> node_valid n x = true.
Proof. exact upward_compat_sound. Qed.
Print Assumptions C10_upward_compat_sound.

(* ... no attribute removed, same kind and same default (an omitted attribute keeps its meaning); whatever is
   required by the new schema was required by the old one *)
Theorem C10_upward_compat_attrs : forall o n, upward_compatb o n = true ->
  (forall d, In d (sc_attrs o) -> exists d', In d' (sc_attrs n) /\ ad_name d' = ad_name d /\
                                             ad_kind d' = ad_kind d /\ ad_default d' = ad_default d) /\
  (forall d', In d' (sc_attrs n) -> ad_req d' = true ->
              exists d, In d (sc_attrs o) /\ ad_name d = ad_name d' /\ ad_req d = true).
Proof. exact upward_compat_attrs. Qed.
Print Assumptions C10_upward_compat_attrs.

(* ... no input/output position removed, added inputs are optional *)
Theorem C10_upward_compat_formals : forall o n, upward_compatb o n = true ->
  (List.length (sc_ins o) <= List.length (sc_ins n))%nat /\ (List.length (sc_outs o) <= List.length (sc_outs n))%nat /\
  Forall (fun f => fm_opt f = FOptional) (skipn (List.length (sc_ins o)) (sc_ins n)).
Proof. exact upward_compat_formals. Qed.
Print Assumptions C10_upward_compat_formals.

Theorem C10_upward_compat_examples :
  step_compat "Cast" 0 = Some true /\ step_compat "DFT" 0 = Some false /\ step_compat "GridSample" 0 = Some false /\
  step_compat "GroupNormalization" 0 = Some true /\ step_compat "QuantizeLinear" 0 = Some false /\ step_compat "QuantizeLinear" 2 = Some true.
Proof. exact upward_compat_examples. Qed.
Print Assumptions C10_upward_compat_examples.

(* the generated obligation (vm_compute over the regenerated tables): every version step of every operator inside the
   supported range has a registered adapter, or is upward compatible, or is one of the listed exceptions ... *)
Theorem C10_schema_table_obligation : forall op h, In (op, h) schema_table ->
  chainb (fun k => adapted_at registry_keys op k || excepted schema_exceptions op k) h = true.
Proof. exact table_steps. Qed.
Print Assumptions C10_schema_table_obligation.

(* ... and the exceptions are exactly the listed ones: QuantizeLinear 18 -> 19 *)
Theorem C10_schema_exceptions_exact : table_exceptions registry_keys schema_table = [("QuantizeLinear"%string, 19)].
Proof. exact exceptions_exact. Qed.
Print Assumptions C10_schema_exceptions_exact.

(* the FULL statement "every un-adapted step is upward compatible" *)
Definition C10_unadapted_steps_compatible_full : Prop := table_exceptions registry_keys schema_table = [].
(* is REFUTED: QuantizeLinear(x : int32, y_scale : float) is valid under the schema of opset 13..18, invalid under the
   schema of 19..22 (x and y_scale bound to one type variable), valid again from 23, and no adapter is registered.
   Replayed on the real code by the harness (finding C10:native:QuantizeLinear-18-19:...). *)
Theorem C10_unadapted_steps_compatible_refuted :
  valid_at schema_table "QuantizeLinear" 18 ql_int32 = true /\
  valid_at schema_table "QuantizeLinear" 19 ql_int32 = false /\
  valid_at schema_table "QuantizeLinear" 22 ql_int32 = false /\
  valid_at schema_table "QuantizeLinear" 23 ql_int32 = true /\
  adapted_at registry_keys "QuantizeLinear" 18 = false.
Proof. exact quantizelinear_19_refuted. Qed.
Print Assumptions C10_unadapted_steps_compatible_refuted.

(* valid under the schema in force at s => valid under the schema in force at t, for every operator without an
   adapter at any version >= s (so also DFT / GridSample from 20, GroupNormalization from 21), unless a listed
   exception lies in (s, t] *)
Theorem C10_restamped_valid : forall n n' info s t,
  strip n' = strip n -> q_from s (n_op n) = true -> clear_of schema_exceptions (n_op n) s t = true -> s <= t ->
  valid_at schema_table (n_op n) s (vnode_of n info) = true ->
  valid_at schema_table (n_op n') t (vnode_of n' info) = true.
Proof. exact restamped_valid. Qed.
Print Assumptions C10_restamped_valid.

(* ---- connected to the state machine: the "passes the checker against t" half of the property for the native path.
   A model all of whose default-domain operators (main graph, subgraphs, functions) have no adapter at any version >= s
   (q_from s: also a DFT / GridSample node at s >= 20 or a GroupNormalization node at s >= 21) is converted by
   re-stamping only -- same nodes up to versions, recursively (strip forgets versions at every depth) -- and every node
   (at any depth: the last conjunct holds for any pair of nodes equal up to versions) that is valid under the schema
   of the source opset is valid under the schema of the target opset.
   _partial, what remains exactly: for nodes that DO go through an adapter the validity of the replacement nodes is proved per
   adapter (C10_dft/gridsample/groupnorm_converted_valid below, for every target from the adapter's version on) but is NOT yet
   threaded through convert_native2 as one invariant.  Threading needs (a) a typing carried next to the work list (Model.node has
   no slot for types; two content-identical replacement nodes may be typed differently), (b) validity modulo deprecation for
   GroupNormalization-18 (deprecated: onnx.checker rejects every GroupNormalization node below 21, so "valid at the source" is
   false for them), (c) the ANone branches of the adapters (GridSample with mode nearest/linear/cubic, GroupNormalization with
   num_groups = channels or symbolic dims) shown validity-preserving; "valid" is schema validity (arity,
   attributes, types, type-variable binding), not shape inference or attribute *values*; equality of outputs is
   observed (backend node tests relabelled to the old opset), not proved. *)
Theorem C10_convert_valid_unadapted_partial : forall fx fuel s t M M' l,
  consistent_at s M = true ->
  forallb (quietb (q_from s)) (m_graph M) = true ->
  forallb (fun f => forallb (quietb (q_from s)) (f_nodes f)) (m_funcs M) = true ->
  convert_native (std_adapt fx) supported_min supported_max fuel M t = MDone M' l ->
  Forall2 (fun n n' => strip n' = strip n) (m_graph M) (m_graph M') /\
  Forall2 (fun f f' => Forall2 (fun n n' => strip n' = strip n) (f_nodes f) (f_nodes f')) (m_funcs M) (m_funcs M') /\
  m_decl M' = Some t /\ t <= supported_max /\
  (s <= t -> forall n n' info, strip n' = strip n -> q_from s (n_op n) = true ->
     clear_of schema_exceptions (n_op n) s t = true ->
     valid_at schema_table (n_op n) s (vnode_of n info) = true ->
     valid_at schema_table (n_op n') t (vnode_of n' info) = true).
Proof. exact native_unadapted_valid. Qed.
Print Assumptions C10_convert_valid_unadapted_partial.

Theorem C10_convert_valid_unadapted_example : exists M',
  consistent_at 18 ex_quiet_model = true /\
  forallb (quietb (q_from 18)) (m_graph ex_quiet_model) = true /\
  std_native flags_current ex_quiet_model 25 = MDone M' [] /\
  valid_at schema_table "Cast" 18 (vnode_of cast_node cast_info) = true /\
  valid_at schema_table "If" 18 (vnode_of if_node if_info) = true /\
  clear_of schema_exceptions "Cast" 18 25 = true /\
  forallb (fun n' => valid_at schema_table (n_op n') 25 (vnode_of n' (if String.eqb (n_op n') "If" then if_info else cast_info))) (m_graph M') = true.
Proof. exact native_unadapted_example. Qed.
Print Assumptions C10_convert_valid_unadapted_example.

(* ---- model-local functions.  The loop reads the version of a function's nodes from the MODEL's import
   (self._default_onnx_opset), not from the function's own opset_import.  Internal entry only (the public entry
   inlines first and onnx_ir's InlinePass refuses functions whose opset differs from the model's; measured):
   a function written for opset 19 inside an opset-20 model is stamped 21 with its DFT node still carrying the
   opset-19 `axis` attribute -- valid under the schema of 19, invalid under the schema of 21. *)
Theorem C10_native_function_opset_ignored_refuted : forall fx, exists M M' f',
  m_decl M = Some 20 /\ forallb (at_version 20) (m_graph M) = true /\
  forallb (func_at 19) (m_funcs M) = true /\
  std_native fx M 21 = MDone M' [] /\ m_funcs M' = [f'] /\ f_decl f' = Some 21 /\
  valid_at schema_table "DFT" 19 (vnode_of dft_axis1 dft_info) = true /\
  forallb (fun n' => valid_at schema_table (n_op n') 21 (vnode_of n' dft_info)) (f_nodes f') = false /\
  map strip (f_nodes f') = [strip dft_axis1].
Proof. exact native_function_opset_ignored. Qed.
Print Assumptions C10_native_function_opset_ignored_refuted.

(* a DFT node already past its adapter version is a quiet node: 20 -> 25 re-stamps it *)
Theorem C10_past_adapter_quiet_example :
  q_from 20 "DFT" = true /\ q_from 20 "GridSample" = true /\ q_from 20 "GroupNormalization" = false /\
  q_from 21 "GroupNormalization" = true /\ q_from 19 "DFT" = false /\ q_from 18 "Cast" = true.
Proof. exact past_adapter_quiet_example. Qed.
Print Assumptions C10_past_adapter_quiet_example.

(* ---- nodes that DO go through an adapter: the replacement nodes, typed from the typing of the node they replace, are
   valid under the schema of every target t from the adapter's version on.  Explicit hypotheses = what validity of the
   old node at the source opset says about it: the inputs the adapter reads are present and their types lie in the type
   sets of the old schema (in_types), the output has the type of the first input.
   DFT: [Constant(value_int) : int64; DFT(x : t0, dft_length : t1 if present, axis : int64) : t0] *)
Theorem C10_dft_converted_valid : forall fx n news t0 t1 t,
  dft_19_20 fx n = AReplace news -> present 0 n = true ->
  In t0 (in_types "DFT" 19 0) -> In t1 (in_types "DFT" 19 1) -> 20 <= t ->
  valid_list t news (dft_infos t0 t1) = true.
Proof. exact dft_converted_valid. Qed.
Print Assumptions C10_dft_converted_valid.

Theorem C10_dft_converted_valid_example : exists news,
  dft_19_20 flags_fixed (Node "DFT" true None false [("onesided"%string, AInt 1)] [true; true] [] []) = AReplace news /\
  valid_at schema_table "DFT" 19 (vnode_of (Node "DFT" true None false [("onesided"%string, AInt 1)] [true; true] [] [])
                                           (NInfo ["tensor(float)"%string; i64] [Some "tensor(float)"%string] [])) = true /\
  In "tensor(float)"%string (in_types "DFT" 19 0) /\ In i64 (in_types "DFT" 19 1) /\
  valid_list 25 news (dft_infos "tensor(float)" i64) = true /\ List.length news = 2%nat.
Proof. exact dft_converted_example. Qed.
Print Assumptions C10_dft_converted_valid_example.

(* GridSample: the one node with the renamed mode string, same inputs and output *)
Theorem C10_gridsample_converted_valid : forall n news tx tg t,
  gridsample_19_20 n = AReplace news -> present 0 n = true -> present 1 n = true ->
  In tx (in_types "GridSample" 19 0) -> In tg (in_types "GridSample" 19 1) -> 20 <= t ->
  valid_list t news (gs_infos tx tg) = true.
Proof. exact gridsample_converted_valid. Qed.
Print Assumptions C10_gridsample_converted_valid.

(* GroupNormalization with a static channel dimension (the adapter decided to expand): three int64 Constants,
   Reshape/Expand/Reshape of scale and bias, GroupNormalization with per-channel vectors; epsilon, if the old node has
   one, is a float attribute *)
Theorem C10_groupnorm_converted_valid : forall fx n g d T t,
  (forall v, lookup "epsilon" (n_attrs n) = Some v -> exists b, v = AFlt b) ->
  In T (in_types "GroupNormalization" 20 0) -> 21 <= t ->
  valid_list t (gn_new_nodes fx n g d) (gn_infos T) = true.
Proof. exact groupnorm_converted_valid. Qed.
Print Assumptions C10_groupnorm_converted_valid.

Theorem C10_adapter_typing_nonvacuous :
  In "tensor(float)"%string (in_types "GridSample" 19 0) /\ In "tensor(float)"%string (in_types "GridSample" 19 1) /\
  In "tensor(float)"%string (in_types "GroupNormalization" 20 0) /\
  valid_list 25 (gn_new_nodes flags_fixed gn_static 2 3) (gn_infos "tensor(float)") = true.
Proof. exact adapter_typing_nonvacuous. Qed.
Print Assumptions C10_adapter_typing_nonvacuous.

(* ---- the two repaired variants of visit_model (Model2.v; proposed_fixes/ready/C10_01 and C10_02).  Both off = the
   converter as read. *)
Theorem C10_native2_off : forall adapt smin smax fuel M t,
  convert_native2 false false MinOff adapt smin smax fuel M t = convert_native adapt smin smax fuel M t.
Proof. exact native2_off. Qed.
Print Assumptions C10_native2_off.

(* on a model consistent at s the function-opset repair changes nothing: every theorem above carries over *)
Theorem C10_native2_own_agree : forall adapt smin smax fuel refuse minchk s M t,
  consistent_at s M = true ->
  convert_native2 true refuse minchk adapt smin smax fuel M t = convert_native2 false refuse minchk adapt smin smax fuel M t.
Proof. exact native2_own_agree. Qed.
Print Assumptions C10_native2_own_agree.

(* _fixed counterpart of C10_native_function_opset_ignored_refuted: functions may declare other opsets than the model;
   each container consistent with its own import => the result is consistent at the target *)
Theorem C10_native_function_opset_fixed : forall fx fuel refuse minchk s t M M',
  locally_consistent s M = true ->
  convert_native2 true refuse minchk (std_adapt fx) supported_min supported_max fuel M t = MDone M' [] ->
  consistent_at t M' = true.
Proof. exact (fun fx fuel => native2_own_consistent (std_adapt fx) supported_min supported_max fuel (std_adapt_flat fx)). Qed.
Print Assumptions C10_native_function_opset_fixed.

Theorem C10_native_function_opset_fixed_example : forall fx,
  locally_consistent 20 w_func_opset2 = true /\ consistent_at 20 w_func_opset2 = false /\
  (exists M', std_native2 false false fx w_func_opset2 21 = MDone M' [] /\
              map (fun f => map n_op (f_nodes f)) (m_funcs M') = [["DFT"%string]]) /\
  (exists M', std_native2 true false fx w_func_opset2 21 = MDone M' [] /\ consistent_at 21 M' = true /\
              map (fun f => map n_op (f_nodes f)) (m_funcs M') = [["Constant"%string; "DFT"%string]]).
Proof. exact function_opset_fixed. Qed.
Print Assumptions C10_native_function_opset_fixed_example.

(* _fixed counterpart of the QuantizeLinear finding: when the pre-check fires the converter raises and the model is
   exactly the one passed in ("an unsupported conversion leaves the model as it was") *)
Theorem C10_quantizelinear_refused_unchanged_fixed : forall adapt smin smax fuel own minchk M t dv fvs,
  (t >? smax) || (t <? smin) = false -> default_version M = Some dv -> versions_of own dv (m_funcs M) = Some fvs ->
  existsb (refuses t dv) (m_graph M) || existsb (fun p => existsb (refuses t (snd p)) (f_nodes (fst p))) fvs = true ->
  convert_native2 own true minchk adapt smin smax fuel M t = MRaised ERefused M [].
Proof. exact native2_refused_unchanged. Qed.
Print Assumptions C10_quantizelinear_refused_unchanged_fixed.

Theorem C10_quantizelinear_refused_example : forall fx own,
  std_native2 own true fx w_ql 19 = MRaised ERefused w_ql [] /\
  std_native2 own true fx w_ql 22 = MRaised ERefused w_ql [] /\
  (exists M', std_native2 own true fx w_ql 23 = MDone M' [] /\ consistent_at 23 M' = true) /\
  (exists M', std_native2 own false fx w_ql 19 = MDone M' [] /\ consistent_at 19 M' = true).
Proof. exact quantizelinear_refused. Qed.
Print Assumptions C10_quantizelinear_refused_example.

(* ---- "when a conversion is not supported the model is left as it was", for EVERY request (source s, target t):
   outside smin <= s <= t <= smax (target out of range, downgrade, source below the supported minimum) the native path with
   the below-minimum pre-check raises and the model is exactly the one passed in.  Holds for both variants of the pre-check
   (mv = MinNode: /repo a75b415, node versions; mv = MinDecl: /repo 78f42e9, the opset the container imports -- the code as
   it stands, decided by the harness probe).  Function-free model with at least one default-domain node (as after the
   inlining of the public entry). *)
Theorem C10_unsupported_request_unchanged_fixed : forall adapt smin smax own refuse mv fuel s t M, mv <> MinOff ->
  consistent_at s M = true -> m_funcs M = [] -> existsb n_dflt (m_graph M) = true ->
  unsupported smin smax s t = true ->
  exists e, convert_native2 own refuse mv adapt smin smax fuel M t = MRaised e M [].
Proof. exact native2_unsupported_unchanged. Qed.
Print Assumptions C10_unsupported_request_unchanged_fixed.

(* REFUTED without the pre-check (the code as read): a model at opset 11 is "converted" to 18 by stamping -- Squeeze keeps
   its opset-11 `axes` attribute under an opset-18 import (replayed: onnx.checker rejects the result; finding) *)
Theorem C10_unsupported_request_unchanged_refuted : forall fx own refuse, exists M',
  unsupported supported_min supported_max 11 18 = true /\ consistent_at 11 w_below_min = true /\
  convert_native2 own refuse MinOff (std_adapt fx) supported_min supported_max big_fuel w_below_min 18 = MDone M' [] /\
  m_decl M' = Some 18 /\ map n_attrs (m_graph M') = [[("axes"%string, AInts [0])]].
Proof. exact below_min_refuted. Qed.
Print Assumptions C10_unsupported_request_unchanged_refuted.

Theorem C10_unsupported_request_unchanged_example : forall fx own refuse mv, mv <> MinOff ->
  convert_native2 own refuse mv (std_adapt fx) supported_min supported_max big_fuel w_below_min 18 = MRaised ERefused w_below_min [] /\
  existsb n_dflt (m_graph w_below_min) = true.
Proof. exact below_min_fixed_example. Qed.
Print Assumptions C10_unsupported_request_unchanged_example.

(* ---- the regression of a75b415 (finding C10:native:node-version-below-min-in-supported-model:refused, fixed by 78f42e9).
   REFUTED for the node-version variant: exporter output -- a model importing 18 whose nodes carry the since-version of
   their schema (14, 13) -- is refused although (18, 20) is a supported request; the import variant converts it, the
   result is consistent at 20.  A theorem about the OLD variant: it cannot be replayed on the repaired tree. *)
Theorem C10_node_version_precheck_refuted : forall fx own refuse,
  unsupported supported_min supported_max 18 20 = false /\
  convert_native2 own refuse MinNode (std_adapt fx) supported_min supported_max big_fuel w_stamped 20 = MRaised ERefused w_stamped [] /\
  (exists M', convert_native2 own refuse MinDecl (std_adapt fx) supported_min supported_max big_fuel w_stamped 20 = MDone M' [] /\
              consistent_at 20 M' = true /\ map n_op (m_graph M') = map n_op (m_graph w_stamped)) /\
  convert_native2 own refuse MinDecl (std_adapt fx) supported_min supported_max big_fuel w_stamped 20
  = convert_native2 own refuse MinOff (std_adapt fx) supported_min supported_max big_fuel w_stamped 20.
Proof. exact node_version_check_refuted. Qed.
Print Assumptions C10_node_version_precheck_refuted.

(* _fixed counterpart, for all models: when the model and every function import a supported opset the 78f42e9 pre-check
   never fires, WHATEVER versions the nodes carry -- the converter is the one before a75b415 and every theorem about it
   carries over *)
Theorem C10_import_precheck_quiet_in_supported_range_fixed : forall adapt smin smax own refuse fuel s t M fvs,
  default_version M = Some (Some s) -> smin <= s ->
  versions_of own (Some s) (m_funcs M) = Some fvs -> forallb (fv_supported smin) fvs = true ->
  convert_native2 own refuse MinDecl adapt smin smax fuel M t = convert_native2 own refuse MinOff adapt smin smax fuel M t.
Proof. exact decl_supported_import_never_refused. Qed.
Print Assumptions C10_import_precheck_quiet_in_supported_range_fixed.

(* ... and when the model imports an opset below the minimum it is refused before anything is modified, again whatever
   versions the nodes carry (no consistency hypothesis; functions allowed; at least one default-domain node anywhere) *)
Theorem C10_import_below_min_refused_unchanged : forall adapt smin smax own refuse fuel s t M fvs,
  (t >? smax) || (t <? smin) = false -> default_version M = Some (Some s) -> s < smin ->
  versions_of own (Some s) (m_funcs M) = Some fvs ->
  existsb has_dflt (m_graph M) = true ->
  convert_native2 own refuse MinDecl adapt smin smax fuel M t = MRaised ERefused M [].
Proof. exact decl_below_min_refused. Qed.
Print Assumptions C10_import_below_min_refused_unchanged.

(* ---- "keeps its initializers and graph signature": the native converter's state (Model.model) has no component for graph
   inputs, outputs or initializers -- it only rewrites node lists and imports (frame by construction; measured on every
   public case, now also with an adapted node producing a graph output and reading initializers).  The one place that DOES
   touch them is the C-API fallback wrapper _c_api_utils.call_onnx_api (CApi.v): for every outcome of the C call
   (the `finally` block) inputs and outputs are restored exactly and the initializer table is the same map. *)
Theorem C10_capi_wrapper_restores : forall limit g, NoDup (keys (g_inits g)) ->
  let g2 := snd (call_onnx_api true limit g) in
  g_inputs g2 = g_inputs g /\ g_outputs g2 = g_outputs g /\
  forall k, lookup_init k (g_inits g2) = lookup_init k (g_inits g).
Proof. exact call_onnx_api_restores. Qed.
Print Assumptions C10_capi_wrapper_restores.

Theorem C10_capi_wrapper_restores_exactly_small : forall limit g, NoDup (keys (g_inits g)) ->
  Forall (fun kv => t_size (snd kv) <= limit) (g_inits g) ->
  g_inits (snd (call_onnx_api true limit g)) = g_inits g.
Proof. exact call_onnx_api_restores_exactly_small. Qed.
Print Assumptions C10_capi_wrapper_restores_exactly_small.

(* exact ORDER of the initializer table: REFUTED (big initializers are popped and re-registered at the end); harmless *)
Theorem C10_capi_wrapper_order_refuted :
  NoDup (keys (g_inits w_capi)) /\
  keys (g_inits (snd (call_onnx_api true 1000 w_capi))) = ["w_small"%string; "w_big"%string] /\
  keys (g_inits w_capi) = ["w_big"%string; "w_small"%string] /\
  map fst (g_inputs (fst (call_onnx_api true 1000 w_capi))) = ["x"%string; "w_big"%string; "w_small"%string] /\
  keys (g_inits (fst (call_onnx_api true 1000 w_capi))) = ["w_small"%string].
Proof. exact call_onnx_api_order_refuted. Qed.
Print Assumptions C10_capi_wrapper_order_refuted.

Theorem C10_capi_wrapper_seeded_variant_refuted :
  lookup_init "w_big" (g_inits (snd (call_onnx_api false 1000 w_capi))) = None /\
  lookup_init "w_big" (g_inits (snd (call_onnx_api true 1000 w_capi))) = Some big.
Proof. exact call_onnx_api_seeded_variant_refuted. Qed.
Print Assumptions C10_capi_wrapper_seeded_variant_refuted.

(* ---- "computes the same outputs" for re-stamped operators: every version step whose doc string changed is classified
   (by reading both doc strings; Gen/VersionDocSteps.v regenerated, keyed by the hash of the pair); a step classified
   behavioural has an adapter or is one of the listed exceptions (AveragePool-22 / MaxPool-22: finding; Cast-24: runtimes
   implement one behaviour for all opsets) *)
Theorem C10_doc_steps_obligation : forall op v c, In (op, v, c) doc_steps ->
  c <> DBehavioural \/ adapted_at registry_keys op (v - 1) = true \/ In (op, v) doc_behavioural_exceptions.
Proof. exact doc_steps_obligation. Qed.
Print Assumptions C10_doc_steps_obligation.

Theorem C10_doc_behavioural_exact :
  behavioural_unadapted registry_keys doc_steps = [("AveragePool"%string, 22); ("Cast"%string, 24); ("MaxPool"%string, 22)].
Proof. exact doc_behavioural_exact. Qed.
Print Assumptions C10_doc_behavioural_exact.
