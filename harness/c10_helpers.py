"""C10 -- the attribute / input readers of _version_converter.py and what the adapters emit for the attributes they read.

1. translator (fail-closed, Python ast): the bodies of `_get_input`, `_get_int_attribute`, `_get_str_attribute` as programs of the
   tiny Python subset of coq/Version/Helpers.v, and the table of every call the module makes to them (caller, attribute name /
   input index, default; adapters named by their registration, table sorted) -> coq/Gen/VersionHelpers.v.  The bodies are
   brought to the source normal form of harness/c10_pynorm.py first, so that spellings with the same behaviour (guard clauses,
   `not in`, if-expressions, `v = E; return v`, renamed parameters / locals) give the SAME term.  Version/HelpersProofs.v proves that the translated bodies compute
   Adapters.get_int / get_str / present for EVERY node, name and default, and that the call table is the one the adapter models
   are written with.  A reader that treats a falsy value (0, "") as absent breaks the proof.
2. attribute grid (deterministic, every tier): every attribute value the three adapters read, in particular falsy ones that
   differ from the reader's default (DFT axis 0 / -r, align_corners 0, epsilon 0.0, empty strings), through the native entry
   (whole final state compared in Coq), the emitted attributes (axis constant of DFT-20, attributes of the new node) compared in
   Coq against Adapters.v, and through the public entries with the checker / onnx.reference / onnxruntime before-after oracle.
"""
from __future__ import annotations

import ast
import os

from harness import c10_models as cm
from harness import c10_pynorm as cpn
from harness.common import cbool, clist, copt, cstr, cz

HELPERS = {"_get_input": ("index",), "_get_int_attribute": ("name", "default"), "_get_str_attribute": ("name", "default")}
GEN_NAMES = {"_get_input": "gen_get_input", "_get_int_attribute": "gen_get_int", "_get_str_attribute": "gen_get_str"}


class Unsupported(Exception):
    pass


class _Tr:
    """one function body -> hstmt list literal"""

    def __init__(self, node_name, rename):
        self.node = node_name
        self.rename = rename

    def is_node_attr(self, e, field):
        return isinstance(e, ast.Attribute) and e.attr == field and isinstance(e.value, ast.Name) and e.value.id == self.node

    def cls(self, e):
        if isinstance(e, ast.Name) and e.id == "int":
            return "KInt"
        if isinstance(e, ast.Name) and e.id == "str":
            return "KStr"
        if isinstance(e, ast.Attribute) and e.attr == "Attr" and isinstance(e.value, ast.Name) and e.value.id == "ir":
            return "KAttr"
        raise Unsupported(f"isinstance class {ast.dump(e)}")

    def exp(self, e):
        x = self.exp
        if isinstance(e, ast.Constant):
            v = e.value
            if v is None:
                return "HNone"
            if isinstance(v, bool):
                return f"(HBoolLit {cbool(v)})"
            if isinstance(v, int):
                return f"(HIntLit {cz(v)})"
            if isinstance(v, str):
                return f"(HStrLit {cstr(v)})"
            raise Unsupported(f"constant {v!r}")
        if isinstance(e, ast.Name):
            if e.id == self.node:
                raise Unsupported("the node used as a value")
            return f"(HVar {cstr(self.rename.get(e.id, e.id))})"
        if isinstance(e, ast.UnaryOp) and isinstance(e.op, ast.Not):
            return f"(HNot {x(e.operand)})"
        if isinstance(e, ast.BoolOp):
            ctor = "HAnd" if isinstance(e.op, ast.And) else "HOr"
            out = x(e.values[-1])
            for v in reversed(e.values[:-1]):
                out = f"({ctor} {x(v)} {out})"
            return out
        if isinstance(e, ast.IfExp):
            return f"(HIfExp {x(e.test)} {x(e.body)} {x(e.orelse)})"
        if isinstance(e, ast.Compare) and len(e.ops) == 1:
            op, l, r = e.ops[0], e.left, e.comparators[0]
            if isinstance(op, (ast.In, ast.NotIn)) and self.is_node_attr(r, "attributes"):
                inner = f"(HIn {x(l)})"
                return inner if isinstance(op, ast.In) else f"(HNot {inner})"
            if isinstance(op, (ast.Is, ast.IsNot)) and isinstance(r, ast.Constant) and r.value is None:
                inner = f"(HIsNone {x(l)})"
                return inner if isinstance(op, ast.Is) else f"(HNot {inner})"
            if isinstance(op, ast.Lt):
                return f"(HLt {x(l)} {x(r)})"
            if isinstance(op, ast.LtE):
                return f"(HLe {x(l)} {x(r)})"
            if isinstance(op, ast.Gt):
                return f"(HLt {x(r)} {x(l)})"
            if isinstance(op, ast.GtE):
                return f"(HLe {x(r)} {x(l)})"
            raise Unsupported(f"comparison {ast.dump(op)}")
        if isinstance(e, ast.Subscript):
            if self.is_node_attr(e.value, "attributes"):
                return f"(HIndex {x(e.slice)})"
            if self.is_node_attr(e.value, "inputs"):
                return f"(HInput {x(e.slice)})"
            raise Unsupported("subscript of something else than node.attributes / node.inputs")
        if isinstance(e, ast.Attribute):
            if e.attr == "value" and not (isinstance(e.value, ast.Name) and e.value.id == self.node):
                return f"(HValueOf {x(e.value)})"
            raise Unsupported(f"attribute access .{e.attr}")
        if isinstance(e, ast.Call) and not e.keywords:
            f = e.func
            if isinstance(f, ast.Name) and f.id == "isinstance" and len(e.args) == 2:
                return f"(HIsInst {x(e.args[0])} {self.cls(e.args[1])})"
            if isinstance(f, ast.Name) and f.id == "len" and len(e.args) == 1 and self.is_node_attr(e.args[0], "inputs"):
                return "HLenInputs"
            if isinstance(f, ast.Attribute) and f.attr == "get" and self.is_node_attr(f.value, "attributes") and len(e.args) in (1, 2):
                d = x(e.args[1]) if len(e.args) == 2 else "HNone"
                return f"(HGet {x(e.args[0])} {d})"
            raise Unsupported(f"call {ast.unparse(e)[:60]}")
        raise Unsupported(f"expression {ast.unparse(e)[:60]}")

    def block(self, stmts):
        out = []
        for s in stmts:
            if isinstance(s, ast.Expr) and isinstance(s.value, ast.Constant) and isinstance(s.value.value, str):
                continue                                     # doc string
            if isinstance(s, ast.Pass):
                continue
            if isinstance(s, ast.Return):
                out.append(f"HReturn {self.exp(s.value) if s.value is not None else 'HNone'}")
            elif isinstance(s, ast.Assign) and len(s.targets) == 1 and isinstance(s.targets[0], ast.Name):
                out.append(f"HAssign {cstr(self.rename.get(s.targets[0].id, s.targets[0].id))} {self.exp(s.value)}")
            elif isinstance(s, ast.AnnAssign) and isinstance(s.target, ast.Name) and s.value is not None:
                out.append(f"HAssign {cstr(self.rename.get(s.target.id, s.target.id))} {self.exp(s.value)}")
            elif isinstance(s, ast.If):
                out.append(f"HIf {self.exp(s.test)} {self.block(s.body)} {self.block(s.orelse)}")
            else:
                raise Unsupported(f"statement {type(s).__name__}: {ast.unparse(s)[:60]}")
        return "[" + "; ".join(out) + "]"


def _literal(e):
    if isinstance(e, ast.Constant) and (e.value is None or isinstance(e.value, (int, str))) and not isinstance(e.value, bool):
        return e.value
    if isinstance(e, ast.UnaryOp) and isinstance(e.op, ast.USub) and isinstance(e.operand, ast.Constant) and isinstance(e.operand.value, int):
        return -e.operand.value
    raise Unsupported(f"reader called with a non-literal argument: {ast.unparse(e)[:60]}")


def _caller_id(fn):
    """canonical name of a calling function: an adapter is named by its REGISTRATION (`@register(op, node_version=v,
    up_conversion=b)` -> <op lower-case>_<v>_<v +/- 1>, the names the Coq adapter models carry), so renaming the Python
    function is harmless; any other function keeps its name"""
    ids = []
    for d in fn.decorator_list:
        if isinstance(d, ast.Call) and isinstance(d.func, ast.Name) and d.func.id == "register":
            try:
                names = ["opname", "domain", "node_version", "up_conversion"]
                b = dict(zip(names, d.args))
                for k in d.keywords:
                    if k.arg not in names or k.arg in b:
                        raise Unsupported("register arguments")
                    b[k.arg] = k.value
                if len(d.args) > 4:
                    raise Unsupported("register arguments")
                op, v = _literal(b["opname"]), _literal(b["node_version"])
                dom = _literal(b["domain"]) if "domain" in b else ""
                upv = b.get("up_conversion")
                up = True if upv is None else upv.value if isinstance(upv, ast.Constant) and isinstance(upv.value, bool) else None
                if dom != "" or up is None or not isinstance(op, str) or not isinstance(v, int):
                    raise Unsupported("register arguments")
            except (Unsupported, KeyError):
                return fn.name
            ids.append(f"{op.lower()}_{v}_{v + 1 if up else v - 1}")
    return ids[0] if len(ids) == 1 else fn.name


def _reads(tree, defs):
    """every call of the three readers in the module: (calling function, reader, literal arguments).  Arguments are bound to the
    reader's parameters by position or keyword; the table is SORTED (the readers are side-effect free -- their translated
    bodies are Coq functions of the node -- so the order in which an adapter reads its attributes cannot matter)"""
    out = []
    for fn in tree.body:
        if not isinstance(fn, ast.FunctionDef) and not isinstance(fn, ast.ClassDef):
            continue
        for call in sorted((c for c in ast.walk(fn) if isinstance(c, ast.Call) and isinstance(c.func, ast.Name) and c.func.id in HELPERS),
                           key=lambda c: (c.lineno, c.col_offset)):
            if isinstance(fn, ast.ClassDef):
                raise Unsupported(f"reader called inside class {fn.name}")
            h = call.func.id
            params = [a.arg for a in defs[h].args.args]               # the reader's own parameter names, node first
            bound = {}
            if len(call.args) > len(params) or any(isinstance(a, ast.Starred) for a in call.args):
                raise Unsupported(f"{h} arguments in {fn.name}")
            for prm, a in zip(params, call.args):
                bound[prm] = a
            for k in call.keywords:
                if k.arg is None or k.arg not in params or k.arg in bound:
                    raise Unsupported(f"{h} keyword arguments in {fn.name}")
                bound[k.arg] = k.value
            if params[0] not in bound or not isinstance(bound[params[0]], ast.Name):
                raise Unsupported(f"reader not called on a plain node variable in {fn.name}")
            args = []
            for prm in params[1:]:
                if prm in bound:
                    if len(args) != params.index(prm) - 1:
                        raise Unsupported(f"{h} arguments in {fn.name}")
                    args.append(_literal(bound[prm]))
            who = _caller_id(fn)
            if h == "_get_input":
                if len(args) != 1 or not isinstance(args[0], int):
                    raise Unsupported(f"_get_input arguments in {fn.name}")
                out.append((who, f"RIn {cz(args[0])}"))
            else:
                if not (1 <= len(args) <= 2) or not isinstance(args[0], str):
                    raise Unsupported(f"{h} arguments in {fn.name}")
                d = args[1] if len(args) == 2 else None
                if h == "_get_int_attribute":
                    if not (d is None or isinstance(d, int)):
                        raise Unsupported(f"{h} default {d!r}")
                    out.append((who, f"RInt {cstr(args[0])} {copt(d, cz)}"))
                else:
                    if not (d is None or isinstance(d, str)):
                        raise Unsupported(f"{h} default {d!r}")
                    out.append((who, f"RStr {cstr(args[0])} {copt(d, cstr)}"))
    # references to the readers that are not plain calls (aliases, functools.partial, ...) would escape the table
    n_refs = sum(1 for n in ast.walk(tree) if isinstance(n, ast.Name) and n.id in HELPERS)
    if n_refs != len(out):
        raise Unsupported(f"{n_refs} references to the readers but {len(out)} plain calls")
    return sorted(out)


def regenerate_helpers(ctx):
    from onnxscript.version_converter import _version_converter as vc
    path = vc.__file__
    try:
        tree = ast.parse(open(path).read())
        defs = {}
        for fn in tree.body:
            if isinstance(fn, ast.FunctionDef) and fn.name in HELPERS:
                if fn.name in defs:
                    raise Unsupported(f"{fn.name} defined twice")
                defs[fn.name] = fn
        # a later rebinding of the names would make the translated bodies irrelevant
        for n in ast.walk(tree):
            if isinstance(n, (ast.Assign, ast.AugAssign, ast.AnnAssign)):
                tg = n.targets if isinstance(n, ast.Assign) else [n.target]
                for t in tg:
                    if isinstance(t, ast.Name) and t.id in HELPERS:
                        raise Unsupported(f"{t.id} is re-bound")
        parts = []
        for name, params in HELPERS.items():
            fn = defs.get(name)
            if fn is None:
                raise Unsupported(f"{name} not found")
            a = fn.args
            if fn.decorator_list or a.vararg or a.kwarg or a.kwonlyargs or a.posonlyargs or len(a.args) != 1 + len(params):
                raise Unsupported(f"{name}: unexpected signature")
            dfl = [_literal(d) for d in a.defaults]
            if name != "_get_input" and dfl != [None]:
                raise Unsupported(f"{name}: the default of `default` is {dfl}, expected None")
            if name == "_get_input" and dfl:
                raise Unsupported(f"{name}: unexpected default")
            # normal form first (harness/c10_pynorm.py: guard clauses / `not in` / if-expressions / single-use locals /
            # names by position), so that spellings with the same behaviour give the SAME term
            try:
                nfn, rename = cpn.normal_form(fn, (None,) + tuple(params))
            except cpn.Refused as e:
                raise Unsupported(f"{name}: {e}")
            tr = _Tr(a.args[0].arg, rename)
            parts.append(f"Definition {GEN_NAMES[name]} : list hstmt :=\n  {tr.block(nfn.body)}.")
        reads = _reads(tree, defs)
    except Unsupported as e:
        ctx.tie_broken("translator", "_version_converter.py:readers", f"cannot translate the attribute/input readers: {e}")
        return None
    except SyntaxError as e:
        ctx.tie_broken("translator", "_version_converter.py:readers", f"syntax error: {e}")
        return None
    text = ("(* GENERATED by harness/c10_helpers.py regenerate_helpers() from onnxscript/version_converter/_version_converter.py (Python ast) *)\n"
            "From Coq Require Import ZArith List Bool String.\nImport ListNotations.\n"
            "Require Import OV.Version.Model OV.Version.Adapters OV.Version.Helpers.\nLocal Open Scope string_scope.\nLocal Open Scope Z_scope.\n"
            + "\n".join(parts) + "\n"
            "(* every call of the readers: (calling function / registered adapter, call), sorted *)\n"
            "Definition gen_reads : list (string * rd) :=\n  [" + ";\n   ".join(f"({cstr(f)}, {r})" for f, r in reads) + "].\n")
    ctx.gen("VersionHelpers", text)
    return reads


# ----------------------------------------------------------------------------- the attribute grid

def _dft_grid(tier):
    out = []
    for rank in (3, 4):
        r = rank
        axes = [None, 0, 1, -2, -r, -1] if rank == 3 else [None, 0, 1, 2, -1, -2, -3, -r]
        for axis in axes:
            flags = [(None, None), (0, 0), (None, 1)] if tier == "quick" else [(None, None), (0, 0), (None, 1), (1, None), (1, 0), (0, 1)]
            for inverse, onesided in flags:
                out.append({"rank": rank, "axis": axis, "inverse": inverse, "onesided": onesided, "length": None, "invalid": axis == -1})
        out.append({"rank": rank, "axis": 0, "inverse": None, "onesided": 1, "length": 6})
    return out


def _gs_grid(tier):
    out = []
    for mode in (None, "bilinear", "nearest", "bicubic", "", "linear"):
        for ac in (None, 0, 1):
            pms = [None, "zeros", "border", ""] if tier == "quick" else [None, "zeros", "border", "reflection", ""]
            for pm in pms:
                if tier == "quick" and mode in ("", "linear", "nearest") and (ac, pm) not in ((None, None), (0, ""), (1, "border")):
                    continue
                out.append({"mode": mode, "raw": True, "padding_mode": pm, "align_corners": ac, "invalid": mode in ("", "linear") or pm == ""})
    return out


def _gn_grid(tier):
    out = []
    for c, g in ((4, 1), (4, 2), (4, 4), (6, 3), (6, 1)):
        for eps in (None, 0.0, 0.5, 1e-5):
            out.append({"channels": c, "groups": g, "epsilon": eps, "shape": "static", "small_x": True})
    return out


GRIDS = {"dft": (_dft_grid, (18, 19), (20, 25)), "gs": (_gs_grid, (18, 19), (20, 25)), "gn": (_gn_grid, (18, 20), (21, 25))}
ADAPTER_FROM = {"DFT": 19, "GridSample": 19, "GroupNormalization": 20}


def _the_node(nodes, op):
    hit = [n for n in nodes if n[0] == op]
    return hit[-1] if hit else None


def _emit_case(K, fx, op, before_nodes, after_nodes):
    """(Coq literal of an emit_case, summary) from the extracted node tuples before / after one native conversion"""
    b = _the_node(before_nodes, op)
    a = _the_node(after_nodes, op)
    if b is None or a is None:
        return None
    n_extra = len(after_nodes) - len(before_nodes)
    replaced = n_extra > 0 or a[4] != b[4] or a[5] != b[5]
    axis = None
    if op == "DFT" and len(a[5]) >= 3 and a[5][2]:
        consts = [n for n in after_nodes if n[0] == "Constant" and dict(n[4]).get("value_int") is not None]
        if len(consts) == 1:
            axis = dict(consts[0][4])["value_int"][1]
    attrs = a[4]
    lit = (f"(EmitCase {K.c_flags(fx)} {K.c_node(b)} {cz(ADAPTER_FROM[op])} {cbool(replaced)} {copt(axis, cz)} "
           f"{clist(attrs, lambda p: f'({cstr(p[0])}, {K.c_attrv(p[1])})')})")
    return lit, {"op": op, "before": dict(b[4]), "replaced": replaced, "axis_constant": axis, "after": dict(a[4])}


def run(ctx, K, st, fx):
    """K = the harness.c10 module (extraction, printers, public_case / native_case)."""
    import onnx_ir as ir
    emits = []
    metas = []
    n_public = n_native = 0
    classes = {}
    for tname, (grid, sources, targets) in GRIDS.items():
        op = {"dft": "DFT", "gs": "GridSample", "gn": "GroupNormalization"}[tname]
        prms = grid(ctx.tier)
        for j, prm in enumerate(prms):
            # one step over the adapter's version and a long conversion; both sources
            for s in sources:
                for t in targets:
                    if ctx.tier == "quick" and (s, t) not in ((sources[-1], targets[0]), (sources[0], targets[-1])):
                        continue
                    # native entry: whole final state against the Coq model + what the adapter emitted
                    proto, _ = cm.TEMPLATES[tname][0](s, prm)
                    m = ir.from_proto(proto)
                    before = K.x_model(m)
                    obs, err = K.run_native(m, t)
                    st["cases"].append((f"(CNative {K.c_flags(fx)} [] {K.c_model(before)} {cz(t)} {K.c_observed(obs)})",
                                        ("attr-grid", tname, s, t, None, (), prm)))
                    n_native += 1
                    key = _key(tname, prm)
                    classes[key] = classes.get(key, 0) + 1
                    ctx.case(("attr-grid", tname, key, s == sources[-1], obs[0]))
                    if obs[0] == "done":
                        ec = _emit_case(K, fx, op, before[2], obs[1][2])
                        if ec is not None:
                            emits.append(ec[0])
                            metas.append((tname, s, t, prm, ec[1]))
                    # public entries with the before/after oracle
                    for entry in ("ir", "proto"):
                        if prm.get("invalid"):      # not a valid model at the source opset: the Coq comparisons only
                            continue
                        if ctx.tier == "quick" and entry == "proto" and (j % 2 == 1):
                            continue
                        K.public_case(ctx, st, tname, prm, s, t, entry, False, fx, seed=ctx.seed * 31 + j)
                        n_public += 1
    # the emitted attributes in Coq
    os.makedirs(ctx.cases_dir, exist_ok=True)
    ok, vals, raw = ctx.coq_eval(["OV.Version.Model", "OV.Version.Adapters", "OV.Version.Helpers"],
                                 "Definition cs : list emit_case := " + clist(emits) + ".\nEval vm_compute in (emit_disagreeing 0 cs).", name="c10_emit")
    bad = None
    if not ok or not vals:
        ctx.tie_broken("correspondence", "emitted-attributes-evaluation", raw[-600:])
    else:
        from harness import common
        bad = [metas[i] for i in common.parse_nat_list(vals[0])]
        if bad:
            ctx.tie_broken("correspondence", "emitted-attributes", f"{len(bad)} case(s) where what the adapter emitted (replaced?, axis constant of DFT-20, attributes "
                           f"of the new node) differs from Adapters.v; first: {bad[:3]}")
    ctx.obligation("correspondence: what the adapters emit for the attributes they read (DFT-20 axis constant, GridSample / GroupNormalization attributes, "
                   "replaced or not) = Adapters.v on the attribute grid incl. falsy values (axis 0, align_corners 0, epsilon 0.0, empty strings)",
                   bad == [], f"{bad and len(bad)} disagreeing of {len(emits)}")
    if metas:
        ctx.sample({"attr_grid_case": {"template": metas[0][0], "s": metas[0][1], "t": metas[0][2], "params": metas[0][3], "emitted": metas[0][4]}})
    ctx.cover(attribute_grid={"native_cases": n_native, "public_cases": n_public, "emitted_compared": len(emits), "classes": {str(k): v for k, v in sorted(classes.items(), key=str)}})


def _key(tname, prm):
    if tname == "dft":
        return (prm["rank"], prm["axis"], prm["inverse"], prm["onesided"])
    if tname == "gs":
        return (prm["mode"], prm["align_corners"], prm["padding_mode"])
    return (prm["channels"], prm["groups"], prm["epsilon"])
