"""C01 stream `enclosing-scope` (session 6, after seed C01-6: script() let module globals win over closure nonlocals).

Every other stream defines its script functions at module level, where the only outer names are module globals.  Here a
generated program (one that refers to outer names: module constants used as operands / loop bounds / `if FLAG:` tests,
or a helper script function it calls) is defined INSIDE a Python function that binds those names itself, while the
module binds the same names to different objects:

    K2 = <other value>; G_T = <negated>            # module level: decoys
    @script() def helper3(...): <same body, every returned value negated>
    def _make():
        K2 = <value>; G_T = <flag>                 # the enclosing function's bindings: what Python scoping says f sees
        @script() def helper3(...): ...
        @script() def f3(...): ...
        return {"helper3": helper3, "f3": f3}
    _REAL = _make()

Python resolves a free name of f3 in the enclosing function first, so eager mode, the NumPy reading and (property C01)
both graphs must use the enclosing function's objects.  Checked per program:
  * the four-way direct oracle of C01 (eager / ModelProto on ORT / calling model of the FunctionProto / NumPy reading);
  * model obligation: Script/Translate.v run on the ENCLOSING function's bindings (constants, truth of the `if NAME:`
    tests) = the real function_ir of the nested script (Script/Corr.v, names included).
"""
from __future__ import annotations

import copy

from harness import c01_gen, c01_run


def decoy_value(v):
    if isinstance(v, bool):
        return not v
    if isinstance(v, float):
        return v + 1.5
    if isinstance(v, int):
        return v + 3
    raise TypeError(v)


def decoy_helper(h):
    """Same signature and result types; every returned value negated (numeric) / inverted (bool)."""
    q = copy.deepcopy(h)
    ret = q["body"][-1]
    assert ret[0] == "return"
    new = []
    for e, (dt, _sc) in zip(ret[1], q["rets"]):
        new.append(["un", "not" if dt == "B" else "-", e])
    ret[1] = new
    return q


def outer_names(p):
    return sorted(p["globals"]) + [h["name"] for h in p["subs"]]


def to_source_closure(p):
    txt = c01_gen.HEADER
    for g, v in sorted(p["globals"].items()):
        txt += f"{g} = {c01_gen.pylit(decoy_value(v))}\n"
    txt += "\n"
    for h in p["subs"]:
        txt += c01_gen.src_function(decoy_helper(h)) + "\n\n"
    txt += "def _make():\n"
    for g, v in sorted(p["globals"].items()):
        txt += f"    {g} = {c01_gen.pylit(v)}\n"
    for fn in p["subs"] + [p]:
        txt += "".join(("    " + ln if ln else "") + "\n" for ln in c01_gen.src_function(fn).rstrip("\n").split("\n"))
        txt += "\n"
    names = [h["name"] for h in p["subs"]] + [p["name"]]
    txt += "    return {" + ", ".join(f'"{n}": {n}' for n in names) + "}\n\n\n_REAL = _make()\n"
    return txt


def make_decorated(Decorated):
    class ClosureDecorated(Decorated):
        """The functions under test are the ones the factory returned; the module attributes of the same names are decoys."""

        def __init__(self, idx, prog, source, mod, exc, events, flat_source):
            super().__init__(idx, prog, source, mod, exc, events)
            self.mech_source = flat_source       # the defect-mechanism detectors parse a module-level definition

        def onnx_function(self, name):
            real = getattr(self.mod, "_REAL", None) if self.mod is not None else None
            return real.get(name) if isinstance(real, dict) else None
    return ClosureDecorated


def eligible(d):
    """Accepted at module level, refers to at least one outer name, and only names a decoy exists for."""
    if not d.accepted or not outer_names(d.prog):
        return False
    try:
        for v in d.prog["globals"].values():
            decoy_value(v)
    except TypeError:
        return False
    return all(h["body"] and h["body"][-1][0] == "return" for h in d.prog["subs"])


def used_outer_names(p):
    """Outer names the body of p really reads (a decoy global that only coincides with a local is not one)."""
    import ast
    src = c01_gen.src_function(p)
    tree = ast.parse(src[src.index("def "):])
    fn = tree.body[0]
    bound = {a.arg for a in fn.args.args} | {n.id for n in ast.walk(fn) if isinstance(n, ast.Name) and isinstance(n.ctx, ast.Store)}
    loads = {n.id for n in ast.walk(fn) if isinstance(n, ast.Name) and isinstance(n.ctx, ast.Load)}
    return sorted((loads - bound) & set(outer_names(p)))
