"""C18 model A helpers: construction programs for onnxscript.nn module trees.

A *spec* is a nested tuple mirroring coq/Builder/Modules.v `spec`:

    ("mod", nm | None, [(key, pid, explicit_name | None), ...], [(key, spec), ...], sub: bool)
    ("cont", seq: bool, [spec...] init, [spec...] early, [spec...] late)
    ("slice", lo, hi, spec)

`run_spec` replays the program on the real classes (Module / ModuleList / Sequential / Parameter),
calls the root once through a real GraphBuilder and returns what the implementation produced.
`spec_lit` prints the same program as a Coq term.
"""
from __future__ import annotations

import itertools

from harness.common import cbool, clist, cnat, copt, cstr

# --------------------------------------------------------------------------- real-code interpreter


class _Env:
    def __init__(self):
        self.params = {}       # pid -> Parameter
        self.first_key = {}    # pid -> name the harness expects the object to carry (independent rule)
        self.uid = itertools.count()


def _mk_graph():
    import onnx_ir as ir
    from onnxscript._internal import builder as B

    g = ir.Graph(name="g", inputs=[], outputs=[], nodes=[], opset_imports={"": 21})
    x = ir.Value(name="x", type=ir.TensorType(ir.DataType.FLOAT), shape=ir.Shape([2]))
    c = ir.Value(name="cond", type=ir.TensorType(ir.DataType.BOOL), shape=ir.Shape([]))
    g.inputs.extend([x, c])
    return g, B.GraphBuilder(g), x, c


def _param(env, pid, explicit, key):
    import onnx_ir as ir
    import numpy as np
    from onnxscript.nn import Parameter

    if pid not in env.params:
        env.params[pid] = Parameter([2], name=explicit, data=ir.tensor(np.array([pid + 1, -(pid + 1)], dtype=np.float32)))
        env.first_key[pid] = explicit if explicit is not None else key
    return env.params[pid]


def _call(obj, op, x, twice=False):
    """What a forward() does with a child: containers of kind ModuleList are iterated, anything else is called."""
    from onnxscript.nn import ModuleList, Sequential

    if isinstance(obj, ModuleList) and not isinstance(obj, Sequential):
        n = len(obj)
        if n >= 2 and getattr(obj, "_c18_use_slices", False):
            k = n // 2
            for c in obj[:k]:          # forward-time slicing: fresh ModuleLists holding the same children
                x = _call(c, op, x)
            for c in obj[k:]:
                x = _call(c, op, x)
        else:
            for c in obj:
                x = _call(c, op, x)
        return x
    x = obj(op, x)
    if twice:
        x = obj(op, x)      # Parameter._realized: a second call must not add initializers
    return x


def _construct(spec, env, opts):
    """Return the object right after its constructor (+ early appends)."""
    import onnx_ir as ir
    from onnxscript.nn import Module, ModuleList, Sequential

    tag = spec[0]
    if tag == "mod":
        _, nm, ps, cs, sub = spec

        class Gen(Module):
            def __init__(self):
                super().__init__(nm)
                for key, pid, explicit in ps:
                    setattr(self, key, _param(env, pid, explicit, key))
                for key, cspec in cs:
                    child = _construct(cspec, env, opts)
                    setattr(self, key, child)
                    _late(cspec, child, env, opts)

            def forward(self, op, x):
                for key, _pid, _e in ps:
                    x = op.Add(x, self._parameters[key])

                def body(op_, x_):
                    for key, _c in cs:
                        x_ = _call(self._modules[key], op_, x_, twice=opts.get("twice", False))
                    return x_

                if not sub:
                    return body(op, x)
                # children are called inside a subgraph body (then-branch of an If)
                gb = op.builder
                cond = opts["cond"]
                n = next(env.uid)
                outer_x = x
                tg = gb.subgraph(lambda o: o.Identity(body(o, outer_x)), [], [ir.Value(name=f"then_out_{n}")], name=f"then_{n}")
                eg = gb.subgraph(lambda o: o.Identity(outer_x), [], [ir.Value(name=f"else_out_{n}")], name=f"else_{n}")
                y = op.If(cond, then_branch=tg, else_branch=eg, _outputs=[f"if_out_{n}"])
                y.type = ir.TensorType(ir.DataType.FLOAT)
                y.shape = ir.Shape([2])
                return y

        Gen.__qualname__ = Gen.__name__ = "Gen"
        return Gen()
    if tag == "cont":
        _, seq, init, early, late = spec
        objs = []
        for cspec in init:
            objs.append((cspec, _construct(cspec, env, opts)))
        c = Sequential(*[o for _, o in objs]) if seq else ModuleList([o for _, o in objs])
        for cspec, o in objs:
            _late(cspec, o, env, opts)
        for cspec in early:
            o = _construct(cspec, env, opts)
            c.append(o)
            _late(cspec, o, env, opts)
        if opts.get("slices"):
            object.__setattr__(c, "_c18_use_slices", True)
        return c
    if tag == "slice":
        _, lo, hi, base = spec
        b = _construct(base, env, opts)
        return b[lo:hi]
    raise ValueError(tag)


def _late(spec, obj, env, opts):
    if spec[0] == "cont":
        for cspec in spec[4]:
            o = _construct(cspec, env, opts)
            obj.append(o)
            _late(cspec, o, env, opts)


def collision_name(exc, graph):
    """If `exc` is a ValueError that mentions the name of an initializer already stored in `graph` (the
    name-collision check of Parameter._realize: another Parameter object is registered under that name),
    return that name (the longest one mentioned, quoted form preferred), else None."""
    if not isinstance(exc, ValueError):
        return None
    msg = str(exc)
    keys = [k for k in graph.initializers.keys() if k]
    quoted = [k for k in keys if repr(k) in msg]
    plain = [k for k in keys if k in msg]
    for cands in (quoted, plain):
        if cands:
            return max(cands, key=len)
    return None


def run_spec(spec, opts=None):
    """Replay on the real code. Returns dict(inits, sd, named, error, model)."""
    import onnx_ir as ir

    opts = dict(opts or {})
    env = _Env()
    g, gb, x, cond = _mk_graph()
    opts["cond"] = cond
    res = {"inits": None, "sd": None, "named": None, "error": None, "model": None, "pnames": None}
    root = _construct(spec, env, opts)
    _late(spec, root, env, opts)
    res["sd"] = list(root.state_dict().keys())
    res["named"] = [k for k, _ in root.named_parameters()]
    res["sd_ids"] = [id(p) for _, p in root.named_parameters()]
    res["pnames"] = dict(env.first_key)
    res["param_ids"] = {pid: id(p) for pid, p in env.params.items()}
    res["collision"] = None
    try:
        y = _call(root, gb.op, x, twice=opts.get("twice", False)) if spec[0] != "mod" else root(gb.op, x)
    except NotImplementedError as e:
        res["error"] = "NotImplementedError"
        return res
    except RuntimeError as e:
        if "empty Sequential" in str(e):
            res["error"] = "EmptySequential"
            return res
        raise
    except ValueError as e:
        # the name-collision check of Parameter._realize (proposed fix): any other ValueError escapes (fail-closed)
        name = collision_name(e, g)
        if name is None:
            raise
        res["error"] = "NameCollision"
        res["collision"] = name
        res["collision_message"] = str(e)[:300]
        return res
    res["inits"] = [k for k, v in g.initializers.items() if id(v) in {id(p) for p in env.params.values()}]
    res["all_inits"] = list(g.initializers.keys())
    res["init_ids"] = {k: id(v) for k, v in g.initializers.items()}
    res["param_names"] = {pid: p.name for pid, p in env.params.items()}
    res["realized"] = {pid: bool(p._realized) for pid, p in env.params.items()}
    g.outputs.append(y)
    res["graph"] = g
    return res


# --------------------------------------------------------------------------- Coq printer


def pnames_of(spec):
    """Independent rule for the Parameter object's own name: the explicit name, else the key of the
    first registration in construction order (Module.__setattr__ names only unnamed parameters)."""
    first = {}

    def wc(s):      # the constructor phase, in the order the real objects are created
        if s[0] == "mod":
            for key, pid, explicit in s[2]:
                first.setdefault(pid, explicit if explicit is not None else key)
            for _k, c in s[3]:
                wc(c)
                wl(c)
        elif s[0] == "cont":
            for c in s[2]:
                wc(c)
            for c in s[2]:
                wl(c)
            for c in s[3]:
                wc(c)
                wl(c)
        else:
            wc(s[3])

    def wl(s):      # the appends executed after attachment
        if s[0] == "cont":
            for c in s[4]:
                wc(c)
                wl(c)
    wc(spec)
    wl(spec)
    return first


def spec_lit(spec, pn=None):
    pn = pn if pn is not None else pnames_of(spec)
    tag = spec[0]
    if tag == "mod":
        _, nm, ps, cs, sub = spec
        pl = clist([f"(PE {cstr(k)} {cnat(pid)} {cstr(pn[pid])})" for k, pid, _e in ps])
        cl = clist([f"({cstr(k)}, {spec_lit(c, pn)})" for k, c in cs])
        return f"(SMod {copt(nm, cstr)} {pl} {cl} {cbool(sub)})"
    if tag == "cont":
        _, seq, init, early, late = spec
        f = lambda l: clist([spec_lit(c, pn) for c in l])
        return f"(SCont {cbool(seq)} {f(init)} {f(early)} {f(late)})"
    _, lo, hi, base = spec
    return f"(SSlice {cnat(lo)} {cnat(hi)} {spec_lit(base, pn)})"


# --------------------------------------------------------------------------- classification / generator


def features(spec, root=True, under=None, acc=None):
    """Structural facts used for hypotheses checking and for case keys."""
    acc = acc if acc is not None else {"depth": 0, "named_in_named_list_late": False, "named_container_child": False,
                                         "named_attr_mismatch": False, "param_explicit_mismatch": False,
                                         "sub": False, "slice": False, "late": False, "early": False, "seq": False,
                                         "list": False, "dots": False, "pids": [], "nodes": 0, "empty_name": False}
    acc["nodes"] += 1
    tag = spec[0]
    if tag == "mod":
        _, nm, ps, cs, sub = spec
        if sub:
            acc["sub"] = True
        for key, pid, explicit in ps:
            acc["pids"].append(pid)
            if explicit is not None and explicit != key:
                acc["param_explicit_mismatch"] = True
            if explicit is not None and "." in explicit:
                acc["dots"] = True
        if nm is not None and not root:
            if "." in nm:
                acc["dots"] = True
            if nm == "":
                acc["empty_name"] = True
            if under is not None and under[0] == "attr":
                if nm != under[1]:
                    acc["named_attr_mismatch"] = True
            elif under is not None and under[0] == "late":
                acc["named_in_named_list_late"] = True
            else:
                acc["named_container_child"] = True
        for key, c in cs:
            features(c, False, ("attr", key), acc)
    elif tag == "cont":
        _, seq, init, early, late = spec
        acc["seq" if seq else "list"] = True
        if early:
            acc["early"] = True
        if late:
            acc["late"] = True
        for c in init:
            features(c, False, ("init",), acc)
        for c in early:
            features(c, False, ("early",), acc)
        for c in late:
            features(c, False, ("late",), acc)
    else:
        acc["slice"] = True
        features(spec[3], False, ("slicebase",), acc)
    return acc


def depth(spec):
    if spec[0] == "mod":
        return 1 + max([depth(c) for _k, c in spec[3]] + [0])
    if spec[0] == "cont":
        return 1 + max([depth(c) for c in spec[2] + spec[3] + spec[4]] + [0])
    return depth(spec[3])


ATTRS = ["fc", "proj", "attn", "mlp", "norm", "layers", "blocks", "head", "self_attn", "w1"]
PKEYS = ["weight", "bias", "scale", "w", "b"]


def gen_spec(rng, max_depth=4, root=True, pid=None, allow=None, parent_kind=None):
    """Random construction program.  `allow` switches on the configurations outside the theorem's
    hypotheses (named children, shared parameters, dots, sub bodies)."""
    allow = allow or {}
    pid = pid if pid is not None else itertools.count()
    d = max_depth

    def params():
        n = rng.choice([0, 1, 1, 2, 3])
        keys = rng.sample(PKEYS, n)
        out = []
        for k in keys:
            explicit = None
            r = rng.random()
            if r < 0.3:
                explicit = k
            elif r < 0.3 + allow.get("param_mismatch", 0):
                explicit = rng.choice(["p", "my.w", "weight"])
            out.append((k, next(pid), explicit))
        return out

    def mod(nm_choice, depth_left):
        ncs = 0 if depth_left <= 1 else rng.choice([0, 1, 1, 2, 3])
        keys = rng.sample(ATTRS, ncs)
        cs = []
        for k in keys:
            c = child(depth_left - 1, ("attr", k))
            cs.append((k, c))
        sub = rng.random() < allow.get("sub", 0) and ncs > 0
        return ("mod", nm_choice, params(), cs, sub)

    def child(depth_left, under):
        kinds = ["mod", "mod", "list", "seq"] if depth_left > 1 else ["mod"]
        if under[0] == "seq":       # a ModuleList directly in a Sequential is not callable; generate it rarely
            kinds = ["mod", "mod", "seq"] + (["list"] if rng.random() < allow.get("invalid", 0) and depth_left > 1 else [])
        k = rng.choice(kinds)
        if k == "mod":
            nm = None
            if under[0] == "attr":
                r = rng.random()
                if r < 0.3:
                    nm = under[1]
                elif r < 0.3 + allow.get("named_attr_mismatch", 0):
                    nm = rng.choice(["mine", "a.b", ""])
            else:
                if rng.random() < allow.get("named_in_container", 0):
                    nm = rng.choice(["mine", "blk"])
            return mod(nm, depth_left)
        if k in ("list", "seq"):
            c = cont(k == "seq", depth_left)
            # a slice is a ModuleList: not callable from inside a Sequential
            if rng.random() < 0.15 and (c[2] or c[3]) and (under[0] != "seq" or rng.random() < allow.get("invalid", 0)):
                n = len(c[2]) + len(c[3])
                lo = rng.randrange(0, n + 1)
                hi = rng.randrange(lo, n + 2)
                return ("slice", lo, hi, ("cont", c[1], c[2], c[3], []))
            return c
        raise AssertionError

    def cont(seq, depth_left):
        tag = "seq" if seq else "list"
        def some(nmax):
            return [child(depth_left - 1, (tag,)) for _ in range(rng.choice(range(nmax + 1)))]
        init = some(3)
        early = some(1) if rng.random() < 0.3 else []
        late = some(2) if rng.random() < 0.4 else []
        if seq and not (init or early or late) and rng.random() >= allow.get("invalid", 0):
            init = [child(depth_left - 1, (tag,))]
        return ("cont", seq, init, early, late)

    if root:
        r = rng.random()
        if r < 0.8:
            nm = rng.choice(["root", "model", None, "m"])
            return mod(nm, d)
        if r < 0.95:
            return cont(True, d)
        return cont(False, d) if rng.random() < allow.get("invalid", 0) else mod("root", d)
    return child(d, parent_kind or ("attr", "x"))


def add_sharing(rng, spec):
    """Make two parameter registrations refer to the same object (weight tying)."""
    pids = features(spec)["pids"]
    if len(pids) < 2:
        return spec, False
    a, b = rng.sample(pids, 2)
    a, b = min(a, b), max(a, b)

    def walk(s):
        if s[0] == "mod":
            return ("mod", s[1], [(k, a if p == b else p, e) for k, p, e in s[2]], [(k, walk(c)) for k, c in s[3]], s[4])
        if s[0] == "cont":
            return ("cont", s[1], [walk(c) for c in s[2]], [walk(c) for c in s[3]], [walk(c) for c in s[4]])
        return ("slice", s[1], s[2], walk(s[3]))
    return walk(spec), True


def enumerate_specs(max_nodes):
    """All construction programs with at most max_nodes modules over a small alphabet (thorough tier):
    every module carries one parameter `w`; module children sit under attribute `a`, `b`; containers use
    init / late positions."""
    pid = itertools.count()

    def trees(n, under):
        # n = number of spec nodes available
        if n <= 0:
            return
        # plain module with k children
        for parts in compositions(n - 1, 2):
            for cs in itertools.product(*[list(trees(p, ("attr", key))) for p, key in zip(parts, "ab")]):
                yield ("mod", None, [("w", None, None)], [(key, c) for key, c in zip("ab", cs)], False)
        if n >= 1 and under[0] != "root":
            for seq in (False, True):
                if under[0] == "seq" and not seq:
                    continue
                tag = "seq" if seq else "list"
                for total in compositions(n - 1, 2, allow_zero=True):
                    ni, nl = total
                    for ci in seqs_of(ni, (tag,)):
                        for cl in seqs_of(nl, (tag,)):
                            yield ("cont", seq, list(ci), [], list(cl))

    def seqs_of(n, under):
        # sequences of specs with total size n (each element >= 1)
        if n == 0:
            yield ()
            return
        for first in range(1, n + 1):
            for t in trees(first, under):
                for rest in seqs_of(n - first, under):
                    yield (t,) + rest

    def compositions(n, k, allow_zero=False):
        # tuples of length <= k / exactly k with sum n
        if allow_zero:
            for a in range(n + 1):
                yield (a, n - a)
            return
        if n == 0:
            yield ()
            return
        for kk in range(1, k + 1):
            for c in _comp(n, kk):
                yield c

    def _comp(n, k):
        if k == 1:
            if n >= 1:
                yield (n,)
            return
        for a in range(1, n - k + 2):
            for r in _comp(n - a, k - 1):
                yield (a,) + r

    def number(s):
        if s[0] == "mod":
            return ("mod", s[1], [(k, next(pid), e) for k, _p, e in s[2]], [(k, number(c)) for k, c in s[3]], s[4])
        if s[0] == "cont":
            return ("cont", s[1], [number(c) for c in s[2]], [number(c) for c in s[3]], [number(c) for c in s[4]])
        return ("slice", s[1], s[2], number(s[3]))

    for n in range(1, max_nodes + 1):
        for t in trees(n, ("root",)):
            pid = itertools.count()
            t = number(t)
            for nm in ("root", None):
                yield ("mod", nm, t[2], t[3], t[4])
