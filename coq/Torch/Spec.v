(* C08 -- PyTorch's documented semantics (as implemented by ATen's shape functions) of the covered
   operators, on shapes (list Z) and on tensors viewed along the operated axis (list of slabs).
   `None` = PyTorch raises.  No proofs in this file. *)
From Coq Require Import ZArith List Bool.
Require Import OV.Torch.Onnx.
Import ListNotations.
Local Open Scope Z_scope.

(* c10::maybe_wrap_dim: a 0-d tensor accepts -1 and 0 *)
Definition wrap_dim (r d : Z) : option Z :=
  let r' := Z.max r 1 in
  if (- r' <=? d) && (d <? r') then Some (if d <? 0 then d + r' else d) else None.

(* at::infer_size: at most one -1, inferred from the element count *)
Definition infer_size (sizes : list Z) (numel : Z) : option (list Z) :=
  if existsb (fun t => t <? -1) sizes then None
  else if (1 <? count_of (-1) sizes)%nat then None
  else
    let newsize := prodZ (filter (fun t => negb (t =? -1)) sizes) in
    let inf := has (-1) sizes in
    if (numel =? newsize) || (inf && (0 <? newsize) && (numel mod newsize =? 0)) then
      if inf then (if newsize =? 0 then None
                   else Some (map (fun t => if t =? -1 then numel / newsize else t) sizes))
      else Some sizes
    else None.

(* ------------------------------------------------------------------ view-like operators: shapes *)
Definition torch_flatten (s : list Z) (start end_ : Z) : option (list Z) :=
  obind (wrap_dim (zlen s) start) (fun a =>
  obind (wrap_dim (zlen s) end_) (fun b =>
    if b <? a then None
    else if zlen s =? 0 then Some [1]
    else if a =? b then Some s
    else Some (take a s ++ [prodZ (take (b - a + 1) (drop a s))] ++ drop (b + 1) s))).

Definition torch_unflatten (s : list Z) (dim : Z) (sizes : list Z) : option (list Z) :=
  if zlen s =? 0 then None
  else match sizes with
  | [] => None
  | _ => obind (wrap_dim (zlen s) dim) (fun d =>
         obind (nthZ s d) (fun n =>
         obind (infer_size sizes n) (fun sz => Some (take d s ++ sz ++ drop (d + 1) s))))
  end.

Definition torch_view (s size : list Z) : option (list Z) := infer_size size (prodZ s).

Definition torch_squeeze_dim (s : list Z) (dim : Z) : option (list Z) :=
  obind (wrap_dim (zlen s) dim) (fun d =>
    match nthZ s d with
    | Some 1 => Some (take d s ++ drop (d + 1) s)
    | _ => Some s                                   (* rank 0, or extent <> 1: unchanged *)
    end).
Definition torch_squeeze (s : list Z) : list Z := filter (fun d => negb (d =? 1)) s.

Definition torch_unsqueeze (s : list Z) (dim : Z) : option (list Z) :=
  obind (wrap_dim (zlen s + 1) dim) (fun d => Some (take d s ++ 1 :: drop d s)).

Definition torch_permute (s dims : list Z) : option (list Z) :=
  if negb (zlen dims =? zlen s) then None
  else obind (omap_all (wrap_dim (zlen s)) dims) (fun p =>
       if nodupZ p then omap_all (nthZ s) p else None).

Definition swap_at (s : list Z) (a b : Z) : option (list Z) :=
  match nthZ s a, nthZ s b with
  | Some x, Some y => Some (map (fun i => if i =? a then y else if i =? b then x
                                          else match nthZ s i with Some d => d | None => 0 end) (iota (zlen s)))
  | _, _ => None
  end.
Definition torch_transpose (s : list Z) (d0 d1 : Z) : option (list Z) :=
  obind (wrap_dim (zlen s) d0) (fun a => obind (wrap_dim (zlen s) d1) (fun b =>
    if zlen s =? 0 then Some s else swap_at s a b)).
Definition torch_t (s : list Z) : option (list Z) :=
  match s with
  | [] | [_] => Some s
  | [a; b] => Some [b; a]
  | _ => None
  end.

(* expand: sizes are right-aligned; -1 keeps the existing extent and is not allowed for new leading dims *)
Fixpoint expand_rev (s size : list Z) : option (list Z) :=
  match size with
  | [] => match s with [] => Some [] | _ => None end
  | t :: size' =>
    match s with
    | [] => if t <? 0 then None else option_map (cons t) (expand_rev [] size')
    | d :: s' =>
      let o := if t =? -1 then Some d else if t <? 0 then None
               else if d =? t then Some t else if d =? 1 then Some t else None in
      match o, expand_rev s' size' with Some x, Some r => Some (x :: r) | _, _ => None end
    end
  end.
Definition torch_expand (s size : list Z) : option (list Z) := option_map (@rev Z) (expand_rev (rev s) (rev size)).

(* repeat: |repeats| >= rank, the shape is padded with leading ones *)
Definition pad_ones (k : Z) (s : list Z) : list Z := repeat 1 (Z.to_nat k) ++ s.
Definition torch_repeat (s reps : list Z) : option (list Z) :=
  if (zlen reps <? zlen s) || existsb (fun t => t <? 0) reps then None
  else Some (zip_mul (pad_ones (zlen reps - zlen s) s) reps).
(* tile: a short `dims` is padded with leading ones, then repeat *)
Definition torch_tile (s dims : list Z) : option (list Z) :=
  torch_repeat s (pad_ones (zlen s - zlen dims) dims).

(* cat: tensors of shape [0] are skipped (legacy); all-skipped gives shape [0] *)
Definition is_legacy_empty (s : list Z) : bool := match s with [0] => true | _ => false end.
Definition torch_cat_shape (ss : list (list Z)) (dim : Z) : option (list Z) :=
  match ss with
  | [] => None
  | _ => match filter (fun s => negb (is_legacy_empty s)) ss with
         | [] => Some [0]
         | s0 :: rest =>
           obind (wrap_dim (zlen s0) dim) (fun a =>
             if zlen s0 =? 0 then None
             else if forallb (same_except a s0) rest
             then Some (replace_at s0 a (fold_right Z.add 0 (map (fun s => match nthZ s a with Some d => d | None => 0 end) (s0 :: rest))))
             else None)
         end
  end.
Fixpoint shape_eqb (a b : list Z) : bool :=
  match a, b with
  | [], [] => true
  | x :: a', y :: b' => (x =? y) && shape_eqb a' b'
  | _, _ => false
  end.
(* stack: all tensors of one shape; the new axis may be placed at any of rank + 1 positions *)
Definition torch_stack_shape (ss : list (list Z)) (dim : Z) : option (list Z) :=
  match ss with
  | [] => None
  | s0 :: rest =>
    if forallb (fun s => shape_eqb s s0) rest
    then obind (wrap_dim (zlen s0 + 1) dim) (fun d => Some (take d s0 ++ zlen ss :: drop d s0))
    else None
  end.

(* reductions: dim = None or [] means all dims; duplicates are rejected *)
Definition torch_reduce_shape (s : list Z) (dims : option (list Z)) (keepdim : bool) : option (list Z) :=
  let r := zlen s in
  match dims with
  | None | Some [] => Some (reduce_dims s 0 (iota r) keepdim)
  | Some ds => obind (omap_all (wrap_dim r) ds) (fun ds' =>
               if nodupZ ds' then Some (reduce_dims s 0 ds' keepdim) else None)
  end.

(* ------------------------------------------------------------------ along one axis: slabs *)
(* the axis itself: every operator below first wraps `dim`; rank-0 inputs are rejected where ATen does *)
Definition torch_axis (r dim : Z) : option Z := if r =? 0 then None else wrap_dim r dim.

Definition torch_select {A} (xs : list A) (index : Z) : option A :=
  let n := zlen xs in
  if (- n <=? index) && (index <? n) then nthZ xs (if index <? 0 then index + n else index) else None.

(* at::slice (TensorShape.cpp), step > 0; start = None is 0, end = None is INT64_MAX *)
Definition torch_slice {A} (xs : list A) (start end_ : option Z) (step : Z) : option (list A) :=
  if step <=? 0 then None else
  let n := zlen xs in
  let s0 := match start with Some v => v | None => 0 end in
  let e0 := match end_ with Some v => v | None => INT64_MAX end in
  let s1 := if s0 <? 0 then s0 + n else s0 in
  let e1 := if e0 <? 0 then e0 + n else e0 in
  let s2 := if s1 <? 0 then 0 else if n <=? s1 then n else s1 in
  let e2 := if e1 <? s2 then s2 else if n <=? e1 then n else e1 in
  let len := (e2 - s2 + step - 1) / step in
  Some (strided xs s2 step (Z.to_nat len)).

Definition torch_narrow {A} (xs : list A) (start length : Z) : option (list A) :=
  let n := zlen xs in
  if (length <? 0) || (start <? - n) || (n <? start) then None
  else let s := if start <? 0 then start + n else start in
       if n - length <? s then None else Some (take length (drop s xs)).

(* split sizes *)
Definition torch_split_sizes (n split_size : Z) : option (list Z) :=
  if split_size <? 0 then None
  else if split_size =? 0 then (if n =? 0 then Some [0] else None)
  else let num := Z.max ((n + split_size - 1) / split_size) 1 in
       let last := split_size - (split_size * num - n) in
       Some (repeat split_size (Z.to_nat (num - 1)) ++ [last]).
Definition torch_chunk_sizes (n chunks : Z) : option (list Z) :=
  if chunks <=? 0 then None
  else let ss := (n + chunks - 1) / chunks in
       if (ss =? 0) && (n =? 0) then Some (repeat 0 (Z.to_nat chunks)) else torch_split_sizes n ss.

(* roll along one axis: element i moves to (i + shift) mod n *)
Definition torch_roll1 {A} (xs : list A) (shift : Z) : list A :=
  let n := zlen xs in
  if n =? 0 then xs else let st := (n - shift) mod n in drop st xs ++ take st xs.

Definition torch_flip1 {A} (xs : list A) : list A := rev xs.

(* index_select: index values in [0, n) *)
Definition torch_index_select {A} (xs : list A) (idx : list Z) : option (list A) :=
  omap_all (fun i => if (0 <=? i) && (i <? zlen xs) then nthZ xs i else None) idx.

Definition torch_cumsum (xs : list (list Z)) : list (list Z) := cumsum_axis xs.

(* ------------------------------------------------------------------ arithmetic on integers *)
Definition torch_div_trunc (a b : Z) : Z := Z.quot a b.
Definition torch_div_floor (a b : Z) : Z := a / b.
Definition torch_remainder (a b : Z) : Z := a - b * (a / b).          (* torch.remainder: sign of the divisor *)
Definition torch_fmod (a b : Z) : Z := a - b * Z.quot a b.            (* torch.fmod: sign of the dividend *)
(* clamp: min(max(x, min), max); "if min is greater than max all elements are set to max" *)
Definition torch_clamp (x : Z) (lo hi : option Z) : option Z :=
  match lo, hi with
  | None, None => None
  | _, _ => Some (let y := match lo with Some l => if x <? l then l else x | None => x end in
                  match hi with Some h => if h <? y then h else y | None => y end)
  end.
(* arange(start, end, step) on integers *)
Definition torch_arange (start end_ step : Z) : option (list Z) :=
  if step =? 0 then None
  else if ((0 <? step) && (end_ <? start)) || ((step <? 0) && (start <? end_)) then None
  else Some (map (fun i => start + Z.of_nat i * step) (seq 0 (Z.to_nat (ceil_div (end_ - start) step)))).
(* tril keeps the elements on and below the k-th diagonal, triu on and above *)
Definition torch_tril_keep (k i j : Z) : bool := j - i <=? k.
Definition torch_triu_keep (k i j : Z) : bool := k <=? j - i.
