(* C19 proofs: every placement of the scale factors the SDPA pattern accepts denotes one function. *)
From Coq Require Import List Field Ring Bool.
Require Import OV.Fusion.Field OV.Fusion.Sdpa.
Import ListNotations.

Section Laws.
  Variable F : Type.
  Variable o : fops F.
  Hypothesis Fth : is_field o.
  Variable softmax : list F -> list F.
  Add Field FF : (Fth : field_theory (f0 o) (f1 o) (fadd o) (fmul o) (fsub o) (fopp o) (fdiv o) (finv o) (@eq F)).

  Lemma apply_factor : forall s x, apply_scaling F o s x = fmul o x (factor F o s).
  Proof. intros [|c|c] x; simpl; [ring | ring | rewrite !(Fdiv_def Fth); ring]. Qed.

  (* the dot product is bilinear *)
  Lemma dot_scale : forall a b (q k : list F),
    dot F o (map (fun x => fmul o x a) q) (map (fun x => fmul o x b) k) = fmul o (dot F o q k) (fmul o a b).
  Proof.
    intros a b. induction q as [|x q IH]; intros [|y k]; simpl; try ring.
    rewrite IH. ring.
  Qed.

  Theorem sdpa_score_variants : forall sq sk sqk q K mask,
    score_pattern F o sq sk sqk q K mask = score_spec F o (sdpa_scale F o sq sk sqk) q K mask.
  Proof.
    intros. unfold score_pattern, score_spec, sdpa_scale.
    assert (E : map (fun k => apply_scaling F o sqk (dot F o (map (apply_scaling F o sq) q) (map (apply_scaling F o sk) k))) K
              = map (fun k => fmul o (dot F o q k) (fmul o (fmul o (factor F o sq) (factor F o sk)) (factor F o sqk))) K).
    { apply map_ext. intro k.
      rewrite (map_ext (apply_scaling F o sq) (fun x => fmul o x (factor F o sq))) by (intro; apply apply_factor).
      rewrite (map_ext (apply_scaling F o sk) (fun x => fmul o x (factor F o sk))) by (intro; apply apply_factor).
      rewrite dot_scale, apply_factor. ring. }
    rewrite E. reflexivity.
  Qed.

  (* 27 placements (None/Mul/Div at three sites), with or without mask, any softmax, any sizes *)
  Theorem sdpa_scale_variants : forall sq sk sqk q K mask Vcols,
    sdpa_pattern F o softmax sq sk sqk q K mask Vcols = sdpa_spec F o softmax (sdpa_scale F o sq sk sqk) q K mask Vcols.
  Proof. intros. unfold sdpa_pattern, sdpa_spec. rewrite sdpa_score_variants. reflexivity. Qed.
End Laws.
