(* optimize_ir on a model WITH model-local functions: (graph, initializer table, function table).  inline=True: InlinePass is the
   Gallina model of Opt/InlineFn.v (no hypothesis about it is left), the remaining stages are those of Opt/OptimizeIrProofs.v run on
   the inlined graph, whose meaning no longer reads the function table.  The meaning of the ORIGINAL model reads calls as function
   bodies (fsem ft k: call chains up to k deep, bodies evaluated with nesting fuel N).
   Hypotheses that remain: the Constant / reference-evaluator / Identity oracles, pe_ok (op-specific partial evaluators), rule_sound
   per rewrite rule - all about the plain kernels `sem`. *)
From Coq Require Import List String ZArith Bool Lia.
Require Import OV.Graph.Syntax OV.Graph.Sem OV.Opt.Fold OV.Opt.FoldProofs OV.Opt.FoldTheorems.
Require Import OV.Opt.Inits OV.Opt.InitsProofs OV.Opt.Pipeline OV.Opt.PipelineProofs OV.Opt.Stages OV.Opt.StagesProofs OV.Opt.OptimizeIrProofs.
Require Import OV.Builder.Inline OV.Opt.InlineFn OV.Opt.InlineFnProofs.
Import ListNotations.
Local Open Scope list_scope.

Section L.
  Variable V : Type.
  Variable sem : string -> string -> list (string * attrv) -> list (option V) -> option (list V).
  Variable truth : V -> option bool.
  Variable trip : V -> option nat.
  Variable of_nat : nat -> V.
  Variable of_bool : bool -> V.
  Variable limit : nat.
  Variable tok_val : token -> option V.
  Variable ref_eval : string -> string -> list (string * attrv) -> list (option V) -> option (list V).
  Variable const_val : list (string * attrv) -> option V.
  Variable attr_of_val : V -> attrv.
  Variable v_dtype : V -> Z.
  Variable v_dims : V -> list Z.
  Variable v_ints : V -> option (list Z).
  Variable v_tensor : V -> bool.
  Variable pe : state V -> node -> pe_out V.
  Variable rules : list rule.
  Variable N : nat.

  (* Sequential([InlinePass] ++ rest): the inlined graph goes through the linked stages; the function table is dropped (every call is
     gone: inline_model checks it) *)
  Definition optimize_ir_inlined (ifuel : nat) (names_oracle : list names) (cfg : config) (depth fuel : nat) (rn : vname -> vname)
             (vis : list vname) (f : imodel -> bool) (num_iterations : nat) (stop_if_no_change : bool)
             (m : imodel) (ft : ftab) : option (imodel * bool) :=
    match inline_model ifuel ft names_oracle (fst m) with
    | Some g1 =>
      optimize_ir_linked V tok_val ref_eval const_val attr_of_val v_dtype v_dims v_ints v_tensor pe rules (i_id f)
                         cfg depth fuel rn vis f false num_iterations stop_if_no_change (g1, snd m)
    | None => None
    end.

  Theorem optimize_ir_inlined_sound :
    const_oracle V sem tok_val ->
    oracles V sem truth ref_eval const_val attr_of_val v_dtype v_ints ->
    pe_ok V sem truth trip of_nat of_bool limit pe ->
    Forall (rule_sound V sem truth trip of_nat of_bool limit) rules ->
    forall ifuel names_oracle cfg depth fuel rn vis f num_iterations stop_if_no_change m ft m' b,
      optimize_ir_inlined ifuel names_oracle cfg depth fuel rn vis f num_iterations stop_if_no_change m ft = Some (m', b) ->
      forall k F args r,
        eval_model V (fsem V sem truth trip of_nat of_bool limit N ft k) truth trip of_nat of_bool limit tok_val F [] (fst m) (snd m) args = Some r ->
        exists F', eval_model V sem truth trip of_nat of_bool limit tok_val F' [] (fst m') (snd m') args = Some r.
  Proof.
    intros Hc Ho Hpe Hr ifuel no cfg depth fuel rn vis f n stop [g t] ft m' b. unfold optimize_ir_inlined. cbn [fst snd].
    destruct (inline_model ifuel ft no g) as [g1|] eqn:Ei; [|discriminate]. intro Hl.
    intros k F args r Hm. unfold eval_model in Hm.
    pose proof (inline_model_sound V sem truth trip of_nat of_bool limit N ifuel ft no g g1 Ei k F _ args r Hm) as H1.
    exists (F + ifuel * N).
    exact (optimize_ir_linked_sound V sem truth trip of_nat of_bool limit tok_val ref_eval const_val attr_of_val v_dtype v_dims v_ints v_tensor
             pe rules (i_id f) Hc Ho Hpe Hr (i_id_sound V sem truth trip of_nat of_bool limit tok_val f)
             cfg depth fuel rn vis f false n stop (g1, t) m' b Hl (F + ifuel * N) args r H1).
  Qed.
End L.
