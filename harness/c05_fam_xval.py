"""C05 family: SPECIAL VALUES (NaN, +inf, -inf, -0.0) in inputs AND in constant operands of the elementwise rules.

Model coq/Rules/XVal.v (order rules over xval) and coq/Rules/XNoOp.v (IEEE arithmetic over xq), proofs XValProofs.v /
XNoOpProofs.v, property theorems Props/C05_xval.v.  Streams, all re-run on every check:

  kernel    the kernel semantics the theorems are stated over are MEASURED: single Relu / Clip / Min / Max nodes on
            onnxruntime (ORT_DISABLE_ALL), x over NaN, +-inf, +-0, finite, +-max(); bounds over absent / NaN / +-inf / finite /
            inverted; the observed outputs are compared inside Coq with XVal.kmodel.  onnx.reference is run too and only
            COUNTED where it disagrees with onnxruntime (it does: NaN bound, absent bound vs infinity); onnxruntime judges.
  rules     Clip/Relu fusions applied by the real rule set to hosts whose bounds come from the same special set: the bounds
            the rule wrote = XVal.*_bounds (rdis); onnxruntime(host) = XVal.lhs_*, onnxruntime(rewritten) = XVal.rhs (vdis)
  minmax    the four _min_max_to_clip rules, constants incl. NaN / +-inf: host / rewritten outputs = XVal.mm_lhs / mm_rhs
  noop      x*c, c*x, x+c, c+x, x-c, x/c with c in {target, -0.0, NaN, +-inf}: fired? = XNoOp.fires 0 0, output = XNoOp.lhs;
            sign observers 1/(x+0), 1/(0+x), 1/(x-(-0.0)) at x = -0.0
  other     HardSwish / HardSigmoid fusions, Cast(ConstantOfShape(value=NaN/inf)), Cast(Cast(x)) and Dropout with special x:
            direct oracle only (their theorems are over finite values / abstract types)
Direct oracle everywhere: host vs rewritten on onnxruntime, NaN positions required equal (comparator self-tested below).
"""
from __future__ import annotations

import itertools

import numpy as np

from harness import c05 as base
from harness import c05_b_util as U
from harness import common
from harness.common import clist, copt

FAM = "xval"
NAN, INF = float("nan"), float("inf")


def xv(v):
    """python float -> XVal.xval literal (integer-valued finite floats only)"""
    if v is None:
        return None
    v = float(v)
    if v != v:
        return "XNaN"
    if v == INF:
        return "XPInf"
    if v == -INF:
        return "XNInf"
    assert v == int(v), v
    return f"(XFin ({int(v)})%Z)"


def xo(v):
    return "None" if v is None else f"(Some {xv(v)})"


def xq(v):
    v = float(v)
    if v != v:
        return "QNaN"
    if v == INF:
        return "QPInf"
    if v == -INF:
        return "QNInf"
    return f"(QFin {U.cq(v)})"


def xs_for(dt):
    fm = float(np.finfo(dt).max)
    return np.array([NAN, INF, -INF, -0.0, 0.0, 1.0, -1.0, 3.0, -5.0, 7.0, fm, -fm], dt)


def _run(m, x):
    out, err = U._Sess("ort", m).run({"x": x})
    return (None if err is not None else np.asarray(out[0])), err


def _clip_node(inits, inp, out, lo, hi, tag, dt):
    ins = [inp]
    if lo is not None or hi is not None:
        if lo is not None:
            inits.append(U.init(tag + "_lo", np.array(lo, dt)))
            ins.append(tag + "_lo")
        else:
            ins.append("")
    if hi is not None:
        inits.append(U.init(tag + "_hi", np.array(hi, dt)))
        ins.append(tag + "_hi")
    return U.node("Clip", ins, [out])


def _model(nodes, inits, dt):
    return U.model(nodes, [("x", dt, ["N"])], [("y", dt, ["N"])], inits=inits)


def comparator_selftest(ctx):
    a = np.float32
    t = [
        (base.same_outputs([np.array([NAN], a)], [np.array([1.0], a)]), False),
        (base.same_outputs([np.array([NAN], a)], [np.array([NAN], a)]), True),
        (base.same_outputs([np.array([NAN, 1], a)], [np.array([1, NAN], a)]), False),
        (base.same_outputs([np.array([INF], a)], [np.array([np.finfo(a).max], a)]), False),
        (base.same_outputs([np.array([INF], a)], [np.array([-INF], a)]), False),
        (base.same_outputs([np.array([-0.0], a)], [np.array([0.0], a)]), True),
        (base.same_outputs([np.array([NAN], a)], [np.array([1.0], a)], exact=False), False),
        (base.same_outputs([np.array([INF], a)], [np.array([np.finfo(a).max], a)], exact=False), False),
        (base.same_outputs([np.array([NAN, INF], a)], [np.array([NAN, INF], a)], exact=False), True),
    ]
    ok = all(got == want for got, want in t)
    ctx.obligation("oracle comparator: NaN equals only NaN at the same position, +inf differs from max() and from -inf, -0.0 equals 0.0 "
                   "(exact and tolerant modes of c05.same_outputs, used by every C05 family)", ok, str([g for g, _ in t]))
    if not ok:
        ctx.tie_broken("harness", f"{FAM}:comparator", f"same_outputs self-test: {t}")


# ------------------------------------------------------------------------------------------------ kernel stream
def kernel_stream(ctx, dts):
    cases, meta = {}, {}
    ref_disagree = 0
    bvals = [None, NAN, -INF, -2.0, 0.0, 3.0, INF]
    for dt in dts:
        X = xs_for(dt)
        cs, mt = cases.setdefault(dt, []), meta.setdefault(dt, [])

        def record(op, m, a, b, desc):
            nonlocal ref_disagree
            y, err = _run(m, X)
            ctx.case(("kernel", op, dt, str(a), str(b)))
            if y is None:
                ctx.tie_broken("harness", f"{FAM}:kernel", f"onnxruntime cannot run {desc}: {err}")
                return
            if ctx.tier == "thorough" or len(cs) % 36 == 0:       # the (slow) reference evaluator: a sample in the quick tier
                try:
                    r = np.asarray(base.ref_run(m, {"x": X})[0])
                    if not np.array_equal(r, y, equal_nan=True):
                        ref_disagree += 1
                except Exception:
                    ref_disagree += 1
            for xi, yi in zip(X, y):
                cs.append(f"({op}, {xv(xi)}, {xo(a)}, {xo(b)}, {xv(yi)})")
                mt.append((desc, float(xi), float(yi)))

        record("KRelu", _model([U.node("Relu", ["x"], ["y"])], [], dt), None, None, "Relu")
        for lo, hi in itertools.product(bvals, bvals):
            inits = []
            n = _clip_node(inits, "x", "y", lo, hi, "c", dt)
            record("KClip", _model([n], inits, dt), lo, hi, f"Clip({lo},{hi})")
        for c in bvals[1:]:
            for op, k in (("Min", "KMin"), ("Max", "KMax")):
                for order in (0, 1):
                    m = _model([U.node(op, ["x", "c"] if order == 0 else ["c", "x"], ["y"])], [U.init("c", np.array(c, dt))], dt)
                    record(k, m, c, None, f"{op}({'x,c' if order == 0 else 'c,x'}; c={c})")
    nbad = ntot = 0
    for dt in dts:
        M = int(np.finfo(dt).max)
        for off in range(0, len(cases[dt]), 700):
            part = cases[dt][off:off + 700]
            ok, vals, raw = ctx.coq_eval(["OV.Rules.XVal"], f"Definition cases : list kcase := {clist(part)}.\nEval vm_compute in (kdis ({M})%Z cases).")
            if not ok:
                ctx.tie_broken("correspondence", f"{FAM}:kernel:model-evaluation", raw[-600:])
                return
            bad = common.parse_nat_list(vals[0])
            ntot += len(part)
            nbad += len(bad)
            for i in bad[:4]:
                ctx.tie_broken("correspondence", f"{FAM}:kernel", f"{dt} {meta[dt][off + i]}: onnxruntime's kernel differs from XVal.kmodel")
    ctx.obligation("correspondence xval kernel: Relu / Clip / Min / Max of onnxruntime on NaN, +-inf, +-0, +-max() inputs and absent / NaN / "
                   "infinite / inverted bounds = XVal.kmodel on every point", nbad == 0, f"{ntot} points, {nbad} differ")
    ctx.cover(xval_kernel_points=ntot, xval_kernel_dtypes=list(dts), xval_reference_evaluator_disagrees_on=ref_disagree)


# ------------------------------------------------------------------------------------------------ clip / relu rules
def _clip_host(kind, l1, h1, l2, h2, dt):
    inits = []
    if kind == "RClipClip":
        nodes = [_clip_node(inits, "x", "t", l1, h1, "a", dt), _clip_node(inits, "t", "y", l2, h2, "b", dt)]
    elif kind == "RClipRelu":
        nodes = [U.node("Relu", ["x"], ["t"]), _clip_node(inits, "t", "y", l1, h1, "a", dt)]
    else:
        nodes = [_clip_node(inits, "x", "t", l1, h1, "a", dt), U.node("Relu", ["t"], ["y"])]
    return _model(nodes, inits, dt)


def _isnan(v):
    return v is not None and v != v


def _isinf(v):
    return v is not None and v in (INF, -INF)


def rules_stream(ctx, dts):
    from onnxscript.rewriter.rules.common import _fuse_relus_clips as mod
    rng = ctx.rng
    B = [None, NAN, -INF, -3.0, 0.0, 2.0, 6.0, INF]
    insts = [(k, l, h, None, None) for k in ("RClipRelu", "RReluClip") for l, h in itertools.product(B, B)]
    corpus = [("RClipClip", NAN, 6.0, 0.0, 5.0), ("RClipClip", 0.0, NAN, 0.0, 5.0), ("RClipClip", 0.0, None, -3.0, INF),
              ("RClipClip", 0.0, INF, -3.0, None), ("RClipClip", None, 6.0, -INF, 6.0), ("RClipClip", None, -INF, None, None),
              ("RClipClip", 0.0, 2.0, 6.0, INF), ("RClipClip", -INF, INF, 0.0, 6.0), ("RClipClip", None, None, None, None)]
    allcc = list(itertools.product(B, B, B, B))
    rng.shuffle(allcc)
    insts += corpus + [("RClipClip",) + c for c in allcc[:(200 if ctx.tier == "quick" else 2200)]]
    rcases, vcases, vmeta = [], {dt: [] for dt in dts}, {dt: [] for dt in dts}
    fired = {"RClipClip": 0, "RClipRelu": 0, "RReluClip": 0}
    unsafe_declined = 0
    nan_hosts = nan_fired = 0
    for i, (kind, l1, h1, l2, h2) in enumerate(insts):
        dt = dts[i % len(dts)]
        bounds = (l1, h1, l2, h2)
        host = _clip_host(kind, l1, h1, l2, h2, dt)
        new, exc = U.apply(host, mod.rules)
        has_nan, has_inf = any(_isnan(b) for b in bounds), any(_isinf(b) for b in bounds)
        ctx.case(("rules", kind, tuple("a" if b is None else "n" if _isnan(b) else "i" if _isinf(b) else "f" for b in bounds), dt))
        replay = {"family": FAM, "kind": kind, "bounds": [None if b is None else repr(b) for b in bounds], "dtype": dt}
        if exc is not None:
            ctx.violation(f"C05:{FAM}:{kind}:raises:{type(exc).__name__}", f"rule set raised {exc!r}", replay)
            continue
        X = xs_for(dt)
        yh, e0 = _run(host, X)
        yn, e1 = _run(new, X)
        if yh is None:
            ctx.tie_broken("harness", f"{FAM}:rules", f"onnxruntime cannot run the host {kind}{bounds}: {e0}")
            continue
        did = U.ops(new) == ["Clip"]
        nan_hosts += has_nan
        nan_fired += has_nan and did
        if not did:
            if has_nan or has_inf:
                unsafe_declined += 1        # a repaired rule may refuse special bounds: never a C05 violation
            else:
                ctx.tie_broken("correspondence", f"{FAM}:rules", f"{kind}{bounds}: rule did not fire: {U.ops(new)}")
            continue
        fired[kind] += 1
        if yn is None or not base.same_outputs([yh], [yn]):
            cls = "nan-bound" if has_nan else ("ClipClip:absent-bound-clamps-infinity" if (kind == "RClipClip" and has_inf) else f"{kind}:special-values-differ")
            ctx.violation(f"C05:clip:{cls}", f"{kind} bounds {bounds} {dt}: rewritten model differs from the original on onnxruntime"
                          + (f" ({e1})" if yn is None else ""),
                          dict(replay, x=[repr(float(v)) for v in X], original=[repr(float(v)) for v in yh],
                               rewritten=None if yn is None else [repr(float(v)) for v in yn]))
        if yn is None:
            continue
        c = U.consts(new)
        n = [nd for nd in new.graph.node if nd.op_type == "Clip"][0]
        obs = []
        for k in (1, 2):
            obs.append(float(c[n.input[k]]) if len(n.input) > k and n.input[k] != "" else None)
        bl = f"({xo(l1)}, {xo(h1)}, {xo(l2)}, {xo(h2)})"
        rcases.append(f"({kind}, {bl}, ({xo(obs[0])}, {xo(obs[1])}))")
        for xi, a, b in zip(X, yh, yn):
            vcases[dt].append(f"({kind}, {bl}, {xv(xi)}, {xv(a)}, {xv(b)})")
            vmeta[dt].append((kind, bounds, float(xi), float(a), float(b)))
    ok, vals, raw = ctx.coq_eval(["OV.Rules.XVal"], f"Definition cases : list rcase := {clist(rcases)}.\nEval vm_compute in (rdis cases).")
    bad_r = common.parse_nat_list(vals[0]) if ok and vals else None
    if bad_r is None:
        ctx.tie_broken("correspondence", f"{FAM}:rules:model-evaluation", raw[-600:])
        bad_r = []
    for i in bad_r[:4]:
        ctx.tie_broken("correspondence", f"{FAM}:rules", f"fused bounds differ from XVal.*_bounds: {rcases[i]}")
    nbad = ntot = 0
    for dt in dts:
        M = int(np.finfo(dt).max)
        for off in range(0, len(vcases[dt]), 600):
            part = vcases[dt][off:off + 600]
            ok, vals, raw = ctx.coq_eval(["OV.Rules.XVal"], f"Definition cases : list vcase := {clist(part)}.\nEval vm_compute in (vdis ({M})%Z cases).")
            if not ok:
                ctx.tie_broken("correspondence", f"{FAM}:rules:value-evaluation", raw[-600:])
                return
            bad = common.parse_nat_list(vals[0])
            ntot += len(part)
            nbad += len(bad)
            for i in bad[:4]:
                ctx.tie_broken("correspondence", f"{FAM}:rules", f"{dt} {vmeta[dt][off + i]}: onnxruntime(host / rewritten) differs from XVal.lhs / rhs")
    ctx.obligation("correspondence xval clip/relu fusions: bounds written by the real rules = XVal.*_bounds (NaN / infinite / absent bounds included)",
                   not bad_r, f"{len(rcases)} hosts")
    ctx.obligation("correspondence xval clip/relu fusions: onnxruntime(host) = XVal.lhs_* and onnxruntime(rewritten) = XVal.rhs on every point "
                   "(so the _refuted witnesses and the side conditions safe_relu / safe_clipclip are the observed behaviour)", nbad == 0,
                   f"{ntot} points, {nbad} differ")
    # which variant is under test: as read (a NaN bound is fused: finding C05:clip:nan-bound) or repaired (declined; proposed_fixes C05_02)
    variant = "repaired: NaN bounds declined" if nan_hosts and not nan_fired else f"as read: {nan_fired}/{nan_hosts} NaN-bound hosts fused"
    ctx.cover(xval_clip_hosts=len(insts), xval_clip_fired=dict(fired), xval_clip_special_bounds_declined=unsafe_declined, xval_clip_variant=variant)
    return fired


# ------------------------------------------------------------------------------------------------ min / max rules
def minmax_stream(ctx, dts):
    from onnxscript.rewriter.rules.common import _min_max_to_clip as mod
    C = [NAN, -INF, -2.0, 0.0, 3.0, INF]
    kinds = {"MinMin": ("Min", "Min"), "MaxMax": ("Max", "Max"), "MaxMinClip": ("Max", "Min"), "MinMaxClip": ("Min", "Max")}
    insts = [(k, [a], [b]) for k in kinds for a, b in itertools.product(C, C)]
    insts += [("MaxMinClip", [0.0, NAN], [3.0]), ("MinMaxClip", [3.0, INF], [0.0, -INF]), ("MinMin", [NAN, 0.0], [3.0, -2.0]),
              ("MaxMinClip", [-2.0, 0.0], [3.0, INF])]
    cases, meta = {dt: [] for dt in dts}, {dt: [] for dt in dts}
    fired = {k: 0 for k in kinds}
    nan_hosts = nan_fired = 0
    for i, (k, cs, ds) in enumerate(insts):
        dt = dts[i % len(dts)]
        inits = [U.init(f"c{j}", np.array(v, dt)) for j, v in enumerate(cs)] + [U.init(f"d{j}", np.array(v, dt)) for j, v in enumerate(ds)]
        o1, o2 = kinds[k]
        nodes = [U.node(o1, ["x"] + [f"c{j}" for j in range(len(cs))], ["t"]), U.node(o2, ["t"] + [f"d{j}" for j in range(len(ds))], ["y"])]
        host = _model(nodes, inits, dt)
        new, exc = U.apply(host, mod.rules)
        has_nan = any(_isnan(v) for v in cs + ds)
        ctx.case(("minmax", k, tuple("n" if _isnan(v) else "i" if _isinf(v) else "f" for v in cs + ds), dt))
        replay = {"family": FAM, "kind": k, "cs": [repr(v) for v in cs], "ds": [repr(v) for v in ds], "dtype": dt}
        if exc is not None:
            ctx.violation(f"C05:{FAM}:minmax:{k}:raises:{type(exc).__name__}", f"rule set raised {exc!r}", replay)
            continue
        X = xs_for(dt)
        yh, e0 = _run(host, X)
        yn, e1 = _run(new, X)
        if yh is None:
            ctx.tie_broken("harness", f"{FAM}:minmax", f"onnxruntime cannot run the host {k} {cs} {ds}: {e0}")
            continue
        did = len(U.ops(new)) == 1
        fired[k] += did
        if k in ("MaxMinClip", "MinMaxClip"):       # Min(Min) / Max(Max) with a NaN constant are sound (C05_xval_minmax) and stay fused
            nan_hosts += has_nan
            nan_fired += has_nan and did
        if did and (yn is None or not base.same_outputs([yh], [yn])):
            cls = "nan-bound" if has_nan else f"{k}:special-values-differ"
            ctx.violation(f"C05:minmax:{cls}", f"{k} constants {cs} {ds} {dt}: rewritten model differs from the original on onnxruntime",
                          dict(replay, x=[repr(float(v)) for v in X], original=[repr(float(v)) for v in yh],
                               rewritten=None if yn is None else [repr(float(v)) for v in yn]))
        for j, xi in enumerate(X):
            on = "None" if (not did or yn is None) else f"(Some {xv(yn[j])})"
            cases[dt].append(f"({k}, {clist([xv(v) for v in cs])}, {clist([xv(v) for v in ds])}, {xv(xi)}, {xv(yh[j])}, {on})")
            meta[dt].append((k, cs, ds, float(xi)))
    nbad = ntot = 0
    for dt in dts:
        M = int(np.finfo(dt).max)
        for off in range(0, len(cases[dt]), 600):
            part = cases[dt][off:off + 600]
            ok, vals, raw = ctx.coq_eval(["OV.Rules.XVal"], f"Definition cases : list mcase := {clist(part)}.\nEval vm_compute in (mdis ({M})%Z cases).")
            if not ok:
                ctx.tie_broken("correspondence", f"{FAM}:minmax:model-evaluation", raw[-600:])
                return fired
            bad = common.parse_nat_list(vals[0])
            ntot += len(part)
            nbad += len(bad)
            for i in bad[:4]:
                ctx.tie_broken("correspondence", f"{FAM}:minmax", f"{dt} {meta[dt][off + i]}: onnxruntime(host / rewritten) differs from XVal.mm_lhs / mm_rhs")
    ctx.obligation("correspondence xval min/max rules: onnxruntime(host) = XVal.mm_lhs, onnxruntime(rewritten) = XVal.mm_rhs on every point "
                   "(constants NaN / +-inf included)", nbad == 0, f"{ntot} points, {nbad} differ")
    variant = "repaired: Min/Max -> Clip declines NaN constants" if nan_hosts and not nan_fired else f"as read: {nan_fired}/{nan_hosts} Min/Max -> Clip hosts with a NaN constant fused"
    ctx.cover(xval_minmax_hosts=len(insts), xval_minmax_fired=dict(fired), xval_minmax_variant=variant)
    return fired


# ------------------------------------------------------------------------------------------------ no-op rules
NOOPS = {"MulR": ("Mul", 0, 1.0), "MulL": ("Mul", 1, 1.0), "AddR": ("Add", 0, 0.0), "AddL": ("Add", 1, 0.0),
         "SubR": ("Sub", 0, 0.0), "DivR": ("Div", 0, 1.0)}


def noop_stream(ctx, dts):
    from onnxscript.rewriter.rules.common import _no_op as mod
    ccases, ncases, nmeta = [], [], []
    fired = 0
    for (o, (op, order, target)), dt in itertools.product(NOOPS.items(), dts):
        for c in (target, -0.0 if target == 0.0 else target, NAN, INF, -INF):
            host = _model([U.node(op, ["x", "c"] if order == 0 else ["c", "x"], ["y"])], [U.init("c", np.array(c, dt))], dt)
            new, exc = U.apply(host, mod.rules)
            ctx.case(("noop", o, repr(c), dt))
            replay = {"family": FAM, "op": o, "constant": repr(c), "dtype": dt}
            if exc is not None:
                ctx.violation(f"C05:{FAM}:noop:{o}:raises:{type(exc).__name__}", f"rule set raised {exc!r}", replay)
                continue
            did = U.ops(new) == ["Identity"]
            fired += did
            X = xs_for(dt)[:10]             # without +-max(): overflow of the arithmetic is outside the model
            yh, e0 = _run(host, X)
            yn, e1 = _run(new, X)
            if yh is None or yn is None:
                ctx.tie_broken("harness", f"{FAM}:noop", f"onnxruntime cannot run {o} c={c}: {e0 or e1}")
                continue
            if not base.same_outputs([yh], [yn]):
                ctx.violation(f"C05:noop:{o}:special-values-differ", f"{o} with constant {c!r} {dt}: rewritten model differs on onnxruntime",
                              dict(replay, x=[repr(float(v)) for v in X], original=[repr(float(v)) for v in yh], rewritten=[repr(float(v)) for v in yn]))
            ccases.append(f"(false, 0, 0, {U.cq(target)}, {xq(c)}, {common.cbool(did)})")
            for xi, yi in zip(X, yh):
                ncases.append(f"({o}, {xq(c)}, {xq(xi)}, {xq(yi)})")
                nmeta.append((o, c, float(xi), float(yi)))
    pre = "From Coq Require Import QArith.\n"
    ok, vals, raw = ctx.coq_eval(["OV.Rules.XNoOp"], pre + f"Definition cc : list ccase := {clist(ccases)}.\nDefinition nc : list ncase := {clist(ncases)}.\n"
                                 "Eval vm_compute in (cdis cc).\nEval vm_compute in (ndis nc).")
    if not ok or len(vals) < 2:
        ctx.tie_broken("correspondence", f"{FAM}:noop:model-evaluation", raw[-600:])
        return fired
    bc, bn = common.parse_nat_list(vals[0]), common.parse_nat_list(vals[1])
    for i in bc[:4]:
        ctx.tie_broken("correspondence", f"{FAM}:noop", f"fired? differs from XNoOp.match_const 0 0: {ccases[i]}")
    for i in bn[:4]:
        ctx.tie_broken("correspondence", f"{FAM}:noop", f"{nmeta[i]}: onnxruntime's Mul/Add/Sub/Div differs from XNoOp.lhs")
    ctx.obligation("correspondence xval no-op rules: fired? = XNoOp.match_const with tolerance 0 (NaN / +-inf / -0.0 constants), "
                   "onnxruntime(x op c) = XNoOp.lhs on NaN / +-inf / finite x", not bc and not bn, f"{len(ccases)} hosts, {len(ncases)} points")
    # the sign of a zero, seen through 1 / (.)
    for tag, op, ins, c, key in (("1/(x+0)", "Add", ["x", "c"], 0.0, "C05:noop:add-zero:negative-zero-sign"),
                                 ("1/(0+x)", "Add", ["c", "x"], 0.0, "C05:noop:add-zero:negative-zero-sign"),
                                 ("1/(x-(-0.0))", "Sub", ["x", "c"], -0.0, "C05:noop:sub-negative-zero-constant:negative-zero-sign"),
                                 ("1/(x*1)", "Mul", ["x", "c"], 1.0, None), ("1/(x-0)", "Sub", ["x", "c"], 0.0, None),
                                 ("1/(x/1)", "Div", ["x", "c"], 1.0, None), ("1/(x+(-0.0))", "Add", ["x", "c"], -0.0, None)):
        dt = "float32"
        host = _model([U.node(op, ins, ["t"]), U.node("Div", ["one", "t"], ["y"])],
                      [U.init("c", np.array(c, dt)), U.init("one", np.array(1.0, dt))], dt)
        new, exc = U.apply(host, mod.rules)
        X = np.array([-0.0, 0.0, 2.0, -INF], dt)
        yh, _ = _run(host, X)
        yn, _ = (None, None) if new is None else _run(new, X)
        ctx.case(("noop-zero-sign", tag))
        same = yh is not None and yn is not None and base.same_outputs([yh], [yn])
        if not same:
            k = key or f"C05:noop:zero-sign:{tag}"
            ctx.violation(k, f"{tag} at x = -0.0: {None if yh is None else yh.tolist()} before, {None if yn is None else yn.tolist()} after the no-op rule "
                          "(the rule changes the sign of a zero, a consumer observes it)",
                          {"family": FAM, "host": tag, "x": [repr(float(v)) for v in X]})
    return fired


# ------------------------------------------------------------------------------------------------ other elementwise rules
def other_stream(ctx):
    from onnx import TensorProto
    from onnxscript.rewriter.rules.common import _basic_rules, _cast_constant_of_shape, _fuse_hardswish, _no_op
    dt = "float32"
    X = np.array([NAN, INF, -INF, -0.0, 0.0, 1.0, -1.0, 3.0, -5.0, 7.0, -3.0, 2.5], dt)
    done = 0

    def judge(tag, host, rules, want_ops, exact=True, feeds=None):
        nonlocal done
        new, exc = U.apply(host, rules)
        ctx.case(("other", tag))
        if exc is not None:
            ctx.violation(f"C05:{FAM}:{tag}:raises:{type(exc).__name__}", f"rule set raised {exc!r}", {"family": FAM, "host": tag})
            return
        if want_ops is not None and U.ops(new) != want_ops:
            ctx.tie_broken("correspondence", f"{FAM}:other", f"{tag}: expected {want_ops} after rewriting, got {U.ops(new)}")
            return
        f = feeds if feeds is not None else {"x": X}
        a, e0 = U._Sess("ort", host).run(f)
        b, e1 = U._Sess("ort", new).run(f)
        if a is None:
            ctx.tie_broken("harness", f"{FAM}:other", f"{tag}: onnxruntime cannot run the host: {e0}")
            return
        done += 1
        if b is None or not base.same_outputs(a, b, exact=exact):
            ctx.violation(f"C05:{FAM}:{tag}:special-values-differ", f"{tag}: rewritten model differs from the original on special values",
                          {"family": FAM, "host": tag, "original": [repr(v) for v in np.asarray(a[0]).ravel().tolist()],
                           "rewritten": None if b is None else [repr(v) for v in np.asarray(b[0]).ravel().tolist()]})

    hs = _fuse_hardswish.fuse_hardswish_rules()
    k = [U.init("b", np.float32(3)), U.init("lo", np.float32(0)), U.init("hi", np.float32(6)), U.init("d", np.float32(6))]
    judge("hardswish", _model([U.node("Add", ["x", "b"], ["t"]), U.node("Clip", ["t", "lo", "hi"], ["c"]), U.node("Mul", ["c", "x"], ["m"]),
                               U.node("Div", ["m", "d"], ["y"])], k, dt), hs, ["HardSwish"], exact=False)
    judge("hardsigmoid", _model([U.node("Add", ["x", "b"], ["t"]), U.node("Clip", ["t", "lo", "hi"], ["c"]), U.node("Div", ["c", "d"], ["y"])], k, dt),
          hs, ["HardSigmoid"], exact=False)
    judge("hardswish-from-hardsigmoid", _model([U.node("HardSigmoid", ["x"], ["h"], alpha=float(np.float32(1 / 6)), beta=0.5), U.node("Mul", ["h", "x"], ["y"])], [], dt),
          hs, ["HardSwish"], exact=False)
    from onnxscript.rewriter.rules.common import _fuse_relus_clips
    for d2 in ("float32", "float64"):
        m = U.model([U.node("Relu", ["x"], ["t"]), U.node("Relu", ["t"], ["y"])], [("x", d2, ["N"])], [("y", d2, ["N"])])
        judge(f"relu-relu:{d2}", m, _fuse_relus_clips.rules, ["Relu"], feeds={"x": X.astype(d2)})
        m = U.model([U.node("Dropout", ["x"], ["y"], ratio=0.0)], [("x", d2, ["N"])], [("y", d2, ["N"])], opset=10)
        judge(f"dropout-zero:{d2}", m, _no_op.rules, ["Identity"], feeds={"x": X.astype(d2)})
    judge("dropout-inference", _model([U.node("Dropout", ["x"], ["y"])], [], dt), _no_op.rules, None)
    judge("cast-identity", _model([U.node("Cast", ["x"], ["y"], to=TensorProto.FLOAT)], [], dt), [_basic_rules.no_op_cast_rule], ["Identity"])
    # Cast(Cast(x: float16 -> float32) -> float16) with special x
    m = U.model([U.node("Cast", ["x"], ["t"], to=TensorProto.FLOAT), U.node("Cast", ["t"], ["y"], to=TensorProto.FLOAT16)],
                [("x", "float16", ["N"])], [("y", "float16", ["N"])])
    judge("cast-cast", m, [_basic_rules.cast_cast_rule], ["Cast"], feeds={"x": X.astype(np.float16)})
    # Cast(ConstantOfShape(value = NaN / +-inf / -0.0), to): the fused value is computed by numpy, the host by the Cast kernel
    for v in (NAN, INF, -INF, -0.0, 3e38):
        for to, name in ((TensorProto.INT32, "int32"), (TensorProto.INT64, "int64"), (TensorProto.UINT8, "uint8"), (TensorProto.INT8, "int8"),
                         (TensorProto.FLOAT16, "float16"), (TensorProto.DOUBLE, "float64")):
            m = U.model([U.node("ConstantOfShape", ["s"], ["t"], value=U.init("v", np.array([v], np.float32))), U.node("Cast", ["t"], ["y"], to=to)],
                        [("s", "int64", [1])], [("y", name, ["N"])])
            with np.errstate(all="ignore"):
                judge(f"cast-constant-of-shape:{v!r}->{name}", m, _cast_constant_of_shape.rules, ["ConstantOfShape"], feeds={"s": np.array([3], np.int64)})
    ctx.cover(xval_other_hosts_judged=done)


def family(ctx):
    ctx.assume("xval: kernel semantics on NaN / +-inf / absent and NaN bounds are those of the onnxruntime CPU kernels (measured on every run, "
               "stream `kernel`); onnx.reference differs there and is not the judge; signed zero is identified with zero in XVal / xq "
               "(numpy equality) and modelled separately (XNoOp.zs) for the no-op rules; rounding and overflow of arithmetic are outside the model")
    ctx.trust("numpy's np.maximum / np.minimum / np.max / np.min propagate NaN (used by the rules to fuse constants): XVal.pmax / pmin; "
              "observed through the bounds the real rules write (stream `rules`)")
    comparator_selftest(ctx)
    dts = ["float32"] if ctx.tier == "quick" else ["float32", "float64", "float16"]
    kernel_stream(ctx, dts)
    f1 = rules_stream(ctx, dts) or {}
    f2 = minmax_stream(ctx, dts) or {}
    f3 = noop_stream(ctx, dts)
    other_stream(ctx)
    ctx.sample({"family": FAM, "clip_fired": f1, "minmax_fired": f2, "noop_fired": f3})
