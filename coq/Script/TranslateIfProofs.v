(* Stage S2 of the compiler-correctness theorem for the converter model (Script/Translate.v): bodies made of
   assignments, tuple assignments and if/else statements nested to any depth (conditions the analysis treats as
   constant included), followed by one return.  For any kernel semantics (Identity being the identity) and any
   listing order of the Python sets, the translated graph evaluates to what the source evaluates to as Python.

   The simulation invariant of S1 (TranslateProofs.inv) is restricted to the variables live at the program point
   (inv_on): a variable assigned in a branch but not live after the if keeps its old binding in the converter's
   scope, so nothing can be said about it -- and nothing needs to be, because every name an expression reads is
   live where it is read (generated liveness: Gen/Analysis.v, used through the equations of LivenessProofs.v).
   The S1 lemmas are reused by restricting the Python environment and the scopes to the live set
   (tr_expr_agree / eval_expr_agree: both sides read the environment only at used_vars).

   Class restriction (s2_stmt): the right-hand side of an assignment and the condition of an if are not a bare
   literal and not the bare name of a module-level constant, so that every variable holds a tensor.  (A variable
   holding a Python scalar that is merged by an if loses its "castable" status in the graph: the outputs of an If
   node are never CastLike'd, while the Python reading promotes the scalar.  That discrepancy is outside S2.) *)
From Coq Require Import List String ZArith Bool Arith Lia.
Require Import OV.Graph.Syntax OV.Graph.Sem OV.Graph.SemProofs OV.Graph.Wf OV.Graph.WfProofs.
Require Import OV.Script.Syntax OV.Script.Sets OV.Gen.Analysis OV.Gen.ScriptTables OV.Script.Translate OV.Script.PySem
               OV.Script.TranslateProofs OV.Script.AnalysisProofs OV.Script.LivenessProofs.
Import ListNotations.
Local Open Scope string_scope.
Local Open Scope list_scope.

(* ------------------------------------------------------------------ how the translation state evolves *)

(* used names are kept; the names known before keep their castable status; castable names stay used *)
Definition st_ext (st st' : tstate) : Prop :=
  incl (ts_used st) (ts_used st') /\
  (forall m, In m (ts_used st) -> (In m (ts_castable st') <-> In m (ts_castable st))) /\
  (incl (ts_castable st) (ts_used st) -> incl (ts_castable st') (ts_used st')).

Lemma st_ext_refl : forall st, st_ext st st.
Proof. intros st. split; [apply incl_refl|]. split; [intros; tauto | auto]. Qed.

Lemma st_ext_trans : forall a b c, st_ext a b -> st_ext b c -> st_ext a c.
Proof.
  intros a b c (A1 & A2 & A3) (B1 & B2 & B3). split; [eapply incl_tran; eassumption|]. split.
  - intros m Hm. rewrite (B2 m (A1 m Hm)). apply A2. exact Hm.
  - auto.
Qed.

Definition mono {A} (m : M A) : Prop := forall st a st' ns, m st = Some (a, st', ns) -> st_ext st st'.

Lemma mono_ret : forall A (a : A), mono (ret a).
Proof. intros A a st b st' ns H. apply ret_some in H. destruct H as (_ & -> & _). apply st_ext_refl. Qed.
Lemma mono_fail : forall A, mono (@fail A).
Proof. intros A st a st' ns H. discriminate H. Qed.
Lemma mono_emit : forall n, mono (emit n).
Proof. intros n st a st' ns H. apply emit_some in H. destruct H as (-> & _). apply st_ext_refl. Qed.
Lemma mono_guard : forall b, mono (guard b).
Proof. intros [|]; [apply mono_ret | apply mono_fail]. Qed.
Lemma mono_lift : forall A (o : option A), mono (lift o).
Proof. intros A [a|]; [apply mono_ret | apply mono_fail]. Qed.
Lemma mono_bind : forall A B (m : M A) (f : A -> M B), mono m -> (forall a, mono (f a)) -> mono (bind m f).
Proof.
  intros A B m f Hm Hf st b st' ns H. apply bind_some in H. destruct H as (a & st1 & n1 & n2 & H1 & H2 & _).
  eapply st_ext_trans; [eapply Hm; exact H1 | eapply Hf; exact H2].
Qed.
Lemma mono_capture : forall A (m : M A), mono m -> mono (capture m).
Proof.
  intros A m Hm st a st' ns H. unfold capture in H. destruct (m st) as [[[a0 st0] n0]|] eqn:E; [|discriminate].
  inversion H; subst. eapply Hm. exact E.
Qed.

Lemma st_ext_unique : forall c st r st1, gen_unique c st = Some (r, st1) -> st_ext st st1.
Proof.
  intros c st r st1 H. apply gen_unique_fresh in H. destruct H as (_ & F2 & _ & F4 & _). split; [|split].
  - rewrite F2. intros x Hx. right. exact Hx.
  - intros m _. rewrite F4. tauto.
  - rewrite F4, F2. intros Hc x Hx. right. apply Hc. exact Hx.
Qed.
Lemma mono_uniq : forall c, mono (uniq c).
Proof. intros c st r st' ns H. apply uniq_some in H. destruct H as (H & _). eapply st_ext_unique. exact H. Qed.

(* a freshly generated name may be marked castable *)
Lemma st_ext_unique_mark : forall c st r st1, gen_unique c st = Some (r, st1) -> st_ext st (add_castable r st1).
Proof.
  intros c st r st1 H. apply gen_unique_fresh in H. destruct H as (F1 & F2 & _ & F4 & _).
  split; [|split]; cbn [add_castable ts_used ts_castable].
  - rewrite F2. intros x Hx. right. exact Hx.
  - intros m Hm. rewrite F4. split; [intros [E|Hc]; [subst; contradiction | exact Hc] | intros Hc; right; exact Hc].
  - rewrite F4, F2. intros Hc x [E|Hx]; [left; exact E | right; apply Hc; exact Hx].
Qed.

Lemma mono_emit_const : forall l sugg, mono (emit_const l sugg).
Proof.
  intros l sugg st n st' ns H. unfold emit_const in H.
  apply bind_some in H. destruct H as (r & st1 & n1 & n2 & Hu & H & _).
  apply uniq_some in Hu. destruct Hu as (Hu & _).
  apply bind_some in H. destruct H as (u1 & st2 & n3 & n4 & Hm & H & _).
  apply mark_castable_some in Hm. destruct Hm as (-> & _).
  apply bind_some in H. destruct H as (u2 & st3 & n5 & n6 & He & Hr & _).
  apply emit_some in He. destruct He as (-> & _).
  apply ret_some in Hr. destruct Hr as (_ & -> & _). eapply st_ext_unique_mark. exact Hu.
Qed.

Lemma mono_to_onnx_var : forall b target, mono (to_onnx_var b target).
Proof.
  intros [n|k] target; cbn [to_onnx_var]; [apply mono_ret|].
  intros st a st' ns H.
  apply bind_some in H. destruct H as (r & st1 & n1 & n2 & Hu & H & _).
  apply uniq_some in Hu. destruct Hu as (Hu & _).
  apply bind_some in H. destruct H as (u1 & st2 & n3 & n4 & He & H & _).
  apply emit_some in He. destruct He as (-> & _).
  destruct k.
  - apply bind_some in H. destruct H as (u2 & st3 & n5 & n6 & Hm & Hr & _).
    apply mark_castable_some in Hm. destruct Hm as (-> & _). apply ret_some in Hr. destruct Hr as (_ & -> & _).
    eapply st_ext_unique_mark. exact Hu.
  - apply bind_some in H. destruct H as (u2 & st3 & n5 & n6 & Hm & Hr & _).
    apply mark_castable_some in Hm. destruct Hm as (-> & _). apply ret_some in Hr. destruct Hr as (_ & -> & _).
    eapply st_ext_unique_mark. exact Hu.
  - apply bind_some in H. destruct H as (rb & st3 & n5 & n6 & Hu2 & H & _).
    apply uniq_some in Hu2. destruct Hu2 as (Hu2 & _).
    apply bind_some in H. destruct H as (u2 & st4 & n7 & n8 & Hm & H & _).
    apply mark_castable_some in Hm. destruct Hm as (-> & _).
    apply bind_some in H. destruct H as (u3 & st5 & n9 & n10 & He & Hr & _).
    apply emit_some in He. destruct He as (-> & _). apply ret_some in Hr. destruct Hr as (_ & -> & _).
    eapply st_ext_trans; [eapply st_ext_unique; exact Hu | eapply st_ext_unique_mark; exact Hu2].
Qed.

Lemma mono_py_var : forall globals sc x, mono (py_var globals sc x).
Proof.
  intros globals sc x. unfold py_var. destruct (scopes_find x sc); [apply mono_to_onnx_var|].
  destruct (lookup_assoc x globals); [apply mono_emit_const | apply mono_fail].
Qed.

Lemma list_set_some : forall s st o st' ns, list_set s st = Some (o, st', ns) ->
  ts_used st' = ts_used st /\ ts_castable st' = ts_castable st /\ ns = [] /\ NoDup o /\ (forall x, In x o <-> In x s).
Proof.
  intros s st o st' ns H. unfold list_set in H. destruct (ts_orders st) as [|o0 rest].
  - inversion H; subst. split; [reflexivity|]. split; [reflexivity|]. split; [reflexivity|]. split.
    + clear. induction s as [|x t IH]; cbn [dedup]; [constructor|]. destruct (mem x t) eqn:E; [exact IH|].
      constructor; [|exact IH]. intros Hin. apply mem_false_not_In in E. apply E.
      clear -Hin. induction t as [|y t IH]; [exact Hin|]. cbn [dedup] in Hin. destruct (mem y t); [right; apply IH; exact Hin|].
      destruct Hin as [Hin|Hin]; [left; exact Hin | right; apply IH; exact Hin].
    + clear. induction s as [|y t IH]; intros x; [tauto|]. cbn [dedup]. destruct (mem y t) eqn:E.
      * rewrite IH. split; [intros Hx; right; exact Hx | intros [Hx|Hx]; [subst; apply mem_In; exact E | exact Hx]].
      * cbn [In]. rewrite IH. tauto.
  - destruct (seqb o0 s && nodupb o0) eqn:E; [|discriminate]. inversion H; subst. cbn.
    apply andb_true_iff in E. destruct E as [E1 E2]. split; [reflexivity|]. split; [reflexivity|]. split; [reflexivity|].
    split; [apply nodupb_NoDup; exact E2|]. unfold seqb in E1. apply andb_true_iff in E1. destruct E1 as [S1 S2].
    unfold ssubset in S1, S2. rewrite forallb_forall in S1, S2. intros x. split; intros Hx; apply mem_In; auto.
Qed.

Lemma mono_list_set : forall s, mono (list_set s).
Proof.
  intros s st o st' ns H. apply list_set_some in H. destruct H as (E1 & E2 & _). unfold st_ext. rewrite E1, E2.
  split; [apply incl_refl|]. split; [intros; tauto | auto].
Qed.

Lemma mono_mapM : forall A B (f : A -> M B) l, (forall a, mono (f a)) -> mono (mapM f l).
Proof.
  intros A B f l Hf. induction l as [|a t IH]; cbn [mapM]; [apply mono_ret|].
  apply mono_bind; [apply Hf|]. intros b. apply mono_bind; [exact IH|]. intros bs. apply mono_ret.
Qed.

Lemma mono_apply_plan : forall args plan all, mono (apply_plan args plan all).
Proof.
  induction args as [|a t IH]; intros plan all; destruct plan as [|p pt]; cbn [apply_plan]; try apply mono_ret.
  apply mono_bind.
  - destruct a as [v|], p as [j|]; try apply mono_ret. destruct (nth j all None); [|apply mono_ret].
    apply mono_bind; [apply mono_uniq|]. intros r. apply mono_bind; [apply mono_emit|]. intros _. apply mono_ret.
  - intros a'. apply mono_bind; [apply IH|]. intros t'. apply mono_ret.
Qed.

Lemma mono_static_cast : forall op args, mono (static_cast op args).
Proof.
  intros op args. unfold static_cast. destruct (lookup_assoc op op_typevars) as [tvs|]; [|apply mono_ret].
  intros st a st' ns H. destruct (cast_plan tvs _); [|discriminate]. eapply mono_apply_plan. exact H.
Qed.

Ltac mono_step :=
  first [ apply mono_ret | apply mono_fail | apply mono_emit | apply mono_uniq | apply mono_guard | apply mono_lift
        | apply mono_list_set | apply mono_emit_const | apply mono_to_onnx_var | apply mono_py_var | apply mono_static_cast
        | assumption ].
Ltac mono_tac := repeat first [ mono_step | (apply mono_bind; [|intros ?]) ].

Lemma mono_tr_args : forall globals sc args,
  Forall (fun o => match o with Some a => forall sc target, mono (tr_expr globals sc target a) | None => True end) args ->
  mono (tr_args globals sc args).
Proof.
  intros globals sc args HF. induction HF as [|[a|] t Ha Ht IH]; cbn [tr_args]; [apply mono_ret| |].
  - apply mono_bind; [apply Ha|]. intros v. apply mono_bind; [exact IH|]. intros vs. apply mono_ret.
  - apply mono_bind; [exact IH|]. intros vs. apply mono_ret.
Qed.

Lemma mono_tr_expr : forall globals e sc target, mono (tr_expr globals sc target e).
Proof.
  intros globals. apply (expr_ind' (fun e => forall sc target, mono (tr_expr globals sc target e))).
  - intros x sc target. cbn [tr_expr]. apply mono_py_var.
  - intros l sc target. cbn [tr_expr]. apply mono_emit_const.
  - intros op a IHa sc target. cbn [tr_expr]. destruct (lookup_assoc op primop_map); [|apply mono_fail].
    apply mono_bind; [apply IHa|]. intros v. mono_tac.
  - intros op a b IHa IHb sc target. cbn [tr_expr]. destruct (lookup_assoc op primop_map); [|apply mono_fail]. cbv zeta.
    apply mono_bind; [apply IHa|]. intros l. apply mono_bind; [apply IHb|]. intros r. mono_tac.
  - intros op a b IHa IHb sc target. cbn [tr_expr]. destruct (lookup_assoc op primop_map); [|apply mono_fail].
    apply mono_bind; [apply IHa|]. intros l. apply mono_bind; [apply IHb|]. intros r.
    destruct (String.eqb _ "NotEqual"); mono_tac.
  - intros f args kws HF sc target. rewrite tr_expr_call_eq.
    apply mono_bind; [apply mono_tr_args; exact HF|]. intros vals. destruct f; mono_tac.
Qed.

Lemma mono_tr_call_multi : forall globals sc e outs, mono (tr_call_multi globals sc e outs).
Proof.
  intros globals sc e outs. destruct e as [x|l|op a|op a b|op a b|f args kws]; try apply mono_fail.
  rewrite tr_call_multi_eq. apply mono_bind.
  - apply mono_tr_args. clear. induction args as [|[a|] t IH]; constructor; auto. intros sc target. apply mono_tr_expr.
  - intros vals. apply mono_bind; [destruct f; mono_tac|]. intros vals'.
    apply mono_bind; [apply mono_mapM; intros a; apply mono_uniq|]. intros names. mono_tac.
Qed.

Lemma mono_block_outputs : forall legacy sc_b live_defs acc prev, mono (block_outputs legacy sc_b live_defs acc prev).
Proof.
  intros legacy sc_b live_defs. induction live_defs as [|pv t IH]; intros acc prev; cbn [block_outputs]; [apply mono_ret|].
  destruct (scope_find pv (cur_scope sc_b)) as [b|].
  - apply mono_bind; [apply mono_capture; apply mono_to_onnx_var|]. intros vn. cbv zeta.
    destruct (keep_as_output legacy (fst vn) (acc ++ snd vn) prev).
    + apply mono_bind; [apply IH|]. intros r. apply mono_ret.
    + apply mono_bind; [apply mono_uniq|]. intros c. apply mono_bind; [apply IH|]. intros r. apply mono_ret.
  - destruct (scopes_find pv (tl sc_b)) as [b|]; [|apply mono_fail].
    apply mono_bind; [apply mono_capture; apply mono_to_onnx_var|]. intros vn.
    apply mono_bind; [apply mono_uniq|]. intros c. apply mono_bind; [apply IH|]. intros r. apply mono_ret.
Qed.

(* ------------------------------------------------------------------ the translation of an expression reads the scopes
   only at the names the expression uses *)

Lemma bind_ext : forall A B (m1 m2 : M A) (f1 f2 : A -> M B) st,
  (forall st, m1 st = m2 st) -> (forall a st, f1 a st = f2 a st) -> bind m1 f1 st = bind m2 f2 st.
Proof.
  intros A B m1 m2 f1 f2 st Hm Hf. unfold bind. rewrite Hm. destruct (m2 st) as [[[a s] n]|]; [|reflexivity].
  rewrite Hf. reflexivity.
Qed.

Definition sc_agree (S : sset) (sc1 sc2 : scopes) : Prop := forall x, In x S -> scopes_find x sc1 = scopes_find x sc2.

Section ScopeCoincidence.
  Variable globals : list (string * lit).

  Definition expr_sc_coincides (e : expr) : Prop :=
    forall sc1 sc2, sc_agree (used_vars e) sc1 sc2 -> forall target st, tr_expr globals sc1 target e st = tr_expr globals sc2 target e st.

  Lemma tr_args_agree : forall args,
    Forall (fun o => match o with Some a => expr_sc_coincides a | None => True end) args ->
    forall sc1 sc2, sc_agree (used_args args) sc1 sc2 -> forall st, tr_args globals sc1 args st = tr_args globals sc2 args st.
  Proof.
    induction args as [|[a|] t IH]; intros HF sc1 sc2 A st; [reflexivity| |].
    - inversion HF as [|o l Ha Ht]; subst. cbn [tr_args]. apply bind_ext.
      + intros st0. apply Ha. intros x Hx. apply A. apply used_args_cons_some. left. exact Hx.
      + intros v st0. apply bind_ext; [|reflexivity]. intros st1. apply IH; [exact Ht|].
        intros x Hx. apply A. apply used_args_cons_some. right. exact Hx.
    - inversion HF as [|o l Ha Ht]; subst. cbn [tr_args]. apply bind_ext; [|reflexivity].
      intros st0. apply IH; [exact Ht | exact A].
  Qed.

  Theorem tr_expr_agree : forall e, expr_sc_coincides e.
  Proof.
    apply expr_ind'; unfold expr_sc_coincides.
    - intros x sc1 sc2 A target st. cbn [tr_expr]. unfold py_var. rewrite (A x); [reflexivity | left; reflexivity].
    - intros l sc1 sc2 _ target st. reflexivity.
    - intros op a IHa sc1 sc2 A target st. cbn [tr_expr]. destruct (lookup_assoc op primop_map); [|reflexivity].
      apply bind_ext; [|reflexivity]. intros st0. apply IHa. exact A.
    - intros op a b IHa IHb sc1 sc2 A target st. rewrite used_vars_bin in A. cbn [tr_expr].
      destruct (lookup_assoc op primop_map); [|reflexivity]. cbv zeta.
      apply bind_ext; [intros st0; apply IHa; intros x Hx; apply A; apply In_sunion; left; exact Hx|].
      intros l st0. apply bind_ext; [intros st1; apply IHb; intros x Hx; apply A; apply In_sunion; right; exact Hx|].
      reflexivity.
    - intros op a b IHa IHb sc1 sc2 A target st. rewrite used_vars_cmp in A. cbn [tr_expr].
      destruct (lookup_assoc op primop_map); [|reflexivity].
      apply bind_ext; [intros st0; apply IHa; intros x Hx; apply A; apply In_sunion; left; exact Hx|].
      intros l st0. apply bind_ext; [intros st1; apply IHb; intros x Hx; apply A; apply In_sunion; right; exact Hx|].
      reflexivity.
    - intros f args kws HF sc1 sc2 A target st. rewrite used_vars_call in A. rewrite !tr_expr_call_eq.
      apply bind_ext; [|reflexivity]. intros st0. apply tr_args_agree; [exact HF|].
      intros x Hx. apply A. apply In_sunion. right. exact Hx.
  Qed.

  Lemma all_sc_coincide : forall args, Forall (fun o => match o with Some a => expr_sc_coincides a | None => True end) args.
  Proof. induction args as [|[a|] t IH]; constructor; auto. apply tr_expr_agree. Qed.

  Lemma tr_call_multi_agree : forall e sc1 sc2 outs st, sc_agree (used_vars e) sc1 sc2 ->
    tr_call_multi globals sc1 e outs st = tr_call_multi globals sc2 e outs st.
  Proof.
    intros e sc1 sc2 outs st A. destruct e as [x|l|op a|op a b|op a b|f args kws]; try reflexivity.
    rewrite used_vars_call in A. rewrite !tr_call_multi_eq. apply bind_ext; [|reflexivity].
    intros st0. apply tr_args_agree; [apply all_sc_coincide|]. intros x Hx. apply A. apply In_sunion. right. exact Hx.
  Qed.

  Lemma tr_returns_agree : forall legacy inputs es sc1 sc2, legacy = false -> sc_agree (used_vars_list es) sc1 sc2 ->
    forall tuple i outs st,
    tr_returns globals legacy inputs sc1 tuple i es outs st = tr_returns globals legacy inputs sc2 tuple i es outs st.
  Proof.
    intros legacy inputs es sc1 sc2 ->. induction es as [|e t IH]; intros A tuple i outs st; [reflexivity|].
    rewrite used_vars_list_cons in A. cbn [tr_returns]. cbv zeta. apply bind_ext.
    - intros st0. apply tr_expr_agree. intros x Hx. apply A. apply In_sunion. left. exact Hx.
    - intros v st0. apply bind_ext; [reflexivity|]. intros v1 st1. apply bind_ext; [reflexivity|]. intros v2 st2.
      apply IH. intros x Hx. apply A. apply In_sunion. right. exact Hx.
  Qed.
End ScopeCoincidence.

(* ------------------------------------------------------------------ restriction of an environment / of the scopes to a set of names *)

Definition restrict_sc (L : sset) (sc : scopes) : scopes := map (filter (fun p : string * binding => mem (fst p) L)) sc.

Lemma scope_find_restrict : forall L s x,
  scope_find x (filter (fun p : string * binding => mem (fst p) L) s) = if mem x L then scope_find x s else None.
Proof.
  intros L s x. induction s as [|[y b] t IH]; [destruct (mem x L); reflexivity|]. cbn [filter fst].
  destruct (mem y L) eqn:Ey; cbn [scope_find].
  - destruct (String.eqb x y) eqn:E; [|exact IH]. apply String.eqb_eq in E. subst. rewrite Ey. reflexivity.
  - rewrite IH. destruct (String.eqb x y) eqn:E; [|reflexivity]. apply String.eqb_eq in E. subst. rewrite Ey. reflexivity.
Qed.

Lemma scopes_find_restrict : forall L sc x, scopes_find x (restrict_sc L sc) = if mem x L then scopes_find x sc else None.
Proof.
  intros L sc x. induction sc as [|s t IH]; [destruct (mem x L); reflexivity|]. cbn [restrict_sc map scopes_find].
  rewrite scope_find_restrict. fold (restrict_sc L t). rewrite IH. destruct (mem x L); [reflexivity|reflexivity].
Qed.

Lemma sc_agree_restrict : forall L S sc, incl S L -> sc_agree S sc (restrict_sc L sc).
Proof.
  intros L S sc H x Hx. rewrite scopes_find_restrict. replace (mem x L) with true; [reflexivity|].
  symmetry. apply mem_In. apply H. exact Hx.
Qed.

Lemma scopes_find_bind_all_notin : forall xs ns sc x, ~ In x xs -> scopes_find x (bind_all xs ns sc) = scopes_find x sc.
Proof.
  induction xs as [|y t IH]; intros [|n nt] sc x Hx; cbn [bind_all]; try reflexivity.
  rewrite IH by (intro; apply Hx; right; assumption). rewrite scopes_find_bind.
  destruct (String.eqb x y) eqn:E; [|reflexivity]. apply String.eqb_eq in E. subst. exfalso. apply Hx. left. reflexivity.
Qed.

(* binding the same targets to the same names preserves agreement of scopes, and adds the targets *)
Lemma bind_all_agree : forall xs ns S sc1 sc2, List.length xs = List.length ns -> sc_agree S sc1 sc2 ->
  forall x, In x S \/ In x xs -> scopes_find x (bind_all xs ns sc1) = scopes_find x (bind_all xs ns sc2).
Proof.
  induction xs as [|y t IH]; intros [|n nt] S sc1 sc2 L A x Hx; cbn [bind_all]; try discriminate L.
  - destruct Hx as [Hx|[]]. apply A. exact Hx.
  - apply (IH nt (y :: S)); [cbn in L; congruence | |].
    + intros z Hz. rewrite !scopes_find_bind. destruct (String.eqb z y) eqn:E; [reflexivity|].
      destruct Hz as [Hz|Hz]; [subst; rewrite String.eqb_refl in E; discriminate | apply A; exact Hz].
    + destruct Hx as [Hx|[Hx|Hx]]; [left; right; exact Hx | left; left; exact Hx | right; exact Hx].
Qed.

(* ------------------------------------------------------------------ induction on statements with nested blocks *)

Section StmtInd.
  Variable P : stmt -> Prop.
  Hypothesis HAssign : forall x e, P (SAssign x e).
  Hypothesis HTuple : forall xs e, P (STuple xs e).
  Hypothesis HIf : forall c t f, Forall P t -> Forall P f -> P (SIf c t f).
  Hypothesis HFor : forall i b body, Forall P body -> P (SFor i b body).
  Hypothesis HWhile : forall c body, Forall P body -> P (SWhile c body).
  Hypothesis HBreak : P SBreak.
  Hypothesis HReturn : forall es, P (SReturn es).
  Fixpoint stmt_ind' (s : stmt) : P s :=
    let blk := fix go (l : list stmt) : Forall P l :=
                 match l with [] => Forall_nil _ | a :: r => Forall_cons a (stmt_ind' a) (go r) end in
    match s with
    | SAssign x e => HAssign x e
    | STuple xs e => HTuple xs e
    | SIf c t f => HIf c t f (blk t) (blk f)
    | SFor i b body => HFor i b body (blk body)
    | SWhile c body => HWhile c body (blk body)
    | SBreak => HBreak
    | SReturn es => HReturn es
    end.
End StmtInd.

(* ------------------------------------------------------------------ the S2 class of statements *)

Section Class.
  Variable globals : list (string * lit).
  Variable cic : expr -> option bool.

  (* an S1 expression whose value is a tensor whenever the variables hold tensors: not a bare literal, not the
     bare name of a module-level constant *)
  Definition rhs_ok (e : expr) : bool :=
    expr_ok e &&
    match e with
    | ELit _ => false
    | EVar y => match lookup_assoc y globals with Some _ => false | None => true end
    | _ => true
    end.

  (* assignments, tuple assignments, if/else nested to any depth (conditions the analysis treats as constant included) *)
  Fixpoint s2_stmt (s : stmt) : bool :=
    match s with
    | SAssign _ e => rhs_ok e
    | STuple _ (ECall f a k) => expr_ok (ECall f a k)
    | SIf c t f => match cic c with None => rhs_ok c | Some _ => true end && forallb s2_stmt t && forallb s2_stmt f
    | _ => false
    end.

  Lemma s2_if : forall c t f,
    s2_stmt (SIf c t f) = match cic c with None => rhs_ok c | Some _ => true end && forallb s2_stmt t && forallb s2_stmt f.
  Proof. reflexivity. Qed.

  (* ---- facts about the generated liveness on this class *)
  Variable afuel : nat.

  Lemma assigned_assign : forall x e, assigned_stmt cic (SAssign x e) = [x].
  Proof. reflexivity. Qed.
  Lemma assigned_tuple : forall xs e, assigned_stmt cic (STuple xs e) = xs.
  Proof. reflexivity. Qed.

  Definition live_keeps (s : stmt) : Prop :=
    s2_stmt s = true -> forall lo L x, In x lo -> ~ In x (assigned_stmt cic s) -> live_stmt cic afuel s lo = Some L -> In x L.

  Lemma live_keeps_block : forall ss, Forall live_keeps ss -> forallb s2_stmt ss = true ->
    forall lo L x, In x lo -> ~ In x (assigned_block cic ss) -> live_block cic afuel ss lo = Some L -> In x L.
  Proof.
    intros ss HF. induction HF as [|s r Hs Hr IH]; intros Hc lo L x Hx Hn Hl.
    - rewrite live_block_nil in Hl. inversion Hl; subst. exact Hx.
    - cbn [forallb] in Hc. apply andb_true_iff in Hc. destruct Hc as [Hcs Hcr].
      rewrite live_block_cons in Hl. destruct (live_block cic afuel r lo) as [l1|] eqn:E1; [|discriminate].
      rewrite assigned_block_cons in Hn.
      eapply Hs; [exact Hcs | | | exact Hl].
      + eapply IH; [exact Hcr | exact Hx | | exact E1]. intro H. apply Hn. apply In_sunion. right. exact H.
      + intro H. apply Hn. apply In_sunion. left. exact H.
  Qed.

  Theorem live_keeps_all : forall s, live_keeps s.
  Proof.
    apply stmt_ind'; unfold live_keeps; try (intros; discriminate).
    - intros y e _ lo L x Hx Hn Hl. rewrite live_assign in Hl. inversion Hl; subst. rewrite assigned_assign in Hn.
      apply In_sunion. left. apply In_sdiff. split; assumption.
    - intros ys e _ lo L x Hx Hn Hl. rewrite live_tuple in Hl. inversion Hl; subst. rewrite assigned_tuple in Hn.
      apply In_sunion. left. apply In_sdiff. split; assumption.
    - intros c t f Ht Hf Hc lo L x Hx Hn Hl. rewrite s2_if in Hc. apply andb_true_iff in Hc. destruct Hc as [Hc Hcf].
      apply andb_true_iff in Hc. destruct Hc as [_ Hct]. rewrite live_if in Hl. rewrite assigned_if in Hn.
      destruct (cic c) as [[|]|].
      + eapply live_keeps_block; [exact Ht | exact Hct | exact Hx | exact Hn | exact Hl].
      + eapply live_keeps_block; [exact Hf | exact Hcf | exact Hx | exact Hn | exact Hl].
      + destruct (live_block cic afuel t lo) as [l1|] eqn:E1; [|discriminate].
        destruct (live_block cic afuel f lo) as [l2|] eqn:E2; [|discriminate]. inversion Hl; subst.
        apply In_sunion. left. apply In_sunion. left.
        eapply live_keeps_block; [exact Ht | exact Hct | exact Hx | | exact E1]. intro H. apply Hn. apply In_sunion. left. exact H.
  Qed.

  Definition live_defined (s : stmt) : Prop := s2_stmt s = true -> forall lo, exists L, live_stmt cic afuel s lo = Some L.

  Lemma live_defined_block : forall ss, Forall live_defined ss -> forallb s2_stmt ss = true ->
    forall lo, exists L, live_block cic afuel ss lo = Some L.
  Proof.
    intros ss HF. induction HF as [|s r Hs Hr IH]; intros Hc lo.
    - exists lo. reflexivity.
    - cbn [forallb] in Hc. apply andb_true_iff in Hc. destruct Hc as [Hcs Hcr].
      destruct (IH Hcr lo) as (l1 & E1). rewrite live_block_cons, E1. apply Hs. exact Hcs.
  Qed.

  Theorem live_defined_all : forall s, live_defined s.
  Proof.
    apply stmt_ind'; unfold live_defined; try (intros; discriminate).
    - intros y e _ lo. eexists. apply live_assign.
    - intros ys e _ lo. eexists. apply live_tuple.
    - intros c t f Ht Hf Hc lo. rewrite s2_if in Hc. apply andb_true_iff in Hc. destruct Hc as [Hc Hcf].
      apply andb_true_iff in Hc. destruct Hc as [_ Hct]. rewrite live_if.
      destruct (live_defined_block t Ht Hct lo) as (l1 & E1). destruct (live_defined_block f Hf Hcf lo) as (l2 & E2).
      rewrite E1, E2. destruct (cic c) as [[|]|]; eexists; reflexivity.
  Qed.

  Lemma s2_block_live : forall ss lo, forallb s2_stmt ss = true -> exists L, live_block cic afuel ss lo = Some L.
  Proof.
    intros ss lo H. apply live_defined_block; [|exact H]. clear. induction ss; constructor; auto. apply live_defined_all.
  Qed.

  Lemma s2_block_keeps : forall ss lo L x, forallb s2_stmt ss = true ->
    In x lo -> ~ In x (assigned_block cic ss) -> live_block cic afuel ss lo = Some L -> In x L.
  Proof.
    intros ss lo L x H. apply live_keeps_block; [|exact H]. clear. induction ss; constructor; auto. apply live_keeps_all.
  Qed.
End Class.

(* ------------------------------------------------------------------ the simulation invariant on a set of names *)

Section InvOn.
  Variable V : Type.
  Variable sem : string -> string -> list (string * attrv) -> list (option V) -> option (list V).
  Variable truth : V -> option bool.
  Variable trip : V -> option nat.
  Variable of_nat : nat -> V.
  Variable of_bool : bool -> V.
  Variable limit : nat.
  Variable globals : list (string * lit).
  Variable ev : env V -> graph -> list V -> option (list V).

  Hypothesis sem_identity : forall v, sem "" "Identity" [] [Some v] = Some [v].

  Notation penv := (penv V).
  Notation eval_expr := (eval_expr V sem globals).
  Notation run := (Sem.run V sem truth trip of_nat of_bool limit ev).

  Definition inv_on (L : sset) (pe : penv) (sc : scopes) (ρ : env V) (st : tstate) : Prop :=
    (forall x, In x L -> forall pv, plookup V pe x = Some pv ->
       exists n, scopes_find x sc = Some (BV n) /\ rel V ρ (ts_castable st) pv n) /\
    (forall x, In x L -> plookup V pe x = None -> scopes_find x sc = None) /\
    st_ok V ρ st.

  Definition restrict_pe (L : sset) (pe : penv) : penv := filter (fun p => mem (fst p) L) pe.

  Lemma plookup_restrict : forall L pe x, plookup V (restrict_pe L pe) x = if mem x L then plookup V pe x else None.
  Proof.
    intros L pe x. induction pe as [|[y v] t IH]; [destruct (mem x L); reflexivity|]. cbn [restrict_pe filter fst].
    destruct (mem y L) eqn:Ey; cbn [plookup].
    - destruct (String.eqb x y) eqn:E; [|exact IH]. apply String.eqb_eq in E. subst. rewrite Ey. reflexivity.
    - fold (restrict_pe L t). rewrite IH. destruct (String.eqb x y) eqn:E; [|reflexivity].
      apply String.eqb_eq in E. subst. rewrite Ey. reflexivity.
  Qed.

  Lemma agree_restrict : forall L S pe, incl S L -> agree_on V S pe (restrict_pe L pe).
  Proof.
    intros L S pe H x Hx. rewrite plookup_restrict. replace (mem x L) with true; [reflexivity|].
    symmetry. apply mem_In. apply H. exact Hx.
  Qed.

  Lemma inv_on_restrict : forall L pe sc ρ st, inv_on L pe sc ρ st -> inv V (restrict_pe L pe) (restrict_sc L sc) ρ st.
  Proof.
    intros L pe sc ρ st (I1 & I2 & I3). split; [|split; [|exact I3]].
    - intros x pv H. rewrite plookup_restrict in H. rewrite scopes_find_restrict. destruct (mem x L) eqn:E; [|discriminate].
      apply mem_In in E. exact (I1 x E pv H).
    - intros x H. rewrite plookup_restrict in H. rewrite scopes_find_restrict. destruct (mem x L) eqn:E; [|reflexivity].
      apply mem_In in E. exact (I2 x E H).
  Qed.

  Lemma inv_inv_on : forall L pe sc ρ st, inv V pe sc ρ st -> inv_on L pe sc ρ st.
  Proof. intros L pe sc ρ st (I1 & I2 & I3). split; [|split; [|exact I3]]; intros x _; [apply I1 | apply I2]. Qed.

  Lemma inv_on_sub : forall L L' pe sc ρ st, incl L' L -> inv_on L pe sc ρ st -> inv_on L' pe sc ρ st.
  Proof.
    intros L L' pe sc ρ st H (I1 & I2 & I3). split; [|split; [|exact I3]]; intros x Hx; [apply I1 | apply I2]; apply H; exact Hx.
  Qed.

  Lemma inv_on_grows : forall L pe sc ρ ρ' st st', inv_on L pe sc ρ st -> grows V ρ ρ' st st' -> inv_on L pe sc ρ' st'.
  Proof.
    intros L pe sc ρ ρ' st st' (I1 & I2 & I3) G. split; [|split; [exact I2 | apply G]].
    intros x Hx pv H. destruct (I1 x Hx pv H) as (n & Hn & R). exists n. split; [exact Hn|]. eapply rel_grows; eassumption.
  Qed.

  Lemma inv_on_ext : forall L pe pe' sc sc' ρ st,
    (forall x, In x L -> plookup V pe' x = plookup V pe x) -> (forall x, In x L -> scopes_find x sc' = scopes_find x sc) ->
    inv_on L pe sc ρ st -> inv_on L pe' sc' ρ st.
  Proof.
    intros L pe pe' sc sc' ρ st Hp Hs (I1 & I2 & I3). split; [|split; [|exact I3]].
    - intros x Hx pv H. rewrite Hp in H by exact Hx. rewrite Hs by exact Hx. exact (I1 x Hx pv H).
    - intros x Hx H. rewrite Hp in H by exact Hx. rewrite Hs by exact Hx. exact (I2 x Hx H).
  Qed.

  Lemma grows_refl' : forall (ρ : env V) st, st_ok V ρ st -> grows V ρ ρ st st.
  Proof. intros ρ st H. split; [reflexivity|]. split; [apply incl_refl|]. split; [intros m _; split; intros Hm; exact Hm | exact H]. Qed.

  (* the state alone grew (nodes were generated for something that is not executed) *)
  Lemma grows_st_ext : forall ρ st st', st_ok V ρ st -> st_ext st st' -> grows V ρ ρ st st'.
  Proof.
    intros ρ st st' [S1 S2] (E1 & E2 & E3). split; [reflexivity|]. split; [exact E1|]. split; [exact E2|]. split.
    - intros m v H. apply E1. eapply S1. exact H.
    - apply E3. exact S2.
  Qed.

  (* ---- expressions under the restricted invariant *)

  Lemma tr_expr_sound_on : forall e L sc target st n st' nodes pe ρ pv,
    expr_ok e = true -> incl (used_vars e) L ->
    tr_expr globals sc target e st = Some (n, st', nodes) -> inv_on L pe sc ρ st -> eval_expr pe e = Some pv ->
    exists ρ', run ρ nodes = Some ρ' /\ rel V ρ' (ts_castable st') pv n /\ grows V ρ ρ' st st'.
  Proof.
    intros e L sc target st n st' nodes pe ρ pv Hok Hu Htr Hinv Hev.
    rewrite (tr_expr_agree globals e sc (restrict_sc L sc)) in Htr by (apply sc_agree_restrict; exact Hu).
    rewrite (eval_expr_agree V sem globals e pe (restrict_pe L pe)) in Hev by (apply agree_restrict; exact Hu).
    exact (tr_expr_sound V sem truth trip of_nat of_bool limit globals ev e Hok _ _ _ _ _ _ _ _ _ Htr (inv_on_restrict _ _ _ _ _ Hinv) Hev).
  Qed.

  Lemma inv_on_assign : forall L lo pe sc ρ st x pv n,
    inv_on L pe sc ρ st -> rel V ρ (ts_castable st) pv n -> (forall y, In y lo -> y = x \/ In y L) ->
    inv_on lo ((x, pv) :: pe) (bind_var x (BV n) sc) ρ st.
  Proof.
    intros L lo pe sc ρ st x pv n (I1 & I2 & I3) R Hlo. split; [|split; [|exact I3]].
    - intros y Hy pw H. cbn [plookup] in H. rewrite scopes_find_bind. destruct (String.eqb y x) eqn:E.
      + inversion H; subst. exists n. split; [reflexivity | exact R].
      + destruct (Hlo y Hy) as [Hyx|HyL]; [subst; rewrite String.eqb_refl in E; discriminate|]. exact (I1 y HyL pw H).
    - intros y Hy H. cbn [plookup] in H. rewrite scopes_find_bind. destruct (String.eqb y x) eqn:E; [discriminate|].
      destruct (Hlo y Hy) as [Hyx|HyL]; [subst; rewrite String.eqb_refl in E; discriminate|]. exact (I2 y HyL H).
  Qed.

  Lemma mapM_uniq_length : forall xs st names st' nodes, mapM uniq xs st = Some (names, st', nodes) -> List.length names = List.length xs.
  Proof.
    induction xs as [|x t IH]; intros st names st' nodes H; cbn [mapM] in H.
    - apply ret_some in H. destruct H as (-> & _). reflexivity.
    - apply bind_some in H. destruct H as (r & st1 & n1 & n2 & _ & H & _).
      apply bind_some in H. destruct H as (rs & st2 & n3 & n4 & Ht & Hr & _).
      apply ret_some in Hr. destruct Hr as (-> & _). cbn. f_equal. eapply IH. exact Ht.
  Qed.

  Lemma tr_call_multi_length : forall sc e xs st names st' nodes,
    tr_call_multi globals sc e xs st = Some (names, st', nodes) -> List.length names = List.length xs.
  Proof.
    intros sc e xs st names st' nodes H. destruct e as [x|l|op a|op a b|op a b|f args kws]; try discriminate H.
    rewrite tr_call_multi_eq in H.
    apply bind_some in H. destruct H as (vals & st1 & n1 & n2 & _ & H & _).
    apply bind_some in H. destruct H as (vals' & st2 & n3 & n4 & _ & H & _).
    apply bind_some in H. destruct H as (nm & st3 & n5 & n6 & Hm & H & _).
    apply bind_some in H. destruct H as (u & st4 & n7 & n8 & _ & Hr & _).
    apply ret_some in Hr. destruct Hr as (-> & _). eapply mapM_uniq_length. exact Hm.
  Qed.

  Lemma tr_call_multi_sound_on : forall f args kws L lo sc xs st names st' nodes pe ρ vs pe',
    expr_ok (ECall f args kws) = true -> incl (used_vars (ECall f args kws)) L ->
    (forall y, In y lo -> In y xs \/ In y L) ->
    tr_call_multi globals sc (ECall f args kws) xs st = Some (names, st', nodes) ->
    inv_on L pe sc ρ st -> eval_call_multi V sem globals pe (ECall f args kws) = Some vs -> pbind V xs vs pe = Some pe' ->
    exists ρ', run ρ nodes = Some ρ' /\ inv_on lo pe' (bind_all xs names sc) ρ' st' /\ grows V ρ ρ' st st'.
  Proof.
    intros f args kws L lo sc xs st names st' nodes pe ρ vs pe' Hok Hu Hlo Htr Hinv Hev Hpb.
    pose proof (tr_call_multi_length _ _ _ _ _ _ _ Htr) as Hlen.
    rewrite (tr_call_multi_agree globals _ sc (restrict_sc L sc)) in Htr by (apply sc_agree_restrict; exact Hu).
    rewrite (eval_call_multi_agree V sem globals _ pe (restrict_pe L pe)) in Hev by (apply agree_restrict; exact Hu).
    destruct (pbind_agree V L xs vs pe (restrict_pe L pe) pe' (agree_restrict L L pe (incl_refl _)) Hpb) as (pe'' & Hpb' & Hag).
    destruct (tr_call_multi_sound V sem truth trip of_nat of_bool limit globals ev f args kws Hok _ _ _ _ _ _ _ _ _ _
                Htr (inv_on_restrict _ _ _ _ _ Hinv) Hev Hpb') as (ρ' & R & Hinv' & G).
    exists ρ'. split; [exact R|]. split; [|exact G].
    eapply inv_on_ext; [| |apply inv_inv_on; exact Hinv'].
    - intros y Hy. apply Hag. destruct (Hlo y Hy); auto.
    - intros y Hy. apply (bind_all_agree xs names L); [symmetry; exact Hlen | apply sc_agree_restrict; apply incl_refl|].
      destruct (Hlo y Hy); auto.
  Qed.

  (* ---- variables hold tensors only *)

  Definition all_PT (pe : penv) : Prop := forall x pv, plookup V pe x = Some pv -> is_scalar V pv = false.

  Lemma all_PT_cons : forall pe x pv, all_PT pe -> is_scalar V pv = false -> all_PT ((x, pv) :: pe).
  Proof.
    intros pe x pv H Hp y pw Hy. cbn [plookup] in Hy. destruct (String.eqb y x); [inversion Hy; subst; exact Hp | eapply H; exact Hy].
  Qed.

  Lemma all_PT_pbind : forall xs vs pe pe', all_PT pe -> pbind V xs vs pe = Some pe' -> all_PT pe'.
  Proof.
    induction xs as [|x t IH]; intros [|v vt] pe pe' H Hp; cbn [pbind] in Hp; try discriminate.
    - inversion Hp; subst. exact H.
    - eapply IH; [|exact Hp]. apply all_PT_cons; [exact H | reflexivity].
  Qed.

  Lemma option_map_PT : forall (o : option V) pv, option_map (PT V) o = Some pv -> is_scalar V pv = false.
  Proof. intros [v|] pv H; cbn in H; [inversion H; reflexivity | discriminate]. Qed.

  Lemma rhs_tensor : forall e pe pv, rhs_ok globals e = true -> all_PT pe -> eval_expr pe e = Some pv -> is_scalar V pv = false.
  Proof.
    intros e pe pv Hr Hall Hev. unfold rhs_ok in Hr. apply andb_true_iff in Hr. destruct Hr as [_ Hr].
    destruct e as [x|l|op a|op a b|op a b|f args kws]; try discriminate Hr.
    - cbn [PySem.eval_expr] in Hev. destruct (plookup V pe x) as [v|] eqn:E.
      + inversion Hev; subst. eapply Hall. exact E.
      + destruct (lookup_assoc x globals); [discriminate Hr | discriminate Hev].
    - cbn [PySem.eval_expr] in Hev. destruct (lookup_assoc op primop_map); [|discriminate].
      destruct (PySem.eval_expr V sem globals pe a) as [[v|l c]|]; try discriminate. eapply option_map_PT. exact Hev.
    - cbn [PySem.eval_expr] in Hev. destruct (lookup_assoc op primop_map); [|discriminate].
      destruct (PySem.eval_expr V sem globals pe a) as [va|]; [|discriminate].
      destruct (PySem.eval_expr V sem globals pe b) as [vb|]; [|discriminate].
      destruct (is_scalar V va && is_scalar V vb); [discriminate|]. cbv zeta in Hev.
      destruct (promoted V sem s [Some va; Some vb]); [|discriminate]. eapply option_map_PT. exact Hev.
    - cbn [PySem.eval_expr] in Hev. destruct (lookup_assoc op primop_map); [|discriminate].
      destruct (PySem.eval_expr V sem globals pe a) as [va|]; [|discriminate].
      destruct (PySem.eval_expr V sem globals pe b) as [vb|]; [|discriminate].
      destruct (is_scalar V va && is_scalar V vb); [discriminate|].
      destruct (String.eqb s "NotEqual").
      + destruct (promoted V sem "Equal" [Some va; Some vb]); [|discriminate].
        destruct (sem1 V sem "" "Equal" [] l); [|discriminate]. eapply option_map_PT. exact Hev.
      + destruct (promoted V sem s [Some va; Some vb]); [|discriminate]. eapply option_map_PT. exact Hev.
    - rewrite eval_expr_call_eq in Hev. destruct (eval_args V sem globals pe args); [|discriminate].
      destruct f as [name|name].
      + destruct (promoted V sem name l); [|discriminate]. eapply option_map_PT. exact Hev.
      + eapply option_map_PT. exact Hev.
  Qed.

  (* ---- the outputs of a branch graph *)

  Lemma scopes_find_cur : forall x sc b, scope_find x (cur_scope sc) = Some b -> scopes_find x sc = Some b.
  Proof. intros x [|s t] b H; cbn in *; [discriminate|]. rewrite H. reflexivity. Qed.

  Lemma scopes_find_outer : forall x sc, scope_find x (cur_scope sc) = None -> scopes_find x sc = scopes_find x (tl sc).
  Proof. intros x [|s t] H; cbn in *; [reflexivity|]. rewrite H. reflexivity. Qed.

  Lemma capture_some : forall A (m : M A) st r st' ns, capture m st = Some (r, st', ns) ->
    exists a n0, m st = Some (a, st', n0) /\ r = (a, n0) /\ ns = [].
  Proof.
    intros A m st r st' ns H. unfold capture in H. destruct (m st) as [[[a st0] n0]|]; [|discriminate].
    inversion H; subst. exists a, n0. auto.
  Qed.

  (* a name of the invariant's domain that the scopes know is bound to a tensor *)
  Lemma inv_on_bound : forall L pe sc ρ st x b, inv_on L pe sc ρ st -> all_PT pe -> In x L -> scopes_find x sc = Some b ->
    exists n v, b = BV n /\ plookup V pe x = Some (PT V v) /\ lookup ρ n = Some v /\ ~ In n (ts_castable st).
  Proof.
    intros L pe sc ρ st x b (I1 & I2 & I3) Hall Hx Hs. destruct (plookup V pe x) as [pv|] eqn:E.
    - destruct (I1 x Hx pv E) as (n & Hn & R). rewrite Hn in Hs. inversion Hs; subst.
      pose proof (Hall x pv E) as Hp. destruct pv as [v|l c]; [|discriminate]. destruct R as [R1 R2].
      exists n, v. auto.
    - rewrite (I2 x Hx E) in Hs. discriminate.
  Qed.

  Lemma identity_copy : forall (ρ : env V) st c r st1 n v,
    st_ok V ρ st -> lookup ρ n = Some v -> gen_unique c st = Some (r, st1) ->
    run ρ [identity n r] = Some ((r, v) :: ρ) /\ grows V ρ ((r, v) :: ρ) st st1.
  Proof.
    intros ρ st c r st1 n v Hok Hl Hu. split.
    - unfold identity, node1. eapply run_plain with (vs := [Some v]) (rs := [v]); [intros _; reflexivity | | apply sem_identity | reflexivity].
      cbn [lookup_opts]. rewrite Hl. reflexivity.
    - eapply (grows_fresh V truth trip of_nat limit ev); eassumption.
  Qed.

  Lemma block_outputs_sound : forall live_defs sc_b acc prev st outs nodes st' ns pe ρ L,
    block_outputs false sc_b live_defs acc prev st = Some ((outs, nodes), st', ns) ->
    inv_on L pe sc_b ρ st -> all_PT pe -> incl live_defs L ->
    exists extra ρ' vals, nodes = acc ++ extra /\ run ρ extra = Some ρ' /\ lookups ρ' outs = Some vals /\
      Forall2 (fun x v => plookup V pe x = Some (PT V v)) live_defs vals /\ grows V ρ ρ' st st'.
  Proof.
    induction live_defs as [|pv t IH]; intros sc_b acc prev st outs nodes st' ns pe ρ L H Hinv Hall Hin; cbn [block_outputs] in H.
    - apply ret_some in H. destruct H as (E & -> & _). inversion E; subst.
      exists [], ρ, []. rewrite app_nil_r. split; [reflexivity|]. split; [reflexivity|]. split; [reflexivity|].
      split; [constructor | apply grows_refl'; apply Hinv].
    - assert (HpvL : In pv L) by (apply Hin; left; reflexivity).
      assert (HtL : incl t L) by (intros y Hy; apply Hin; right; exact Hy).
      (* whichever way the value is found, it is the tensor the variable holds *)
      assert (Hcopy : forall n v acc0 prev0 st0 outs0 nodes0 ns0,
                lookup ρ n = Some v -> plookup V pe pv = Some (PT V v) ->
                (c <- uniq pv ;; r <- block_outputs false sc_b t (acc0 ++ [identity n c]) (prev0 ++ [c]) ;; ret (c :: fst r, snd r)) st
                  = Some ((outs0, nodes0), st0, ns0) ->
                exists extra ρ' vals, nodes0 = acc0 ++ extra /\ run ρ extra = Some ρ' /\ lookups ρ' outs0 = Some vals /\
                  Forall2 (fun x v => plookup V pe x = Some (PT V v)) (pv :: t) vals /\ grows V ρ ρ' st st0).
      { intros n v acc0 prev0 st0 outs0 nodes0 ns0 Hl Hp H0.
        apply bind_some in H0. destruct H0 as (c & st1 & n1 & n2 & Hu & H0 & _).
        apply uniq_some in Hu. destruct Hu as (Hu & _).
        apply bind_some in H0. destruct H0 as (r & st2 & n3 & n4 & Hr & Hret & _).
        apply ret_some in Hret. destruct Hret as (E & -> & _). inversion E; subst outs0 nodes0. destruct r as [ro rn]. cbn [fst snd] in *.
        destruct (identity_copy ρ st pv c st1 n v (proj2 (proj2 Hinv)) Hl Hu) as (Rc & Gc).
        destruct (IH sc_b _ _ st1 ro rn st2 n3 pe ((c, v) :: ρ) L Hr (inv_on_grows _ _ _ _ _ _ _ Hinv Gc) Hall HtL)
          as (extra & ρ' & vals & En & Rr & Lr & Fr & Gr).
        exists (identity n c :: extra), ρ', (v :: vals). split; [rewrite En, <- app_assoc; reflexivity|].
        split; [rewrite run_cons1, Rc; exact Rr|]. split.
        - cbn [lookups]. rewrite (proj1 Gr); [|apply gen_unique_fresh in Hu; destruct Hu as (_ & -> & _); left; reflexivity].
          cbn [lookup]. rewrite String.eqb_refl, Lr. reflexivity.
        - split; [constructor; assumption | eapply grows_trans; eassumption]. }
      destruct (scope_find pv (cur_scope sc_b)) as [b|] eqn:Ecur.
      + destruct (inv_on_bound L pe sc_b ρ st pv b Hinv Hall HpvL (scopes_find_cur _ _ _ Ecur)) as (n & v & -> & Hp & Hl & Hnc).
        apply bind_some in H. destruct H as (vn & st1 & n1 & n2 & Hcap & H & _).
        apply capture_some in Hcap. destruct Hcap as (a & n0 & Hto & -> & _). cbn [to_onnx_var] in Hto.
        apply ret_some in Hto. destruct Hto as (-> & -> & ->). cbn [fst snd] in H. cbv zeta in H. rewrite app_nil_r in H.
        destruct (keep_as_output false n acc prev).
        * apply bind_some in H. destruct H as (r & st2 & n3 & n4 & Hr & Hret & _).
          apply ret_some in Hret. destruct Hret as (E & -> & _). inversion E; subst outs nodes. destruct r as [ro rn]. cbn [fst snd] in *.
          destruct (IH sc_b _ _ st ro rn st2 n3 pe ρ L Hr Hinv Hall HtL) as (extra & ρ' & vals & En & Rr & Lr & Fr & Gr).
          exists extra, ρ', (v :: vals). split; [exact En|]. split; [exact Rr|]. split.
          -- cbn [lookups]. rewrite (proj1 Gr); [rewrite Hl, Lr; reflexivity|]. eapply (proj1 (proj2 (proj2 Hinv))). exact Hl.
          -- split; [constructor; assumption | exact Gr].
        * eapply Hcopy; eassumption.
      + destruct (scopes_find pv (tl sc_b)) as [b|] eqn:Eout; [|discriminate].
        rewrite <- (scopes_find_outer _ _ Ecur) in Eout.
        destruct (inv_on_bound L pe sc_b ρ st pv b Hinv Hall HpvL Eout) as (n & v & -> & Hp & Hl & Hnc).
        apply bind_some in H. destruct H as (vn & st1 & n1 & n2 & Hcap & H & _).
        apply capture_some in Hcap. destruct Hcap as (a & n0 & Hto & -> & _). cbn [to_onnx_var] in Hto.
        apply ret_some in Hto. destruct Hto as (-> & -> & ->). cbn [fst snd app] in H.
        eapply Hcopy; eassumption.
  Qed.
End InvOn.

(* ------------------------------------------------------------------ computations that emit no node *)

Definition quiet {A} (m : M A) : Prop := forall st a st' ns, m st = Some (a, st', ns) -> ns = [].

Lemma quiet_ret : forall A (a : A), quiet (ret a).
Proof. intros A a st b st' ns H. apply ret_some in H. tauto. Qed.
Lemma quiet_fail : forall A, quiet (@fail A).
Proof. intros A st a st' ns H. discriminate H. Qed.
Lemma quiet_uniq : forall c, quiet (uniq c).
Proof. intros c st r st' ns H. apply uniq_some in H. tauto. Qed.
Lemma quiet_capture : forall A (m : M A), quiet (capture m).
Proof. intros A m st a st' ns H. apply capture_some in H. destruct H as (a0 & n0 & _ & _ & E). exact E. Qed.
Lemma quiet_bind : forall A B (m : M A) (f : A -> M B), quiet m -> (forall a, quiet (f a)) -> quiet (bind m f).
Proof.
  intros A B m f Hm Hf st b st' ns H. apply bind_some in H. destruct H as (a & st1 & n1 & n2 & H1 & H2 & ->).
  rewrite (Hm _ _ _ _ H1), (Hf _ _ _ _ _ H2). reflexivity.
Qed.

Lemma quiet_block_outputs : forall legacy sc_b live_defs acc prev, quiet (block_outputs legacy sc_b live_defs acc prev).
Proof.
  intros legacy sc_b live_defs. induction live_defs as [|pv t IH]; intros acc prev; cbn [block_outputs]; [apply quiet_ret|].
  destruct (scope_find pv (cur_scope sc_b)) as [b|].
  - apply quiet_bind; [apply quiet_capture|]. intros vn. cbv zeta.
    destruct (keep_as_output legacy (fst vn) (acc ++ snd vn) prev).
    + apply quiet_bind; [apply IH|]. intros r. apply quiet_ret.
    + apply quiet_bind; [apply quiet_uniq|]. intros c. apply quiet_bind; [apply IH|]. intros r. apply quiet_ret.
  - destruct (scopes_find pv (tl sc_b)) as [b|]; [|apply quiet_fail].
    apply quiet_bind; [apply quiet_capture|]. intros vn.
    apply quiet_bind; [apply quiet_uniq|]. intros c. apply quiet_bind; [apply IH|]. intros r. apply quiet_ret.
Qed.

Lemma guard_some : forall b st u st' ns, guard b st = Some (u, st', ns) -> b = true /\ st' = st /\ ns = [].
Proof. intros [|] st u st' ns H; cbn in H; [apply ret_some in H; tauto | discriminate]. Qed.

Lemma Forall2_len : forall A B (R : A -> B -> Prop) l1 l2, Forall2 R l1 l2 -> List.length l1 = List.length l2.
Proof. intros A B R l1 l2 H. induction H; cbn; congruence. Qed.

(* binding distinct targets to names: what the scopes say afterwards *)
Lemma bind_all_bound : forall A (P : string -> A -> Prop) (Q : vname -> A -> Prop) xs ns vals sc,
  NoDup xs -> Forall2 P xs vals -> Forall2 Q ns vals ->
  forall x, In x xs -> exists n v, scopes_find x (bind_all xs ns sc) = Some (BV n) /\ P x v /\ Q n v.
Proof.
  intros A P Q xs. induction xs as [|x0 xt IH]; intros ns vals sc Hnd HP HQ x Hx; [destruct Hx|].
  inversion HP as [|a v0 la vt Hp0 HPt]; subst. inversion HQ as [|n0 b nt lb Hq0 HQt]; subst.
  inversion Hnd as [|a l Hnotin Hndt]; subst. cbn [bind_all].
  destruct (string_dec x x0) as [E|E].
  - subst x0. exists n0, v0. split; [|split; assumption].
    rewrite scopes_find_bind_all_notin by exact Hnotin. rewrite scopes_find_bind, String.eqb_refl. reflexivity.
  - destruct Hx as [Hx|Hx]; [congruence|]. eapply IH; eassumption.
Qed.

Section S2.
  Variable V : Type.
  Variable sem : string -> string -> list (string * attrv) -> list (option V) -> option (list V).
  Variable truth : V -> option bool.
  Variable trip : V -> option nat.
  Variable of_nat : nat -> V.
  Variable of_bool : bool -> V.
  Variable limit : nat.
  Variable while_limit : nat.
  Variable globals : list (string * lit).
  Variable cic : expr -> option bool.
  Variable afuel : nat.
  Variable inputs : list vname.

  Hypothesis sem_identity : forall v, sem "" "Identity" [] [Some v] = Some [v].
  Hypothesis cic_sound : forall c b pe v, cic c = Some b -> eval_expr V sem globals pe c = Some v -> ptruth V truth v = Some b.

  Notation penv := (penv V).
  Notation eval_expr := (eval_expr V sem globals).
  Notation eval_graph := (Sem.eval_graph V sem truth trip of_nat of_bool limit).
  Notation runk k := (Sem.run V sem truth trip of_nat of_bool limit (Sem.eval_graph V sem truth trip of_nat of_bool limit k)).
  Notation tr_stmts := (tr_stmts globals cic afuel false inputs).
  Notation exec_block := (exec_block V sem truth trip of_nat while_limit globals).
  Notation exec_stmt1 := (exec_stmt1 V sem truth trip of_nat while_limit globals).
  Notation inv_on := (inv_on V).
  Notation all_PT := (all_PT V).
  Notation s2_stmt := (s2_stmt globals cic).

  (* ---- the translation of an if statement, named *)

  Definition tr_branch (fu : nat) (blk : list stmt) (lo_s : sset) (sc : scopes) (live_defs : list string) : M graph :=
    r <- capture (tr_stmts fu false blk lo_s ([] :: sc) []) ;;
    o <- block_outputs false (fst (fst r)) live_defs (snd r) [] ;;
    ret (Graph [] [] (snd o) (fst o)).

  Definition tr_if (fu : nat) (c : expr) (t f : list stmt) (lo_s : sset) (sc : scopes) (outs : list vname)
    : M (scopes * list vname) :=
    live_defs <- list_set (sinter lo_s (assigned_stmt cic (SIf c t f))) ;;
    test <- tr_expr globals sc (Some "cond") c ;;
    g_then <- tr_branch fu t lo_s sc live_defs ;;
    g_else <- tr_branch fu f lo_s sc live_defs ;;
    renamed <- mapM uniq live_defs ;;
    guard (negb (is_nil renamed)) ;;;
    guard (negb (match renamed with [r1] => String.eqb r1 test | _ => false end)) ;;;
    emit (Node "" "If" [Some test] renamed [] [("then_branch", g_then); ("else_branch", g_else)]) ;;;
    ret (bind_all live_defs renamed sc, outs).

  Lemma tr_stmts_if : forall fu top c t f rest lo sc outs,
    tr_stmts (S fu) top (SIf c t f :: rest) lo sc outs =
    (lo_s <- lift (live_block cic afuel rest lo) ;;
     r <- match cic c with
          | Some true => tr_stmts fu false t lo_s sc outs
          | Some false => tr_stmts fu false f lo_s sc outs
          | None => tr_if fu c t f lo_s sc outs
          end ;;
     tr_stmts (S fu) top rest lo (fst r) (snd r)).
  Proof. reflexivity. Qed.

  Lemma tr_stmts_zero : forall top ss lo sc outs st, tr_stmts 0 top ss lo sc outs st = None.
  Proof. reflexivity. Qed.

  (* ---- state monotonicity of the statement translation on the class *)

  Lemma mono_tr_branch : forall fu blk lo_s sc live_defs,
    (forall top lo sc outs, mono (tr_stmts fu top blk lo sc outs)) -> mono (tr_branch fu blk lo_s sc live_defs).
  Proof.
    intros fu blk lo_s sc live_defs H. unfold tr_branch. apply mono_bind; [apply mono_capture; apply H|].
    intros r. apply mono_bind; [apply mono_block_outputs|]. intros o. apply mono_ret.
  Qed.

  Lemma mono_tr_stmts : forall n top ss lo sc outs, forallb s2_stmt ss = true -> mono (tr_stmts n top ss lo sc outs).
  Proof.
    induction n as [|fu IHn]; intros top ss lo sc outs Hc; [intros st a st' ns H; rewrite tr_stmts_zero in H; discriminate|].
    revert sc outs. induction ss as [|s rest IHs]; intros sc outs; [rewrite tr_stmts_nil; apply mono_ret|].
    cbn [forallb] in Hc. apply andb_true_iff in Hc. destruct Hc as [Hs Hr]. specialize (IHs Hr).
    destruct s as [x e|xs e|c t f|i b body|c body| |es]; try discriminate Hs.
    - rewrite tr_stmts_assign. apply mono_bind; [apply mono_lift|]. intros lo_s.
      apply mono_bind; [|intros r; apply IHs]. apply mono_bind; [apply mono_tr_expr|]. intros v. apply mono_ret.
    - rewrite tr_stmts_tuple. apply mono_bind; [apply mono_lift|]. intros lo_s.
      apply mono_bind; [|intros r; apply IHs]. apply mono_bind; [apply mono_tr_call_multi|]. intros v. apply mono_ret.
    - rewrite s2_if in Hs. apply andb_true_iff in Hs. destruct Hs as [Hs Hf]. apply andb_true_iff in Hs. destruct Hs as [_ Ht].
      rewrite tr_stmts_if. apply mono_bind; [apply mono_lift|]. intros lo_s.
      apply mono_bind; [|intros r; apply IHs].
      destruct (cic c) as [[|]|]; [apply IHn; exact Ht | apply IHn; exact Hf|].
      unfold tr_if. apply mono_bind; [apply mono_list_set|]. intros live_defs.
      apply mono_bind; [apply mono_tr_expr|]. intros test.
      apply mono_bind; [apply mono_tr_branch; intros; apply IHn; exact Ht|]. intros g_then.
      apply mono_bind; [apply mono_tr_branch; intros; apply IHn; exact Hf|]. intros g_else.
      apply mono_bind; [apply mono_mapM; intros a; apply mono_uniq|]. intros renamed.
      apply mono_bind; [apply mono_guard|]. intros _. apply mono_bind; [apply mono_guard|]. intros _.
      apply mono_bind; [apply mono_emit|]. intros _. apply mono_ret.
  Qed.

  Lemma tr_branch_some : forall fu blk lo_s sc live_defs st g st' ns,
    tr_branch fu blk lo_s sc live_defs st = Some (g, st', ns) ->
    exists sc_b outs_b st_m ns_b bo_outs bo_nodes,
      tr_stmts fu false blk lo_s ([] :: sc) [] st = Some ((sc_b, outs_b), st_m, ns_b) /\
      block_outputs false sc_b live_defs ns_b [] st_m = Some ((bo_outs, bo_nodes), st', []) /\
      g = Graph [] [] bo_nodes bo_outs /\ ns = [].
  Proof.
    intros fu blk lo_s sc live_defs st g st' ns H. unfold tr_branch in H.
    apply bind_some in H. destruct H as (r & st1 & n1 & n2 & Hc & H & ->).
    apply capture_some in Hc. destruct Hc as ([sc_b outs_b] & ns_b & Htr & -> & ->). cbn [fst snd] in H.
    apply bind_some in H. destruct H as ([bo_outs bo_nodes] & st2 & n3 & n4 & Hbo & Hr & ->).
    apply ret_some in Hr. destruct Hr as (-> & -> & ->). cbn [fst snd].
    pose proof (quiet_block_outputs _ _ _ _ _ _ _ _ _ Hbo) as ->.
    exists sc_b, outs_b, st1, ns_b, bo_outs, bo_nodes. auto.
  Qed.

  (* ---- the simulation for blocks of the class, by induction on the nesting fuel *)

  Definition blocks_ok (n : nat) : Prop := forall k, n <= S k ->
    forall ss top lo sc outs st sc' outs' st' nodes pe ρ f2 o L,
    forallb s2_stmt ss = true ->
    tr_stmts n top ss lo sc outs st = Some ((sc', outs'), st', nodes) ->
    live_block cic afuel ss lo = Some L ->
    inv_on L pe sc ρ st -> all_PT pe ->
    exec_block f2 ss pe = Some o ->
    exists pe' ρ', o = ONormal V pe' /\ runk k ρ nodes = Some ρ' /\ inv_on lo pe' sc' ρ' st' /\ all_PT pe' /\
                   grows V ρ ρ' st st' /\ outs' = outs.

  (* the taken branch: its graph evaluates, in the environment at the If node, to the values the variables
     listed as outputs hold after the branch *)
  Lemma branch_sound : forall fu k', blocks_ok fu -> fu <= S k' ->
    forall t lo_s sc st1 sc_t outs_t st2 ns_t live_defs bo_outs bo_nodes st3 l1 pe ρ1 f2 o,
    forallb s2_stmt t = true ->
    tr_stmts fu false t lo_s ([] :: sc) [] st1 = Some ((sc_t, outs_t), st2, ns_t) ->
    block_outputs false sc_t live_defs ns_t [] st2 = Some ((bo_outs, bo_nodes), st3, []) ->
    live_block cic afuel t lo_s = Some l1 ->
    inv_on l1 pe ([] :: sc) ρ1 st1 -> all_PT pe -> incl live_defs lo_s ->
    exec_block f2 t pe = Some o ->
    exists pe_t vals, o = ONormal V pe_t /\ all_PT pe_t /\
      eval_graph (S k') ρ1 (Graph [] [] bo_nodes bo_outs) [] = Some vals /\
      Forall2 (fun x v => plookup V pe_t x = Some (PT V v)) live_defs vals.
  Proof.
    intros fu k' IH Hk t lo_s sc st1 sc_t outs_t st2 ns_t live_defs bo_outs bo_nodes st3 l1 pe ρ1 f2 o
           Hc Htr Hbo Hl Hinv Hall Hin Hex.
    destruct (IH k' Hk t false lo_s ([] :: sc) [] st1 sc_t outs_t st2 ns_t pe ρ1 f2 o l1 Hc Htr Hl Hinv Hall Hex)
      as (pe_t & ρ_t & -> & R1 & Hinv_t & Hall_t & G1 & _).
    destruct (block_outputs_sound V sem truth trip of_nat of_bool limit (eval_graph k') sem_identity
                live_defs sc_t ns_t [] st2 bo_outs bo_nodes st3 [] pe_t ρ_t lo_s Hbo Hinv_t Hall_t Hin)
      as (extra & ρ' & vals & En & R2 & L2 & F2 & _).
    exists pe_t, vals. split; [reflexivity|]. split; [exact Hall_t|]. split; [|exact F2].
    cbn [Sem.eval_graph]. unfold eval_body. cbn [g_ins g_nodes g_outs Sem.bind]. rewrite En, run_app, R1, R2. exact L2.
  Qed.

  Lemma run_if_node : forall k (ρ1 ρ2 : env V) test cv b renamed g_then g_else vals,
    lookup ρ1 test = Some cv -> truth cv = Some b ->
    eval_graph k ρ1 (if b then g_then else g_else) [] = Some vals ->
    Sem.bind renamed vals ρ1 = Some ρ2 ->
    runk k ρ1 [Node "" "If" [Some test] renamed [] [("then_branch", g_then); ("else_branch", g_else)]] = Some ρ2.
  Proof.
    intros k ρ1 ρ2 test cv b renamed g_then g_else vals Hl Ht Hg Hb.
    cbn [Sem.run Sem.eval_node]. change (is_if "" "If") with true. cbn [lookup_opts]. rewrite Hl, Ht.
    destruct b; cbv iota in Hg.
    - change (find_sub "then_branch" [("then_branch", g_then); ("else_branch", g_else)]) with (Some g_then). cbv iota. rewrite Hg, Hb. reflexivity.
    - change (find_sub "else_branch" [("then_branch", g_then); ("else_branch", g_else)]) with (Some g_else). cbv iota. rewrite Hg, Hb. reflexivity.
  Qed.

  (* after the If node: the outputs are bound to fresh names, everything else is as before the statement *)
  Lemma if_join : forall L lo_s A pe sc (ρ ρ1 : env V) st st1 st5 st6 live_defs renamed ns pe_t vals,
    inv_on L pe sc ρ st -> grows V ρ ρ1 st st1 -> st_ext st1 st5 ->
    mapM uniq live_defs st5 = Some (renamed, st6, ns) ->
    NoDup live_defs -> (forall x, In x lo_s -> In x A -> In x live_defs) ->
    (forall x, In x lo_s -> ~ In x A -> In x L) ->
    (forall x, ~ In x A -> plookup V pe_t x = plookup V pe x) ->
    Forall2 (fun x v => plookup V pe_t x = Some (PT V v)) live_defs vals ->
    ns = [] /\
    exists ρ2, Sem.bind renamed vals ρ1 = Some ρ2 /\ inv_on lo_s pe_t (bind_all live_defs renamed sc) ρ2 st6 /\ grows V ρ ρ2 st st6.
  Proof.
    intros L lo_s A pe sc ρ ρ1 st st1 st5 st6 live_defs renamed ns pe_t vals Hinv G1 X15 Hren Hnd Hmem Hkeep Hunch F.
    assert (Hok1 : st_ok V ρ1 st1) by apply G1.
    pose proof (grows_st_ext V ρ1 st1 st5 Hok1 X15) as G15.
    assert (Hok5 : st_ok V ρ1 st5) by apply G15.
    destruct (mapM_uniq_sound V truth trip of_nat limit (eval_graph 0) live_defs st5 renamed st6 ns ρ1 Hok5 Hren)
      as (-> & Hlen & _ & Hb).
    split; [reflexivity|].
    assert (Lv : List.length vals = List.length renamed).
    { rewrite Hlen. symmetry. eapply Forall2_len. exact F. }
    destruct (Hb vals Lv) as (ρ2 & B2 & G56 & F2).
    assert (G : grows V ρ ρ2 st st6).
    { eapply grows_trans; [exact G1|]. eapply grows_trans; [exact G15 | exact G56]. }
    exists ρ2. split; [exact B2|]. split; [|exact G].
    destruct Hinv as (I1 & I2 & I3). split; [|split; [|apply G]].
    - intros x Hx pv Hp. destruct (in_dec string_dec x live_defs) as [Hd|Hd].
      + destruct (bind_all_bound V _ _ live_defs renamed vals sc Hnd F F2 x Hd) as (n & v & Hs & Hpv & R).
        rewrite Hpv in Hp. inversion Hp; subst pv. exists n. split; [exact Hs | exact R].
      + assert (HnA : ~ In x A). { intro HA. apply Hd. apply Hmem; assumption. }
        rewrite scopes_find_bind_all_notin by exact Hd. rewrite (Hunch x HnA) in Hp.
        destruct (I1 x (Hkeep x Hx HnA) pv Hp) as (n & Hs & R). exists n. split; [exact Hs|].
        eapply rel_grows; [exact G | exact I3 | exact R].
    - intros x Hx Hp. destruct (in_dec string_dec x live_defs) as [Hd|Hd].
      + destruct (bind_all_bound V _ _ live_defs renamed vals sc Hnd F F2 x Hd) as (n & v & Hs & Hpv & R).
        rewrite Hpv in Hp. discriminate Hp.
      + assert (HnA : ~ In x A). { intro HA. apply Hd. apply Hmem; assumption. }
        rewrite scopes_find_bind_all_notin by exact Hd. rewrite (Hunch x HnA) in Hp. exact (I2 x (Hkeep x Hx HnA) Hp).
  Qed.

  Lemma scopes_find_push : forall x sc, scopes_find x ([] :: sc) = scopes_find x sc.
  Proof. reflexivity. Qed.

  (* the if statement with a condition that is not constant *)
  Lemma if_sound : forall fu k, blocks_ok fu -> fu <= k ->
    forall c t f lo_s sc outs st res st6 nodes pe ρ f2 o L,
    cic c = None -> s2_stmt (SIf c t f) = true ->
    tr_if fu c t f lo_s sc outs st = Some (res, st6, nodes) ->
    live_stmt cic afuel (SIf c t f) lo_s = Some L ->
    inv_on L pe sc ρ st -> all_PT pe ->
    exec_stmt1 f2 (SIf c t f) pe = Some o ->
    exists pe' ρ', o = ONormal V pe' /\ runk k ρ nodes = Some ρ' /\ inv_on lo_s pe' (fst res) ρ' st6 /\ all_PT pe' /\
                   grows V ρ ρ' st st6 /\ snd res = outs.
  Proof.
    intros fu k IH Hk c t f lo_s sc outs st res st6 nodes pe ρ f2 o L Hcic Hs2 Htr Hlive Hinv Hall Hex.
    rewrite s2_if, Hcic in Hs2. apply andb_true_iff in Hs2. destruct Hs2 as [Hs2 Hsf].
    apply andb_true_iff in Hs2. destruct Hs2 as [Hrc Hst].
    pose proof (live_keeps_all globals cic afuel (SIf c t f)) as Hkeep. unfold live_keeps in Hkeep.
    rewrite s2_if, Hcic, Hrc, Hst, Hsf in Hkeep. specialize (Hkeep eq_refl lo_s L).
    pose proof (fun x hx hn => Hkeep x hx hn Hlive) as Hkeep'. clear Hkeep. rename Hkeep' into Hkeep.
    rewrite live_if, Hcic in Hlive.
    destruct (live_block cic afuel t lo_s) as [l1|] eqn:El1; [|discriminate].
    destruct (live_block cic afuel f lo_s) as [l2|] eqn:El2; [|discriminate]. inversion Hlive; subst L. clear Hlive.
    set (A := assigned_stmt cic (SIf c t f)) in *.
    unfold tr_if in Htr. fold A in Htr.
    apply bind_some in Htr. destruct Htr as (live_defs & sta & n0 & n0' & Hls & Htr & ->).
    pose proof (mono_list_set _ _ _ _ _ Hls) as Xa.
    apply list_set_some in Hls. destruct Hls as (_ & _ & -> & Hnd & Hmem).
    apply bind_some in Htr. destruct Htr as (test & st1 & nc & n1' & Htest & Htr & ->).
    apply bind_some in Htr. destruct Htr as (g_then & st3 & n2 & n2' & Hthen & Htr & ->).
    apply bind_some in Htr. destruct Htr as (g_else & st5 & n3 & n3' & Helse & Htr & ->).
    apply bind_some in Htr. destruct Htr as (renamed & st6' & n4 & n4' & Hren & Htr & ->).
    apply bind_some in Htr. destruct Htr as (u1 & st7 & n5 & n5' & Hg1 & Htr & ->).
    apply guard_some in Hg1. destruct Hg1 as (_ & -> & ->).
    apply bind_some in Htr. destruct Htr as (u2 & st8 & n6 & n6' & Hg2 & Htr & ->).
    apply guard_some in Hg2. destruct Hg2 as (_ & -> & ->).
    apply bind_some in Htr. destruct Htr as (u3 & st9 & n7 & n7' & Hem & Hret & ->).
    apply emit_some in Hem. destruct Hem as (-> & ->).
    apply ret_some in Hret. destruct Hret as (-> & -> & ->). cbn [fst snd].
    (* monotonicity of the two branch translations *)
    assert (X13 : st_ext st1 st3).
    { eapply mono_tr_branch; [|exact Hthen]. intros. apply mono_tr_stmts. exact Hst. }
    assert (X35 : st_ext st3 st5).
    { eapply mono_tr_branch; [|exact Helse]. intros. apply mono_tr_stmts. exact Hsf. }
    apply tr_branch_some in Hthen. destruct Hthen as (sc_t & outs_t & st2 & ns_t & bo_t & bn_t & Htt & Hbt & -> & ->).
    apply tr_branch_some in Helse. destruct Helse as (sc_f & outs_f & st4 & ns_f & bo_f & bn_f & Htf & Hbf & -> & ->).
    (* the Python side *)
    cbn [AnalysisProofs.exec_stmt1] in Hex.
    destruct (eval_expr pe c) as [vc|] eqn:Ec; [|discriminate].
    destruct (ptruth V truth vc) as [b|] eqn:Et; [|discriminate].
    (* the condition *)
    assert (Hokc : expr_ok c = true). { unfold rhs_ok in Hrc. apply andb_true_iff in Hrc. apply Hrc. }
    pose proof (inv_on_grows V _ _ _ _ _ _ _ Hinv (grows_st_ext V ρ st sta (proj2 (proj2 Hinv)) Xa)) as Hinva.
    destruct (tr_expr_sound_on V sem truth trip of_nat of_bool limit globals (eval_graph k) c _ sc (Some "cond") sta test st1 nc pe ρ vc
                Hokc ltac:(intros y Hy; apply In_sunion; right; exact Hy) Htest Hinva Ec) as (ρ1 & Rc & Rtest & Gc).
    pose proof (rhs_tensor V sem globals c pe vc Hrc Hall Ec) as Hvc. destruct vc as [cv|lc cc]; [|discriminate Hvc].
    cbn [ptruth] in Et. destruct Rtest as [Ltest _].
    assert (G1 : grows V ρ ρ1 st st1).
    { eapply grows_trans; [|exact Gc]. apply grows_st_ext; [apply Hinv | exact Xa]. }
    pose proof (inv_on_grows V _ _ _ _ _ _ _ Hinv G1) as Hinv1.
    assert (Hin : incl live_defs lo_s). { intros y Hy. apply Hmem in Hy. apply In_sinter in Hy. apply Hy. }
    (* k = S k': the branch graphs were translated with fuel fu *)
    destruct k as [|k'].
    { assert (fu = 0) by lia. subst fu. rewrite tr_stmts_zero in Htt. discriminate Htt. }
    (* assigned variables of the branches are assigned variables of the statement *)
    assert (HAt : forall x, In x (assigned_block cic t) -> In x A).
    { intros x Hx. unfold A. rewrite assigned_if, Hcic. apply In_sunion. left. exact Hx. }
    assert (HAf : forall x, In x (assigned_block cic f) -> In x A).
    { intros x Hx. unfold A. rewrite assigned_if, Hcic. apply In_sunion. right. exact Hx. }
    (* the branch taken *)
    assert (Hbranch : exists pe_t vals, o = ONormal V pe_t /\ all_PT pe_t /\
              eval_graph (S k') ρ1 (if b then Graph [] [] bn_t bo_t else Graph [] [] bn_f bo_f) [] = Some vals /\
              Forall2 (fun x v => plookup V pe_t x = Some (PT V v)) live_defs vals /\
              (forall x, ~ In x A -> plookup V pe_t x = plookup V pe x)).
    { destruct b.
      - destruct (branch_sound fu k' IH Hk t lo_s sc st1 sc_t outs_t st2 ns_t live_defs bo_t bn_t st3 l1 pe ρ1 f2 o
                    Hst Htt Hbt El1) as (pe_t & vals & -> & Hall_t & Hg & F); [| exact Hall | exact Hin | exact Hex |].
        + eapply inv_on_ext; [reflexivity | intros y _; apply scopes_find_push |].
          eapply inv_on_sub; [|exact Hinv1]. intros y Hy. apply In_sunion. left. apply In_sunion. left. exact Hy.
        + exists pe_t, vals. split; [reflexivity|]. split; [exact Hall_t|]. split; [exact Hg|]. split; [exact F|].
          intros x Hx. pose proof (assigned_vars_sound V sem truth trip of_nat while_limit globals cic cic_sound f2 t pe _ Hex) as P.
          cbn in P. apply P. intro H. apply Hx. apply HAt. exact H.
      - destruct (branch_sound fu k' IH Hk f lo_s sc st3 sc_f outs_f st4 ns_f live_defs bo_f bn_f st5 l2 pe ρ1 f2 o
                    Hsf Htf Hbf El2) as (pe_t & vals & -> & Hall_t & Hg & F); [| exact Hall | exact Hin | exact Hex |].
        + eapply inv_on_ext; [reflexivity | intros y _; apply scopes_find_push |].
          eapply inv_on_sub; [|eapply inv_on_grows; [exact Hinv1 | apply grows_st_ext; [apply G1 | exact X13]]].
          intros y Hy. apply In_sunion. left. apply In_sunion. right. exact Hy.
        + exists pe_t, vals. split; [reflexivity|]. split; [exact Hall_t|]. split; [exact Hg|]. split; [exact F|].
          intros x Hx. pose proof (assigned_vars_sound V sem truth trip of_nat while_limit globals cic cic_sound f2 f pe _ Hex) as P.
          cbn in P. apply P. intro H. apply Hx. apply HAf. exact H. }
    destruct Hbranch as (pe_t & vals & -> & Hall_t & Hg & F & Hunch).
    destruct (if_join _ lo_s A pe sc ρ ρ1 st st1 st5 st6' live_defs renamed n4 pe_t vals
                Hinv G1 (st_ext_trans _ _ _ X13 X35) Hren Hnd (fun x h1 h2 => proj2 (Hmem x) (proj2 (In_sinter x lo_s A) (conj h1 h2))) Hkeep Hunch F) as (-> & ρ2 & B2 & Hinv2 & G2).
    exists pe_t, ρ2. split; [reflexivity|]. split; [|split; [exact Hinv2|split; [exact Hall_t|split; [exact G2|reflexivity]]]].
    cbn [app]. rewrite ?app_nil_r. rewrite run_app, Rc.
    eapply run_if_node; eassumption.
  Qed.

  (* ---- one statement of the class, followed by the rest of its block *)

  Lemma stmt_step : forall fu k, blocks_ok fu -> fu <= k ->
    forall s rest top lo sc outs st res st' nodes pe ρ f2 o L,
    s2_stmt s = true ->
    tr_stmts (S fu) top (s :: rest) lo sc outs st = Some (res, st', nodes) ->
    live_block cic afuel (s :: rest) lo = Some L ->
    inv_on L pe sc ρ st -> all_PT pe ->
    exec_block (S f2) (s :: rest) pe = Some o ->
    exists lo_s sc1 st1 n1 n2 pe1 ρ1,
      nodes = n1 ++ n2 /\ live_block cic afuel rest lo = Some lo_s /\
      tr_stmts (S fu) top rest lo sc1 outs st1 = Some (res, st', n2) /\
      runk k ρ n1 = Some ρ1 /\ inv_on lo_s pe1 sc1 ρ1 st1 /\ all_PT pe1 /\ grows V ρ ρ1 st st1 /\
      exec_block (S f2) rest pe1 = Some o.
  Proof.
    intros fu k IH Hk s rest top lo sc outs st res st' nodes pe ρ f2 o L Hs Htr Hl Hinv Hall Hex.
    rewrite live_block_cons in Hl. destruct (live_block cic afuel rest lo) as [lo_s|] eqn:El; [|discriminate].
    rewrite exec_block_cons in Hex.
    destruct s as [x e|xs e|c t f|i b body|c body| |es]; try discriminate Hs.
    - (* assignment *)
      cbn [s2_stmt] in Hs. rewrite live_assign in Hl. inversion Hl; subst L. clear Hl.
      rewrite tr_stmts_assign in Htr.
      apply bind_some in Htr. destruct Htr as (lo_s' & st0 & n0 & n0' & Hlift & Htr & ->).
      apply lift_some in Hlift. destruct Hlift as (_ & -> & ->).
      apply bind_some in Htr. destruct Htr as (r & stB & n1 & n2 & Has & Htr & ->).
      apply bind_some in Has. destruct Has as (v & st1 & n3 & n4 & Hte & Hret & ->).
      apply ret_some in Hret. destruct Hret as (-> & -> & ->). cbn [fst snd] in Htr.
      cbn [AnalysisProofs.exec_stmt1] in Hex. destruct (eval_expr pe e) as [pv|] eqn:Ee; [|discriminate].
      assert (Hoke : expr_ok e = true). { unfold rhs_ok in Hs. apply andb_true_iff in Hs. apply Hs. }
      destruct (tr_expr_sound_on V sem truth trip of_nat of_bool limit globals (eval_graph k) e _ sc (Some x) st v st1 n3 pe ρ pv
                  Hoke ltac:(intros y Hy; apply In_sunion; right; exact Hy) Hte Hinv Ee) as (ρ1 & R1 & Rv & G1).
      exists lo_s, (bind_var x (BV v) sc), st1, (n3 ++ []), n2, ((x, pv) :: pe), ρ1.
      split; [reflexivity|]. split; [reflexivity|]. split; [exact Htr|]. split; [rewrite app_nil_r; exact R1|].
      split; [|split; [|split; [exact G1 | exact Hex]]].
      + eapply inv_on_assign; [eapply inv_on_grows; [exact Hinv | exact G1] | exact Rv|].
        intros y Hy. destruct (string_dec y x) as [E|E]; [left; exact E|]. right. apply In_sunion. left. apply In_sdiff.
        split; [exact Hy|]. intros [H|[]]. congruence.
      + apply all_PT_cons; [exact Hall|]. eapply rhs_tensor; eassumption.
    - (* tuple assignment *)
      destruct e as [| | | | |fn args kws]; try discriminate Hs. cbn [s2_stmt] in Hs.
      rewrite live_tuple in Hl. inversion Hl; subst L. clear Hl.
      rewrite tr_stmts_tuple in Htr.
      apply bind_some in Htr. destruct Htr as (lo_s' & st0 & n0 & n0' & Hlift & Htr & ->).
      apply lift_some in Hlift. destruct Hlift as (_ & -> & ->).
      apply bind_some in Htr. destruct Htr as (r & stB & n1 & n2 & Has & Htr & ->).
      apply bind_some in Has. destruct Has as (nm & st1 & n3 & n4 & Htm & Hret & ->).
      apply ret_some in Hret. destruct Hret as (-> & -> & ->). cbn [fst snd] in Htr.
      cbn [AnalysisProofs.exec_stmt1] in Hex.
      destruct (eval_call_multi V sem globals pe (ECall fn args kws)) as [cvs|] eqn:Ec; [|discriminate].
      destruct (pbind V xs cvs pe) as [pe1|] eqn:Epb; [|discriminate]. cbn [option_map] in Hex.
      destruct (tr_call_multi_sound_on V sem truth trip of_nat of_bool limit globals (eval_graph k) fn args kws (sunion (sdiff lo_s xs) (used_vars (ECall fn args kws))) lo_s sc xs st nm st1 n3 pe ρ cvs pe1
                  Hs ltac:(intros y Hy; apply In_sunion; right; exact Hy)) as (ρ1 & R1 & Hinv1 & G1); try eassumption.
      { intros y Hy. destruct (in_dec string_dec y xs) as [Hi|Hi]; [left; exact Hi|]. right. apply In_sunion. left.
        apply In_sdiff. split; assumption. }
      exists lo_s, (bind_all xs nm sc), st1, (n3 ++ []), n2, pe1, ρ1.
      split; [reflexivity|]. split; [reflexivity|]. split; [exact Htr|]. split; [rewrite app_nil_r; exact R1|].
      split; [exact Hinv1|]. split; [eapply all_PT_pbind; eassumption|]. split; [exact G1 | exact Hex].
    - (* if *)
      rewrite tr_stmts_if in Htr.
      apply bind_some in Htr. destruct Htr as (lo_s' & st0 & n0 & n0' & Hlift & Htr & ->).
      apply lift_some in Hlift. destruct Hlift as (E0 & -> & ->). rewrite El in E0. inversion E0; subst lo_s'. clear E0.
      apply bind_some in Htr. destruct Htr as ([sc1 outs1] & st1 & n1 & n2 & Hif & Htr & ->). cbn [fst snd] in Htr.
      destruct (cic c) as [cb|] eqn:Ecic.
      + (* constant condition: the chosen block is translated in place *)
        pose proof Hs as Hs'. rewrite s2_if, Ecic in Hs'. apply andb_true_iff in Hs'. destruct Hs' as [Hs' Hsf].
        apply andb_true_iff in Hs'. destruct Hs' as [_ Hst].
        rewrite live_if, Ecic in Hl.
        destruct (AnalysisProofs.exec_stmt1 V sem truth trip of_nat while_limit globals f2 (SIf c t f) pe) as [o1|] eqn:Es; [|discriminate].
        cbn [AnalysisProofs.exec_stmt1] in Es.
        destruct (eval_expr pe c) as [vc|] eqn:Ec; [|discriminate].
        rewrite (cic_sound _ _ _ _ Ecic Ec) in Es.
        assert (Hk' : fu <= S k) by lia.
        destruct cb.
        * destruct (IH k Hk' t false lo_s sc outs st sc1 outs1 st1 n1 pe ρ f2 o1 L Hst Hif Hl Hinv Hall Es)
            as (pe1 & ρ1 & -> & R1 & Hinv1 & Hall1 & G1 & ->).
          exists lo_s, sc1, st1, n1, n2, pe1, ρ1. repeat (split; [first [reflexivity | assumption]|]). exact Hex.
        * destruct (IH k Hk' f false lo_s sc outs st sc1 outs1 st1 n1 pe ρ f2 o1 L Hsf Hif Hl Hinv Hall Es)
            as (pe1 & ρ1 & -> & R1 & Hinv1 & Hall1 & G1 & ->).
          exists lo_s, sc1, st1, n1, n2, pe1, ρ1. repeat (split; [first [reflexivity | assumption]|]). exact Hex.
      + destruct (AnalysisProofs.exec_stmt1 V sem truth trip of_nat while_limit globals f2 (SIf c t f) pe) as [o1|] eqn:Es; [|discriminate].
        destruct (if_sound fu k IH Hk c t f lo_s sc outs st (sc1, outs1) st1 n1 pe ρ f2 o1 L Ecic Hs Hif Hl Hinv Hall Es)
          as (pe1 & ρ1 & -> & R1 & Hinv1 & Hall1 & G1 & Eo). cbn [fst snd] in *. subst outs1.
        exists lo_s, sc1, st1, n1, n2, pe1, ρ1. repeat (split; [first [reflexivity | assumption]|]). exact Hex.
  Qed.

  Theorem blocks_ok_all : forall n, blocks_ok n.
  Proof.
    induction n as [|fu IH]; intros k Hk ss top lo sc outs st sc' outs' st' nodes pe ρ f2 o L Hc Htr Hl Hinv Hall Hex.
    { rewrite tr_stmts_zero in Htr. discriminate Htr. }
    assert (Hk' : fu <= k) by lia.
    revert sc outs st nodes pe ρ L Htr Hl Hinv Hall Hex.
    induction ss as [|s rest IHs]; intros sc outs st nodes pe ρ L Htr Hl Hinv Hall Hex.
    - rewrite tr_stmts_nil in Htr. apply ret_some in Htr. destruct Htr as (E & -> & ->). inversion E; subst sc' outs'.
      rewrite live_block_nil in Hl. inversion Hl; subst L.
      destruct f2 as [|f2]; [discriminate Hex|]. rewrite exec_block_nil in Hex. inversion Hex; subst o.
      exists pe, ρ. split; [reflexivity|]. split; [reflexivity|]. split; [exact Hinv|]. split; [exact Hall|].
      split; [apply grows_refl'; exact (proj2 (proj2 Hinv)) | reflexivity].
    - cbn [forallb] in Hc. apply andb_true_iff in Hc. destruct Hc as [Hs Hr].
      destruct f2 as [|f2]; [discriminate Hex|].
      destruct (stmt_step fu k IH Hk' s rest top lo sc outs st (sc', outs') st' nodes pe ρ f2 o L Hs Htr Hl Hinv Hall Hex)
        as (lo_s & sc1 & st1 & n1 & n2 & pe1 & ρ1 & -> & El & Htr1 & R1 & Hinv1 & Hall1 & G1 & Hex1).
      destruct (IHs Hr sc1 outs st1 n2 pe1 ρ1 lo_s Htr1 El Hinv1 Hall1 Hex1) as (pe' & ρ' & -> & R2 & Hinv2 & Hall2 & G2 & ->).
      exists pe', ρ'. split; [reflexivity|]. split; [rewrite run_app, R1; exact R2|]. split; [exact Hinv2|]. split; [exact Hall2|].
      split; [eapply grows_trans; eassumption | reflexivity].
  Qed.

  (* ---- a body: statements of the class, then one return *)

  Lemma body_live : forall pre es lo, forallb s2_stmt pre = true -> exists L, live_block cic afuel (pre ++ [SReturn es]) lo = Some L.
  Proof.
    induction pre as [|s r IH]; intros es lo Hc.
    - eexists. cbn [app]. rewrite live_block_cons, live_block_nil. apply live_return.
    - cbn [forallb] in Hc. apply andb_true_iff in Hc. destruct Hc as [Hs Hr]. destruct (IH es lo Hr) as (l1 & E1).
      cbn [app]. rewrite live_block_cons, E1. apply (live_defined_all globals cic afuel s Hs).
  Qed.

  Lemma body_sound : forall fu k, fu <= k -> forall pre, forallb s2_stmt pre = true -> forall es, forallb expr_ok es = true ->
    forall lo sc outs st sc' outs' st' nodes pe ρ f2 vs vs0 L,
    tr_stmts (S fu) true (pre ++ [SReturn es]) lo sc outs st = Some ((sc', outs'), st', nodes) ->
    live_block cic afuel (pre ++ [SReturn es]) lo = Some L ->
    inv_on L pe sc ρ st -> all_PT pe ->
    exec_block (S f2) (pre ++ [SReturn es]) pe = Some (OReturn V vs) ->
    lookups ρ outs = Some vs0 ->
    exists ρ', runk k ρ nodes = Some ρ' /\ lookups ρ' outs' = Some (vs0 ++ vs).
  Proof.
    intros fu k Hk. induction pre as [|s rest IH]; intros Hpre es Hes lo sc outs st sc' outs' st' nodes pe ρ f2 vs vs0 L Htr Hl Hinv Hall Hex Hlk.
    - cbn [app] in *. rewrite live_block_cons, live_block_nil, live_return in Hl. inversion Hl; subst L. clear Hl.
      rewrite tr_stmts_return in Htr. rewrite exec_block_return in Hex.
      apply bind_some in Htr. destruct Htr as (lo_s & st1 & n1 & n2 & Hlift & Htr & ->).
      apply lift_some in Hlift. destruct Hlift as (_ & -> & ->).
      apply bind_some in Htr. destruct Htr as (r & st2 & n3 & n4 & Hret & Htr & ->).
      rewrite tr_stmts_nil in Htr. apply ret_some in Htr. destruct Htr as (E1 & -> & ->).
      apply bind_some in Hret. destruct Hret as (u & st3 & n5 & n6 & Hg & Hret & ->).
      apply guard_some in Hg. destruct Hg as (_ & -> & ->).
      apply bind_some in Hret. destruct Hret as (o & st4 & n7 & n8 & Hrs & Hret & ->).
      apply ret_some in Hret. destruct Hret as (-> & -> & ->).
      destruct (eval_rets V sem globals pe es) as [rv|] eqn:Er; [|discriminate]. inversion Hex; subst rv.
      inversion E1; subst sc' outs'.
      rewrite (tr_returns_agree globals false inputs es sc (restrict_sc (used_vars_list es) sc) eq_refl) in Hrs
        by (apply sc_agree_restrict; apply incl_refl).
      rewrite (eval_rets_agree V sem globals es pe (restrict_pe V (used_vars_list es) pe)) in Er
        by (apply agree_restrict; apply incl_refl).
      destruct (tr_returns_sound V sem truth trip of_nat of_bool limit globals (eval_graph k) sem_identity inputs es Hes
                  _ _ _ _ _ _ _ _ _ _ _ _ Hrs (inv_on_restrict V _ _ _ _ _ Hinv) Er Hlk) as (ρ1 & R1 & L1 & _).
      exists ρ1. split; [|exact L1]. cbn [app]. rewrite !app_nil_r. exact R1.
    - cbn [forallb] in Hpre. apply andb_true_iff in Hpre. destruct Hpre as [Hs Hr]. cbn [app] in *.
      destruct (stmt_step fu k (blocks_ok_all fu) Hk s (rest ++ [SReturn es]) true lo sc outs st (sc', outs') st' nodes pe ρ f2 _ L
                  Hs Htr Hl Hinv Hall Hex)
        as (lo_s & sc1 & st1 & n1 & n2 & pe1 & ρ1 & -> & El & Htr1 & R1 & Hinv1 & Hall1 & G1 & Hex1).
      destruct (IH Hr es Hes lo sc1 outs st1 sc' outs' st' n2 pe1 ρ1 f2 vs vs0 lo_s Htr1 El Hinv1 Hall1 Hex1
                  (lookups_grows V _ _ _ _ _ _ (proj2 (proj2 Hinv)) G1 Hlk)) as (ρ2 & R2 & L2).
      exists ρ2. split; [rewrite run_app, R1; exact R2 | exact L2].
  Qed.
End S2.

(* ------------------------------------------------------------------ S2: the theorem *)

Section S2Final.
  Variable V : Type.
  Variable sem : string -> string -> list (string * attrv) -> list (option V) -> option (list V).
  Variable truth : V -> option bool.
  Variable trip : V -> option nat.
  Variable of_nat : nat -> V.
  Variable of_bool : bool -> V.
  Variable limit : nat.
  Variable while_limit : nat.
  Variable globals : list (string * lit).
  Hypothesis sem_identity : forall v, sem "" "Identity" [] [Some v] = Some [v].

  Lemma pbind_all_PT : forall xs vs pe0, pbind V xs vs [] = Some pe0 -> all_PT V pe0.
  Proof. intros xs vs pe0 H. eapply all_PT_pbind; [|exact H]. intros x pv Hx. discriminate Hx. Qed.

  Theorem translate_ifelse_correct : forall cic afuel orders f g xs vs fuel2 k pre es,
    (forall c b pe v, cic c = Some b -> eval_expr V sem globals pe c = Some v -> ptruth V truth v = Some b) ->
    f_body f = pre ++ [SReturn es] -> forallb (s2_stmt globals cic) pre = true -> forallb expr_ok es = true ->
    f_aparams f = [] -> NoDup (f_tparams f) ->
    translate false globals cic afuel orders f = Some g ->
    eval_script V sem truth trip of_nat while_limit globals (S fuel2) f xs = Some vs ->
    stmt_depth_fuel <= S k ->
    eval_graph V sem truth trip of_nat of_bool limit (S k) [] g xs = Some vs.
  Proof.
    intros cic afuel orders f g xs vs fuel2 k pre es Hcic Hbody Hpre Hes Hap Hnd Htr Hev Hk.
    rewrite translate_eq, Hbody in Htr.
    destruct (Translate.tr_stmts globals cic afuel false (f_tparams f) (S 11) true (pre ++ [SReturn es]) [] [rev (init_scope f)] [] (init_state f orders))
      as [[[[sc' outs] st'] nodes]|] eqn:Et; [|discriminate]. inversion Htr; subst g. clear Htr.
    unfold eval_script in Hev. rewrite Hbody in Hev.
    destruct (pbind V (f_tparams f) xs []) as [pe0|] eqn:Ep; [|discriminate].
    destruct (PySem.exec_block V sem truth trip of_nat while_limit globals (S fuel2) (pre ++ [SReturn es]) pe0) as [[e1|e1|rv]|] eqn:Ex; try discriminate.
    inversion Hev; subst rv. clear Hev.
    destruct (init_inv V f orders xs pe0 Hap Hnd Ep) as (ρ0 & B & Hinv).
    destruct (body_live globals cic afuel pre es [] Hpre) as (L & El).
    unfold stmt_depth_fuel in Hk.
    destruct (body_sound V sem truth trip of_nat of_bool limit while_limit globals cic afuel (f_tparams f) sem_identity Hcic
                11 k ltac:(lia) pre Hpre es Hes [] _ [] _ sc' outs st' nodes pe0 ρ0 fuel2 vs [] L Et El
                (inv_inv_on V L _ _ _ _ Hinv) (pbind_all_PT _ _ _ Ep) Ex eq_refl) as (ρ1 & R1 & L1).
    cbn [eval_graph]. unfold eval_body. cbn [g_ins g_nodes g_outs]. rewrite B, R1. exact L1.
  Qed.
End S2Final.
