(* Semantic lemmas used by the soundness proofs of the constant folder (C03/C04), for arbitrary kernels:
   - monotonicity of the evaluator in the environment (`sub_env`) and refinement of one node by a node with
     redirected inputs / refined subgraphs (`eval_node_refines`);
   - invariance of evaluation under an injective renaming of value names (`eval_graph_ren`). *)
From Coq Require Import List String ZArith Bool Lia.
Require Import OV.Graph.Syntax OV.Graph.Sem OV.Graph.Names OV.Graph.SemProofs OV.Opt.Fold.
Import ListNotations.
Local Open Scope list_scope.

Lemma map_node_eq : forall rho d o i u a s,
  map_node rho (Node d o i u a s) = Node d o (map (option_map rho) i) (map rho u) a (map_subs rho s).
Proof. intros. reflexivity. Qed.
Lemma map_graph_eq : forall rho i ii ns o,
  map_graph rho (Graph i ii ns o) = Graph (map rho i) (map rho ii) (map_nodes rho ns) (map rho o).
Proof. intros. reflexivity. Qed.
Lemma map_nodes_cons rho n t : map_nodes rho (n :: t) = map_node rho n :: map_nodes rho t.
Proof. reflexivity. Qed.
Lemma map_nodes_app rho a b : map_nodes rho (a ++ b) = map_nodes rho a ++ map_nodes rho b.
Proof. induction a as [|n t IH]; [reflexivity|]. cbn [app]. rewrite !map_nodes_cons, IH. reflexivity. Qed.

Section L.
  Variable V : Type.
  Variable sem : string -> string -> list (string * attrv) -> list (option V) -> option (list V).
  Variable truth : V -> option bool.
  Variable trip : V -> option nat.
  Variable of_nat : nat -> V.
  Variable of_bool : bool -> V.
  Variable limit : nat.

  Notation env := (list (vname * V)).
  Notation eval_node := (eval_node V sem truth trip of_nat of_bool limit).
  Notation run := (run V sem truth trip of_nat of_bool limit).
  Notation eval_body := (eval_body V sem truth trip of_nat of_bool limit).
  Notation eval_graph := (eval_graph V sem truth trip of_nat of_bool limit).
  Notation loop_iter := (loop_iter V truth of_nat of_bool).
  Notation evaluator := (env -> graph -> list V -> option (list V)).

  (* ---------------------------------------------------------------- sub-environments *)
  Definition sub_env (e e' : env) : Prop := forall x v, lookup e x = Some v -> lookup e' x = Some v.

  Lemma sub_refl e : sub_env e e.
  Proof. intros x v H; exact H. Qed.
  Lemma sub_trans e1 e2 e3 : sub_env e1 e2 -> sub_env e2 e3 -> sub_env e1 e3.
  Proof. intros A B x v H. apply B, A, H. Qed.
  Lemma sub_cons e e' x v : sub_env e e' -> sub_env ((x, v) :: e) ((x, v) :: e').
  Proof. intros H y w. cbn. destruct (String.eqb y x); [auto|apply H]. Qed.

  Lemma bind_both xs vs (e e' : env) a : bind xs vs e = Some a -> exists a', bind xs vs e' = Some a'.
  Proof.
    revert vs a. induction xs as [|x t IH]; intros [|v vt] a; cbn; try discriminate.
    - intros _. eexists; reflexivity.
    - destruct (bind t vt e) as [r|] eqn:B; cbn; [|discriminate]. intros _.
      destruct (IH vt r B) as [r' ->]. cbn. eexists; reflexivity.
  Qed.
  Lemma sub_bind xs vs e e' a a' : sub_env e e' -> bind xs vs e = Some a -> bind xs vs e' = Some a' -> sub_env a a'.
  Proof.
    revert vs a a'. induction xs as [|x t IH]; intros [|v vt] a a' S; cbn; try discriminate.
    - intros H1 H2; inversion H1; inversion H2; subst; exact S.
    - destruct (bind t vt e) as [r|] eqn:B; cbn; [|discriminate].
      destruct (bind t vt e') as [r'|] eqn:B'; cbn; [|discriminate].
      intros H1 H2; inversion H1; inversion H2; subst. apply sub_cons. eapply IH; eauto.
  Qed.

  (* lookups through a name map g with  lookup e x = Some v -> lookup e' (g x) = Some v *)
  Section NameMap.
    Variables (e e' : env) (g : vname -> vname).
    Hypothesis Hg : forall x v, lookup e x = Some v -> lookup e' (g x) = Some v.

    Lemma lookup_opts_map ins vs : lookup_opts e ins = Some vs -> lookup_opts e' (map (option_map g) ins) = Some vs.
    Proof.
      revert vs. induction ins as [|[x|] t IH]; intros vs; cbn.
      - auto.
      - destruct (lookup e x) as [v|] eqn:L; [|discriminate].
        destruct (lookup_opts e t) as [r|] eqn:R; [|discriminate].
        intro H; inversion H; subst. rewrite (Hg x v L), (IH r eq_refl). reflexivity.
      - destruct (lookup_opts e t) as [r|] eqn:R; cbn; [|discriminate].
        intro H; inversion H; subst. rewrite (IH r eq_refl). reflexivity.
    Qed.
    Lemma lookups_map xs vs : lookups e xs = Some vs -> lookups e' (map g xs) = Some vs.
    Proof.
      revert vs. induction xs as [|x t IH]; intros vs; cbn; [auto|].
      destruct (lookup e x) as [v|] eqn:L; [|discriminate].
      destruct (lookups e t) as [r|] eqn:R; [|discriminate].
      intro H; inversion H; subst. rewrite (Hg x v L), (IH r eq_refl). reflexivity.
    Qed.
    Lemma present_map ins : present (map (option_map g) ins) = map g (present ins).
    Proof. induction ins as [|[x|] t IH]; cbn; [reflexivity| |]; rewrite ?IH; reflexivity. Qed.
  End NameMap.

  Lemma loop_iter_refines (ev ev' : evaluator) e e' body body' :
    (forall args r, ev e body args = Some r -> ev' e' body' args = Some r) ->
    forall bounded k i c st r, loop_iter ev e body bounded k i c st = Some r -> loop_iter ev' e' body' bounded k i c st = Some r.
  Proof.
    intros H bounded k. induction k as [|k IH]; intros i c st r; cbn.
    - destruct (negb c); auto.
    - destruct (negb c); [auto|].
      destruct (ev e body (of_nat i :: of_bool c :: st)) as [[|cv' st']|] eqn:E; try discriminate.
      rewrite (H _ _ E).
      destruct (Nat.eqb _ _); [|discriminate]. destruct (truth cv'); [|discriminate]. apply IH.
  Qed.

  (* one node against the node with mapped inputs and refined subgraphs *)
  Lemma eval_node_refines (ev ev' : evaluator) e e' g dom op ins outs attrs subs subs' a :
    (forall x v, lookup e x = Some v -> lookup e' (g x) = Some v) ->
    (forall name sg, find_sub name subs = Some sg ->
       exists sg', find_sub name subs' = Some sg' /\ forall args r, ev e sg args = Some r -> ev' e' sg' args = Some r) ->
    eval_node ev e (Node dom op ins outs attrs subs) = Some a ->
    exists vals, bind outs vals e = Some a /\
      exists a', eval_node ev' e' (Node dom op (map (option_map g) ins) outs attrs subs') = Some a' /\ bind outs vals e' = Some a'.
  Proof.
    intros Hg Hs. unfold Sem.eval_node.
    destruct (is_if dom op).
    - destruct (lookup_opts e ins) as [[|[c|] [|? ?]]|] eqn:L; try discriminate.
      rewrite (lookup_opts_map e e' g Hg _ _ L).
      destruct (truth c) as [b|]; [|discriminate].
      destruct (find_sub _ subs) as [sg|] eqn:F; [|discriminate].
      destruct (Hs _ _ F) as [sg' [F' R]]. rewrite F'.
      destruct (ev e sg []) as [vs|] eqn:E; [|discriminate]. rewrite (R _ _ E).
      intro B. exists vs. split; [exact B|].
      destruct (bind_both outs vs e e' a B) as [a' B']. exists a'. split; exact B'.
    - destruct (is_loop dom op).
      + destruct ins as [|m [|c carried]]; try discriminate.
        cbn [map].
        destruct (find_sub "body"%string subs) as [body|] eqn:F; [|discriminate].
        destruct (Hs _ _ F) as [body' [F' R]]. rewrite F'.
        destruct (lookup_opts e [m; c]) as [[|mv [|cv [|? ?]]]|] eqn:L; try discriminate.
        pose proof (lookup_opts_map e e' g Hg _ _ L) as L'. cbn [map] in L'. rewrite L'.
        destruct (lookups e (present carried)) as [st0|] eqn:LC; [|discriminate].
        rewrite (present_map g carried), (lookups_map e e' g Hg _ _ LC).
        destruct (match mv with Some v => option_map Some (trip v) | None => Some None end) as [mt|]; [|discriminate].
        destruct (match cv with Some v => truth v | None => Some true end) as [c0|]; [|discriminate].
        destruct mt as [k|].
        * destruct (loop_iter ev e body true k 0 c0 st0) as [stf|] eqn:LI; [|discriminate].
          rewrite (loop_iter_refines ev ev' e e' body body' R _ _ _ _ _ _ LI).
          intro B. exists stf. split; [exact B|].
          destruct (bind_both outs stf e e' a B) as [a' B']. exists a'. split; exact B'.
        * destruct (loop_iter ev e body false limit 0 c0 st0) as [stf|] eqn:LI; [|discriminate].
          rewrite (loop_iter_refines ev ev' e e' body body' R _ _ _ _ _ _ LI).
          intro B. exists stf. split; [exact B|].
          destruct (bind_both outs stf e e' a B) as [a' B']. exists a'. split; exact B'.
      + destruct (lookup_opts e ins) as [vs|] eqn:L; [|discriminate].
        rewrite (lookup_opts_map e e' g Hg _ _ L).
        destruct (sem dom op attrs vs) as [rs|]; [|discriminate].
        intro B. exists rs. split; [exact B|].
        destruct (bind_both outs rs e e' a B) as [a' B']. exists a'. split; exact B'.
  Qed.

  Lemma map_option_id {A} (l : list (option A)) : map (option_map (fun x => x)) l = l.
  Proof. induction l as [|[x|] t IH]; cbn; rewrite ?IH; reflexivity. Qed.

  (* ---------------------------------------------------------------- monotonicity *)
  Definition ev_mono (ev : evaluator) : Prop :=
    forall e e' g args r, sub_env e e' -> ev e g args = Some r -> ev e' g args = Some r.

  Lemma eval_node_mono ev e e' n a : ev_mono ev -> sub_env e e' -> eval_node ev e n = Some a ->
    exists a', eval_node ev e' n = Some a' /\ sub_env a a'.
  Proof.
    intros M S H. destruct n as [dom op ins outs attrs subs].
    destruct (eval_node_refines ev ev e e' (fun x => x) dom op ins outs attrs subs subs a) as [vals [B [a' [E' B']]]].
    - exact S.
    - intros name sg F. exists sg. split; [exact F|]. intros args r. apply M, S.
    - exact H.
    - rewrite map_option_id in E'. exists a'. split; [exact E'|]. eapply sub_bind; eauto.
  Qed.

  Lemma run_mono ev ns : ev_mono ev -> forall e e' a, sub_env e e' -> run ev e ns = Some a ->
    exists a', run ev e' ns = Some a' /\ sub_env a a'.
  Proof.
    intros M. induction ns as [|n t IH]; intros e e' a S; cbn.
    - intro H; inversion H; subst. exists e'. auto.
    - destruct (eval_node ev e n) as [e1|] eqn:E; [|discriminate].
      destruct (eval_node_mono ev e e' n e1 M S E) as [e1' [E' S']]. rewrite E'. apply IH. exact S'.
  Qed.

  Lemma sub_lookups e e' xs vs : sub_env e e' -> lookups e xs = Some vs -> lookups e' xs = Some vs.
  Proof. intros S H. pose proof (lookups_map e e' (fun x => x) S xs vs H) as L. rewrite map_id in L. exact L. Qed.

  Lemma eval_body_mono ev : ev_mono ev -> ev_mono (eval_body ev).
  Proof.
    intros M e e' g args r S. unfold Sem.eval_body.
    destruct (bind (g_ins g) args e) as [e0|] eqn:B; [|discriminate].
    destruct (bind_both _ _ e e' e0 B) as [e0' B']. rewrite B'.
    pose proof (sub_bind _ _ _ _ _ _ S B B') as S0.
    destruct (run ev e0 (g_nodes g)) as [e1|] eqn:R; [|discriminate].
    destruct (run_mono ev _ M _ _ _ S0 R) as [e1' [R' S1]]. rewrite R'.
    apply sub_lookups. exact S1.
  Qed.

  Theorem eval_graph_mono F : ev_mono (eval_graph F).
  Proof.
    induction F as [|f IH]; [intros e e' g args r _ H; discriminate|].
    cbn [Sem.eval_graph]. apply eval_body_mono. exact IH.
  Qed.

  (* ---------------------------------------------------------------- injective renaming *)
  Section Ren.
    Variable rho : vname -> vname.
    Variable N : list vname.
    Hypothesis inj : forall x y, In x N -> In y N -> rho x = rho y -> x = y.

    Definition ren_rel (e e' : env) : Prop := forall x, In x N -> lookup e' (rho x) = lookup e x.

    Lemma ren_lookup_opts e e' ins : ren_rel e e' -> incl (present ins) N ->
      lookup_opts e' (map (option_map rho) ins) = lookup_opts e ins.
    Proof.
      intros R. induction ins as [|[x|] t IH]; intros I; cbn.
      - reflexivity.
      - rewrite (R x) by (apply I; left; reflexivity). rewrite IH; [reflexivity|].
        intros y Hy. apply I. right. exact Hy.
      - rewrite IH; [reflexivity|exact I].
    Qed.
    Lemma ren_lookups e e' xs : ren_rel e e' -> incl xs N -> lookups e' (map rho xs) = lookups e xs.
    Proof.
      intros R. induction xs as [|x t IH]; intros I; cbn; [reflexivity|].
      rewrite (R x) by (apply I; left; reflexivity). rewrite IH; [reflexivity|].
      intros y Hy. apply I. right. exact Hy.
    Qed.

    Lemma ren_cons e e' x v : In x N -> ren_rel e e' -> ren_rel ((x, v) :: e) ((rho x, v) :: e').
    Proof.
      intros Hx R y Hy. cbn.
      destruct (String.eqb y x) eqn:E.
      - apply String.eqb_eq in E. subst. rewrite String.eqb_refl. reflexivity.
      - destruct (String.eqb (rho y) (rho x)) eqn:E2.
        + apply String.eqb_eq in E2. apply inj in E2; auto. subst. rewrite String.eqb_refl in E. discriminate.
        + apply R. exact Hy.
    Qed.

    Lemma ren_bind e e' outs vs : ren_rel e e' -> incl outs N ->
      match bind outs vs e, bind (map rho outs) vs e' with
      | Some a, Some a' => ren_rel a a'
      | None, None => True
      | _, _ => False
      end.
    Proof.
      intros R. revert vs. induction outs as [|x t IH]; intros [|v vt] I; cbn; auto.
      assert (It : incl t N) by (intros y Hy; apply I; right; exact Hy).
      specialize (IH vt It). destruct (bind t vt e), (bind (map rho t) vt e'); cbn; auto.
      apply ren_cons; [apply I; left; reflexivity|exact IH].
    Qed.

    Lemma find_sub_map name subs : find_sub name (map_subs rho subs) = option_map (map_graph rho) (find_sub name subs).
    Proof.
      induction subs as [|[k g] t IH]; [reflexivity|].
      change (map_subs rho ((k, g) :: t)) with ((k, map_graph rho g) :: map_subs rho t).
      cbn. destruct (String.eqb k name); [reflexivity|exact IH].
    Qed.

    Lemma find_sub_incl name subs sg : find_sub name subs = Some sg -> incl (names_graph sg) (names_subs subs).
    Proof.
      induction subs as [|[k h] t IH]; cbn; [discriminate|].
      destruct (String.eqb k name).
      - intro H; inversion H; subst. intros x Hx. apply in_or_app. left. exact Hx.
      - intros H x Hx. apply in_or_app. right. exact (IH H x Hx).
    Qed.

    Definition ren_respects (ev ev' : evaluator) : Prop :=
      forall e e' g args, incl (names_graph g) N -> ren_rel e e' -> ev' e' (map_graph rho g) args = ev e g args.

    Lemma loop_iter_ren ev ev' e e' body : ren_respects ev ev' -> incl (names_graph body) N -> ren_rel e e' ->
      forall bounded k i c st, loop_iter ev' e' (map_graph rho body) bounded k i c st = loop_iter ev e body bounded k i c st.
    Proof.
      intros RR I R bounded k. induction k as [|k IH]; intros i c st; cbn; [reflexivity|].
      destruct (negb c); [reflexivity|].
      rewrite (RR e e' body _ I R).
      destruct (ev e body (of_nat i :: of_bool c :: st)) as [[|cv' st']|]; try reflexivity.
      destruct (Nat.eqb _ _); [|reflexivity]. destruct (truth cv'); [|reflexivity]. apply IH.
    Qed.

    Lemma incl_app_l {A} (a b c : list A) : incl (a ++ b) c -> incl a c.
    Proof. intros H x Hx. apply H. apply in_or_app. left. exact Hx. Qed.
    Lemma incl_app_r {A} (a b c : list A) : incl (a ++ b) c -> incl b c.
    Proof. intros H x Hx. apply H. apply in_or_app. right. exact Hx. Qed.

    Lemma eval_node_ren ev ev' e e' n : ren_respects ev ev' -> ren_rel e e' -> incl (names_node n) N ->
      match eval_node ev e n, eval_node ev' e' (map_node rho n) with
      | Some a, Some a' => ren_rel a a'
      | None, None => True
      | _, _ => False
      end.
    Proof.
      intros RR R I. destruct n as [dom op ins outs attrs subs].
      rewrite names_node_eq in I. pose proof (incl_app_l _ _ _ I) as Ii. apply incl_app_r in I.
      pose proof (incl_app_l _ _ _ I) as Io. apply incl_app_r in I. rename I into Is.
      rewrite map_node_eq. unfold Sem.eval_node.
      destruct (is_if dom op).
      - rewrite (ren_lookup_opts e e' ins R Ii).
        destruct (lookup_opts e ins) as [[|[c|] [|? ?]]|]; auto.
        destruct (truth c) as [b|]; auto.
        rewrite find_sub_map.
        destruct (find_sub _ subs) as [sg|] eqn:F; cbn [option_map]; auto.
        assert (Isg : incl (names_graph sg) N) by (intros x Hx; apply Is; exact (find_sub_incl _ _ _ F x Hx)).
        rewrite (RR e e' sg [] Isg R).
        destruct (ev e sg []) as [vs|]; auto. apply ren_bind; assumption.
      - destruct (is_loop dom op).
        + destruct ins as [|m [|c carried]]; cbn [map]; auto.
          rewrite find_sub_map.
          destruct (find_sub "body"%string subs) as [body|] eqn:F; cbn [option_map]; auto.
          assert (Ib : incl (names_graph body) N) by (intros x Hx; apply Is; exact (find_sub_incl _ _ _ F x Hx)).
          assert (Imc : incl (present [m; c]) N).
          { intros x Hx. apply Ii. destruct m, c; cbn in *; tauto. }
          assert (Icar : incl (present carried) N).
          { intros x Hx. apply Ii. destruct m, c; cbn; auto. }
          pose proof (ren_lookup_opts e e' [m; c] R Imc) as L. cbn [map] in L. rewrite L.
          rewrite (present_map rho carried), (ren_lookups e e' _ R Icar).
          destruct (lookup_opts e [m; c]) as [[|mv [|cv [|? ?]]]|]; auto.
          destruct (lookups e (present carried)) as [st0|]; auto.
          destruct (match mv with Some v => option_map Some (trip v) | None => Some None end) as [mt|]; auto.
          destruct (match cv with Some v => truth v | None => Some true end) as [c0|]; auto.
          destruct mt as [k|]; rewrite (loop_iter_ren ev ev' e e' body RR Ib R);
            match goal with |- context [loop_iter ev e body ?b ?k ?i ?c ?s] =>
              destruct (loop_iter ev e body b k i c s) end; auto; apply ren_bind; assumption.
        + rewrite (ren_lookup_opts e e' ins R Ii).
          destruct (lookup_opts e ins) as [vs|]; auto.
          destruct (sem dom op attrs vs) as [rs|]; auto. apply ren_bind; assumption.
    Qed.

    Lemma run_ren ev ev' ns : ren_respects ev ev' -> forall e e', ren_rel e e' -> incl (names_nodes ns) N ->
      match run ev e ns, run ev' e' (map_nodes rho ns) with
      | Some a, Some a' => ren_rel a a'
      | None, None => True
      | _, _ => False
      end.
    Proof.
      intros RR. induction ns as [|n t IH]; intros e e' R I.
      - cbn. exact R.
      - rewrite map_nodes_cons. cbn [Sem.run]. cbn [names_nodes] in I.
        pose proof (eval_node_ren ev ev' e e' n RR R (incl_app_l _ _ _ I)) as H.
        destruct (eval_node ev e n) as [a|], (eval_node ev' e' (map_node rho n)) as [a'|]; try contradiction; auto.
        apply IH; [exact H|exact (incl_app_r _ _ _ I)].
    Qed.

    Lemma eval_body_ren ev ev' : ren_respects ev ev' -> ren_respects (eval_body ev) (eval_body ev').
    Proof.
      intros RR e e' g args I R. destruct g as [gi gn ns go]. rewrite names_graph_eq in I.
      pose proof (incl_app_l _ _ _ I) as Ii. apply incl_app_r in I. apply incl_app_r in I.
      pose proof (incl_app_l _ _ _ I) as Io. apply incl_app_r in I.
      rewrite map_graph_eq. unfold Sem.eval_body. cbn [g_ins g_nodes g_outs].
      pose proof (ren_bind e e' gi args R Ii) as HB.
      destruct (bind gi args e) as [a|], (bind (map rho gi) args e') as [a'|]; try contradiction; auto.
      pose proof (run_ren ev ev' ns RR a a' HB I) as HR.
      destruct (run ev a ns) as [b|], (run ev' a' (map_nodes rho ns)) as [b'|]; try contradiction; auto.
      apply ren_lookups; assumption.
    Qed.

    Theorem eval_graph_ren F : ren_respects (eval_graph F) (eval_graph F).
    Proof.
      induction F as [|f IH]; [intros e e' g args _ _; reflexivity|].
      cbn [Sem.eval_graph]. apply eval_body_ren. exact IH.
    Qed.
  End Ren.
End L.
