(* Proofs about the control-flow reading of a trace (TraceCF.v): whenever the direct reading of a trace
   with If / Loop bodies and literal operands (promoted constants, CastLike) is defined, the graph
   GraphBuilder builds from the trace evaluates to it (`build_computes_trace_cf`). *)
From Coq Require Import String List Bool Arith ZArith Lia.
Require Import OV.Graph.Syntax OV.Graph.Sem OV.Graph.SemProofs OV.Graph.Wf.
Require Import OV.Builder.Strings OV.Builder.StringsProofs OV.Builder.Naming OV.Builder.NamingProofs.
Require Import OV.Builder.Trace OV.Builder.TraceProofs OV.Builder.TraceCF.
Import ListNotations.
Local Open Scope list_scope.

(* ------------------------------------------------------------------ induction over calls and bodies *)
Section CallInd.
  Variables (P : call -> Prop) (Q : sub -> Prop).
  Hypothesis HOp : forall st dom op args attrs subs outs,
    Forall (fun ks => Q (snd ks)) subs -> P (COp st dom op args attrs subs outs).
  Hypothesis HRaw : forall a b c, P (CRaw a b c).
  Hypothesis HSub : forall ins body rets decl, Forall P body -> Q (Sub ins body rets decl).

  Fixpoint call_ind2 (c : call) : P c :=
    match c with
    | COp st dom op args attrs subs outs =>
      HOp st dom op args attrs subs outs
          ((fix go (l : list (string * sub)) : Forall (fun ks => Q (snd ks)) l :=
              match l with
              | [] => Forall_nil _
              | ks :: r => Forall_cons ks (sub_ind2 (snd ks)) (go r)
              end) subs)
    | CRaw a b c => HRaw a b c
    end
  with sub_ind2 (sb : sub) : Q sb :=
    match sb with
    | Sub ins body rets decl =>
      HSub ins body rets decl
           ((fix go (l : list call) : Forall P l :=
               match l with
               | [] => Forall_nil _
               | c :: r => Forall_cons c (call_ind2 c) (go r)
               end) body)
    end.
End CallInd.

(* ------------------------------------------------------------------ the nested folds, unfolded once *)
Lemma nvals_call_eq : forall st dom op args attrs subs outs,
  nvals_call (COp st dom op args attrs subs outs) = nvals_subs subs + n_outs_of outs.
Proof. intros. reflexivity. Qed.

Lemma nvals_sub_eq : forall ins body rets decl,
  nvals_sub (Sub ins body rets decl) = List.length ins + nvals_calls body.
Proof. intros. reflexivity. Qed.

Fixpoint cf_subs (l : list (string * sub)) : bool :=
  match l with [] => true | (_, sb) :: r => cf_sub sb && cf_subs r end.

Lemma cf_call_eq : forall st dom op args attrs subs outs,
  cf_call (COp st dom op args attrs subs outs) =
  (is_if dom op || is_loop dom op || match subs with [] => true | _ => false end) && cf_subs subs.
Proof. intros. reflexivity. Qed.

Lemma cf_sub_eq : forall ins body rets decl, cf_sub (Sub ins body rets decl) = forallb cf_call body.
Proof. intros. reflexivity. Qed.

Fixpoint lits_subs (l : list (string * sub)) : list lit :=
  match l with [] => [] | (_, sb) :: r => lits_sub sb ++ lits_subs r end.

Lemma lits_call_eq : forall st dom op args attrs subs outs,
  lits_call (COp st dom op args attrs subs outs) = arg_lits args ++ lits_subs subs.
Proof. intros. reflexivity. Qed.

Lemma lits_sub_eq : forall ins body rets decl, lits_sub (Sub ins body rets decl) = lits_calls body.
Proof. intros. reflexivity. Qed.

Section BuildEq.
  Variable cf : bcfg.
  Variable rn : list (nat * string).

  Lemma build_sub_eq : forall ins body rets decl s,
    build_sub cf rn (Sub ins body rets decl) s =
    let '(s1, inames) := fresh_many rn s ins in
    let '(s2, nodes) := build_calls cf rn body s1 0 in
    (s2, Graph inames [] nodes (map (name_of s2) rets)).
  Proof. intros. reflexivity. Qed.

  Lemma build_call_eq : forall st dom op args attrs subs outs s local,
    build_call cf rn (COp st dom op args attrs subs outs) s local =
    let '(s1, sgs) := build_subs cf rn subs s in
    let '(s2, local2, ins, pre) := resolve cf st s1 local args in
    let c := cnt cf s2 local2 in
    let '(s3, onames) := fresh_many rn s2 (out_names st op c outs) in
    let s4 := bump s3 (node_name st op c) in
    (s4, S local2, pre ++ [Node dom op ins onames attrs sgs]).
  Proof. intros. reflexivity. Qed.
End BuildEq.
(* ------------------------------------------------------------------ the state only grows *)
Definition ext (s s' : bst) : Prop :=
  exists M D A, b_names s' = b_names s ++ M /\ b_cache s' = b_cache s ++ D /\ b_anon s' = b_anon s ++ A.

Lemma ext_refl : forall s, ext s s.
Proof. intro s. exists [], [], []. now rewrite !app_nil_r. Qed.

Lemma ext_trans : forall a b c, ext a b -> ext b c -> ext a c.
Proof.
  intros a b c (M & D & A & H1 & H2 & H3) (M' & D' & A' & G1 & G2 & G3).
  exists (M ++ M'), (D ++ D'), (A ++ A'). rewrite G1, G2, G3, H1, H2, H3. now rewrite !app_assoc.
Qed.

Section StateCF.
  Variable cf : bcfg.
  Variable rn : list (nat * string).

  Lemma fresh_many_spec : forall gens s s' ns, fresh_many rn s gens = (s', ns) ->
    b_names s' = b_names s ++ ns /\ List.length ns = List.length gens /\
    b_cache s' = b_cache s /\ b_anon s' = b_anon s /\ b_total s' = b_total s.
  Proof.
    induction gens as [|g r IH]; intros s s' ns H; cbn [fresh_many] in H.
    - inversion H; subst. rewrite app_nil_r. auto.
    - destruct (fresh rn s g) as [s1 n] eqn:Ef. destruct (fresh_many rn s1 r) as [s2 ns'] eqn:Em.
      inversion H; subst. unfold fresh in Ef. inversion Ef; subst. clear Ef.
      destruct (IH _ _ _ Em) as (A1 & A2 & A3 & A4 & A5). cbn in A1, A3, A4, A5.
      rewrite A1, A3, A4, A5. rewrite <- app_assoc. cbn. repeat split; auto.
  Qed.

  Lemma fresh_many_ext : forall gens s s' ns, fresh_many rn s gens = (s', ns) -> ext s s'.
  Proof.
    intros gens s s' ns H. destruct (fresh_many_spec _ _ _ _ H) as (A1 & _ & A3 & A4 & _).
    exists ns, [], []. rewrite A1, A3, A4, !app_nil_r. auto.
  Qed.

  Lemma promote_ext : forall s l s' n, promote s l = (s', n) -> b_names s' = b_names s /\ b_anon s' = b_anon s /\ ext s s'.
  Proof.
    intros s l s' n H. unfold promote in H.
    destruct (assoc_str (l_key l) (b_cache s)) as [[n0 l0]|].
    - inversion H; subst. repeat split; auto. apply ext_refl.
    - inversion H; subst. cbn. repeat split; auto. eexists [], [_], []. cbn. rewrite !app_nil_r. repeat split; reflexivity.
  Qed.

  Lemma resolve_ext : forall args st s local s' local' ins pre,
    resolve cf st s local args = (s', local', ins, pre) -> b_names s' = b_names s /\ ext s s'.
  Proof.
    induction args as [|a r IH]; intros st s local s' local' ins pre H.
    - cbn in H. inversion H; subst. split; auto. apply ext_refl.
    - destruct a as [id | l | l like | ]; cbn [resolve] in H.
      + destruct (resolve cf st s local r) as [[[s1 l1] ins1] pre1] eqn:Er. inversion H; subst. eauto.
      + destruct (promote s l) as [s0 n] eqn:Epr.
        destruct (resolve cf st s0 local r) as [[[s1 l1] ins1] pre1] eqn:Er. inversion H; subst.
        destruct (promote_ext _ _ _ _ Epr) as (P1 & _ & P3). destruct (IH _ _ _ _ _ _ _ Er) as [Q1 Q2].
        split; [congruence | eapply ext_trans; eauto].
      + destruct (promote s l) as [s0 n] eqn:Epr.
        match type of H with context [resolve cf st ?s3 (S local) r] => destruct (resolve cf st s3 (S local) r) as [[[s1 l1] ins1] pre1] eqn:Er end.
        inversion H; subst.
        destruct (promote_ext _ _ _ _ Epr) as (P1 & P2 & P3). destruct (IH _ _ _ _ _ _ _ Er) as [Q1 Q2].
        cbn in Q1. split; [congruence|].
        eapply ext_trans; [exact P3|]. eapply ext_trans; [|exact Q2].
        eexists [], [], [_]. cbn. rewrite !app_nil_r. repeat split; reflexivity.
      + destruct (resolve cf st s local r) as [[[s1 l1] ins1] pre1] eqn:Er. inversion H; subst. eauto.
  Qed.

  (* a call / a subgraph body appends exactly the values it creates *)
  Definition grows_call (c : call) : Prop := forall s local s' local' ns,
    build_call cf rn c s local = (s', local', ns) ->
    ext s s' /\ List.length (b_names s') = List.length (b_names s) + nvals_call c.
  Definition grows_sub (sb : sub) : Prop := forall s s' g,
    build_sub cf rn sb s = (s', g) ->
    ext s s' /\ List.length (b_names s') = List.length (b_names s) + nvals_sub sb.

  Lemma grows_calls : forall body, Forall grows_call body -> forall s local s' ns,
    build_calls cf rn body s local = (s', ns) ->
    ext s s' /\ List.length (b_names s') = List.length (b_names s) + nvals_calls body.
  Proof.
    induction 1 as [|c r Hc Hr IH]; intros s local s' ns H; cbn [build_calls] in H.
    - inversion H; subst. split; [apply ext_refl | cbn [nvals_calls nvals_subs]; lia].
    - destruct (build_call cf rn c s local) as [[s1 l1] ns1] eqn:Ec.
      destruct (build_calls cf rn r s1 l1) as [s2 ns2] eqn:Er. inversion H; subst.
      destruct (Hc _ _ _ _ _ Ec) as [E1 L1]. destruct (IH _ _ _ _ Er) as [E2 L2].
      split; [eapply ext_trans; eauto | cbn [nvals_calls]; lia].
  Qed.

  Lemma grows_subs : forall subs, Forall (fun ks => grows_sub (snd ks)) subs -> forall s s' gs,
    build_subs cf rn subs s = (s', gs) ->
    ext s s' /\ List.length (b_names s') = List.length (b_names s) + nvals_subs subs.
  Proof.
    induction 1 as [|[k sb] r Hc Hr IH]; intros s s' gs H; cbn [build_subs] in H.
    - inversion H; subst. split; [apply ext_refl | cbn [nvals_calls nvals_subs]; lia].
    - destruct (build_sub cf rn sb s) as [s1 g] eqn:Ec.
      destruct (build_subs cf rn r s1) as [s2 gs2] eqn:Er. inversion H; subst.
      destruct (Hc _ _ _ Ec) as [E1 L1]. destruct (IH _ _ _ Er) as [E2 L2].
      cbn [snd] in L1. split; [eapply ext_trans; eauto | cbn [nvals_subs]; lia].
  Qed.

  Lemma bump_ext : forall s n, ext s (bump s n).
  Proof. intros. exists [], [], []. cbn. now rewrite !app_nil_r. Qed.

  Lemma grows_all : (forall c, grows_call c) /\ (forall sb, grows_sub sb).
  Proof.
    assert (HC : forall c, grows_call c).
    { apply (call_ind2 grows_call grows_sub).
      - intros st dom op args attrs subs outs Hs s local s' local' ns H.
        rewrite build_call_eq in H. cbv zeta in H.
        destruct (build_subs cf rn subs s) as [s1 sgs] eqn:Es.
        destruct (resolve cf st s1 local args) as [[[s2 local2] ins] pre] eqn:Er.
        destruct (fresh_many rn s2 (out_names st op (cnt cf s2 local2) outs)) as [s3 onames] eqn:Ef.
        inversion H; subst. clear H.
        destruct (grows_subs _ Hs _ _ _ Es) as [E1 L1].
        destruct (resolve_ext _ _ _ _ _ _ _ _ Er) as [N2 E2].
        destruct (fresh_many_spec _ _ _ _ Ef) as (N3 & L3 & _).
        split.
        + eapply ext_trans; [exact E1|]. eapply ext_trans; [exact E2|].
          eapply ext_trans; [eapply fresh_many_ext; eauto | apply bump_ext].
        + cbn [bump b_names]. rewrite N3, app_length, N2, L1, L3, out_names_length, nvals_call_eq. lia.
      - intros a b c s local s' local' ns H. cbn [build_call] in H.
        destruct (fresh_many rn s c) as [s1 x] eqn:Ef. inversion H; subst.
        destruct (fresh_many_spec _ _ _ _ Ef) as (N3 & L3 & C3 & A3 & _).
        split.
        + exists x, [], []. cbn. rewrite N3, C3, A3, !app_nil_r. auto.
        + cbn. rewrite N3, app_length. lia.
      - intros ins body rets decl Hb s s' g H. rewrite build_sub_eq in H.
        destruct (fresh_many rn s ins) as [s1 inames] eqn:Ef.
        destruct (build_calls cf rn body s1 0) as [s2 nodes] eqn:Eb. inversion H; subst.
        destruct (fresh_many_spec _ _ _ _ Ef) as (N3 & L3 & _).
        destruct (grows_calls _ Hb _ _ _ _ Eb) as [E2 L2].
        split.
        + eapply ext_trans; [eapply fresh_many_ext; eauto | exact E2].
        + rewrite L2, N3, app_length, L3, nvals_sub_eq. lia. }
    split; [exact HC|].
    apply (sub_ind2 grows_call grows_sub).
    - intros. apply HC.
    - intros. apply HC.
    - intros ins body rets decl Hb s s' g H. rewrite build_sub_eq in H.
      destruct (fresh_many rn s ins) as [s1 inames] eqn:Ef.
      destruct (build_calls cf rn body s1 0) as [s2 nodes] eqn:Eb. inversion H; subst.
      destruct (fresh_many_spec _ _ _ _ Ef) as (N3 & L3 & _).
      destruct (grows_calls _ Hb _ _ _ _ Eb) as [E2 L2].
      split.
      + eapply ext_trans; [eapply fresh_many_ext; eauto | exact E2].
      + rewrite L2, N3, app_length, L3, nvals_sub_eq. lia.
  Qed.
End StateCF.
(* ------------------------------------------------------------------ the semantic argument *)
Section SemCF.
  Variable V : Type.
  Variable sem : string -> string -> list (string * attrv) -> list (option V) -> option (list V).
  Variable truth : V -> option bool.
  Variable trip : V -> option nat.
  Variable of_nat : nat -> V.
  Variable of_bool : bool -> V.
  Variable lim : nat.
  Variable lit_val : string -> V.
  Variable cf : bcfg.
  Variable rn : list (nat * string).
  (* what the finished build defines: names of the values with an id, CastLike outputs, constant cache *)
  Variable N : list string.
  Variable A : list string.
  Variable C : list (string * (string * lit)).
  Hypothesis Hnd : NoDup (N ++ A ++ cache_names C).

  Notation enode ev := (eval_node V sem truth trip of_nat of_bool lim ev).
  Notation runn ev := (run V sem truth trip of_nat of_bool lim ev).
  Notation vlook := (vlook V).
  Notation vbind := (vbind V).
  Notation cargs := (cargs V sem lit_val).
  Notation cok := (cache_ok V lit_val C).
  Notation lok := (lit_ok V lit_val C).

  Definition below (s : bst) : Prop :=
    exists M D A', N = b_names s ++ M /\ C = b_cache s ++ D /\ A = b_anon s ++ A'.

  Lemma below_ext : forall s s', ext s s' -> below s' -> below s.
  Proof.
    intros s s' (M & D & A0 & H1 & H2 & H3) (M' & D' & A' & G1 & G2 & G3).
    exists (M ++ M'), (D ++ D'), (A0 ++ A'). rewrite G1, G2, G3, H1, H2, H3. now rewrite !app_assoc.
  Qed.

  Lemma ndN : NoDup N. Proof. eapply NoDup_app_l; eauto. Qed.
  Lemma N_notA : forall x, In x N -> ~ In x A.
  Proof. intros x H H'. eapply (NoDup_app_disjoint _ _ _ Hnd x H). apply in_or_app. now left. Qed.
  Lemma N_notC : forall x, In x N -> ~ In x (cache_names C).
  Proof. intros x H H'. eapply (NoDup_app_disjoint _ _ _ Hnd x H). apply in_or_app. now right. Qed.
  Lemma A_notC : forall x, In x A -> ~ In x (cache_names C).
  Proof. intros x H H'. apply NoDup_app_r in Hnd. eapply (NoDup_app_disjoint _ _ _ Hnd x H). exact H'. Qed.
  Lemma ndA : NoDup A. Proof. apply NoDup_app_r in Hnd. eapply NoDup_app_l; eauto. Qed.

  Lemma name_of_below : forall s id, below s -> id < List.length (b_names s) ->
    name_of s id = nth id N "?undefined"%string.
  Proof. intros s id (M & _ & _ & H & _) Hlt. unfold name_of. rewrite H. now rewrite app_nth1. Qed.

  Lemma below_len : forall s, below s -> List.length (b_names s) <= List.length N.
  Proof. intros s (M & _ & _ & H & _). rewrite H, app_length. lia. Qed.

  (* values read so far are bound under their final names *)
  Definition inv (E : venv V) (e : env V) (nid : nat) : Prop :=
    forall id v, vlook E id = Some v -> id < nid /\ lookup e (nth id N "?undefined"%string) = Some v.

  Lemma inv_mono : forall E e n m, inv E e n -> n <= m -> inv E e m.
  Proof. intros E e n m H Hle id v Hv. destruct (H id v Hv). split; [lia|auto]. Qed.

  Lemma vlook_vbind : forall vs nid E id,
    vlook (vbind nid vs E) id =
    if (nid <=? id) && (id <? nid + List.length vs) then nth_error vs (id - nid) else vlook E id.
  Proof.
    induction vs as [|v vs IH]; intros nid E id; cbn [TraceCF.vbind TraceCF.vlook List.length].
    - replace (id <? nid + 0) with (id <? nid) by (f_equal; lia).
      destruct (nid <=? id) eqn:E1, (id <? nid) eqn:E2; cbn; auto.
      apply Nat.leb_le in E1. apply Nat.ltb_lt in E2. lia.
    - destruct (Nat.eqb id nid) eqn:E0.
      + apply Nat.eqb_eq in E0. subst id. rewrite Nat.leb_refl.
        replace (nid <? nid + S (List.length vs)) with true by (symmetry; apply Nat.ltb_lt; lia).
        rewrite Nat.sub_diag. reflexivity.
      + apply Nat.eqb_neq in E0. rewrite IH.
        destruct (S nid <=? id) eqn:E1.
        * apply Nat.leb_le in E1. replace (nid <=? id) with true by (symmetry; apply Nat.leb_le; lia).
          replace (id <? nid + S (List.length vs)) with (id <? S nid + List.length vs) by (f_equal; lia).
          destruct (id <? S nid + List.length vs); cbn [andb]; auto.
          replace (id - nid) with (S (id - S nid)) by lia. reflexivity.
        * apply Nat.leb_gt in E1. replace (nid <=? id) with false by (symmetry; apply Nat.leb_gt; lia).
          reflexivity.
  Qed.

  (* binding freshly created values *)
  Lemma inv_bind : forall E e nid k vs P names R,
    inv E e nid -> nid <= k -> N = P ++ names ++ R -> List.length P = k ->
    List.length names = List.length vs ->
    inv (vbind k vs E) (combine names vs ++ e) (k + List.length vs).
  Proof.
    intros E e nid k vs P names R Hi Hle HN HP Hl id v Hv.
    rewrite vlook_vbind in Hv.
    pose proof ndN as HndN. rewrite HN in HndN.
    destruct ((k <=? id) && (id <? k + List.length vs)) eqn:Eb.
    - apply andb_true_iff in Eb as [E1 E2]. apply Nat.leb_le in E1. apply Nat.ltb_lt in E2.
      split; [lia|]. rewrite HN, app_nth2 by lia. rewrite HP, app_nth1 by lia.
      eapply lookup_combine_nth; eauto.
      + apply NoDup_app_r in HndN. eapply NoDup_app_l; eauto.
      + apply nth_error_nth'. lia.
    - destruct (Hi id v Hv) as [Hlt Hlk]. split; [lia|].
      rewrite lookup_combine_notin; auto.
      rewrite HN, app_nth1 by lia. intro Hin.
      eapply (NoDup_app_disjoint _ _ _ HndN (nth id P "?undefined"%string)).
      + apply nth_In. lia.
      + apply in_or_app. now left.
  Qed.

  Lemma cok_bind : forall e names (vs : list V),
    cok e -> (forall x, In x names -> In x N \/ In x A) -> cok (combine names vs ++ e).
  Proof.
    intros e names vs Hc Hn k n l0 Hk. rewrite lookup_combine_notin; eauto.
    intro Hin. assert (HC : In n (cache_names C)).
    { apply assoc_str_In in Hk. unfold cache_names. apply in_map_iff. exists (k, (n, l0)). auto. }
    destruct (Hn n Hin) as [H|H]; [eapply N_notC | eapply A_notC]; eauto.
  Qed.

  Lemma cok_lookup : forall e k n l0 D0 C0, cok e -> C = C0 ++ D0 -> assoc_str k C0 = Some (n, l0) ->
    lookup e n = Some (lit_val (l_val l0)) /\ In n (cache_names C) /\ assoc_str k C = Some (n, l0).
  Proof.
    intros e k n l0 D0 C0 Hc HC Hk. assert (Hk' : assoc_str k C = Some (n, l0)) by (rewrite HC; now apply assoc_str_app).
    split; [eapply Hc; eauto|]. split; auto.
    apply assoc_str_In in Hk'. unfold cache_names. apply in_map_iff. exists (k, (n, l0)). auto.
  Qed.

  (* operands: the CastLike nodes run, then the operand names denote the operand values *)
  Lemma resolve_sem : forall args st s local s' local' ins pre,
    resolve cf st s local args = (s', local', ins, pre) -> below s' ->
    forall ev E e nid vs, inv E e nid -> nid <= List.length (b_names s) -> cok e ->
      Forall lok (arg_lits args) -> cargs E args = Some vs ->
      exists e1 An, runn ev e pre = Some e1 /\ lookup_opts e1 ins = Some vs /\
        b_anon s' = b_anon s ++ An /\ (forall x, ~ In x An -> lookup e1 x = lookup e x).
  Proof.
    induction args as [|a r IH]; intros st s local s' local' ins pre Hr Hb ev E e nid vs Hi Hle Hc Hl Ha.
    - cbn in Hr. inversion Hr; subst. cbn in Ha. inversion Ha; subst.
      exists e, []. cbn. rewrite app_nil_r. auto.
    - destruct a as [id | l | l like | ]; cbn [resolve] in Hr; cbn [TraceCF.cargs] in Ha.
      + (* a value *)
        destruct (resolve cf st s local r) as [[[s1 l1] ins1] pre1] eqn:Er. inversion Hr; subst. clear Hr.
        destruct (vlook E id) as [v|] eqn:Ev; [|discriminate].
        destruct (cargs E r) as [vs'|] eqn:Ea; [|discriminate]. inversion Ha; subst. clear Ha.
        destruct (IH _ _ _ _ _ _ _ Er Hb ev E e nid vs' Hi Hle Hc Hl Ea) as (e1 & An & R1 & R2 & R3 & R4).
        exists e1, An. repeat split; auto. cbn [lookup_opts].
        destruct (Hi id v Ev) as [Hlt Hlk].
        destruct (resolve_ext cf _ _ _ _ _ _ _ _ Er) as [Nn Ex].
        assert (Hbs : below s) by (eapply below_ext; eauto).
        rewrite (name_of_below s id Hbs) by lia.
        rewrite R4, Hlk, R2; auto.
        intro Hin. eapply (N_notA (nth id N "?undefined"%string)).
        * apply nth_In. pose proof (below_len s Hbs). lia.
        * destruct Hb as (_ & _ & A' & _ & _ & HA). rewrite HA, R3. apply in_or_app. left. apply in_or_app. now right.
      + (* a promoted constant *)
        destruct (promote s l) as [s0 n] eqn:Epr.
        destruct (resolve cf st s0 local r) as [[[s1 l1] ins1] pre1] eqn:Er. inversion Hr; subst. clear Hr.
        destruct (cargs E r) as [vs'|] eqn:Ea; [|discriminate]. inversion Ha; subst. clear Ha.
        cbn [arg_lits flat_map] in Hl. change (flat_map _ r) with (arg_lits r) in Hl.
        inversion Hl as [|? ? Hl1 Hl2]; subst.
        destruct (promote_spec s l s0 n Epr) as (Q1 & _ & _ & _ & [l0 Q5]).
        destruct (promote_ext _ _ _ _ Epr) as (_ & Q2 & _).
        assert (Hle0 : nid <= List.length (b_names s0)) by (rewrite Q1; exact Hle).
        destruct (IH _ _ _ _ _ _ _ Er Hb ev E e nid vs' Hi Hle0 Hc Hl2 Ea) as (e1 & An & R1 & R2 & R3 & R4).
        exists e1, An. repeat split; auto; [|congruence]. cbn [lookup_opts].
        destruct (resolve_ext cf _ _ _ _ _ _ _ _ Er) as [_ (M1 & D1 & A1 & _ & X2 & _)].
        destruct Hb as (M' & D' & A' & HN & HC & HA).
        assert (HC0 : C = b_cache s0 ++ (D1 ++ D')) by (rewrite HC, X2; now rewrite app_assoc).
        destruct (cok_lookup e _ _ _ _ _ Hc HC0 Q5) as (K1 & K2 & K3).
        rewrite R4, K1, (Hl1 _ _ K3), R2; auto.
        intro Hin. eapply (A_notC n); eauto. rewrite HA, R3. apply in_or_app. left. apply in_or_app. now right.
      + (* CastLike(constant, like-value) *)
        destruct (promote s l) as [s0 n] eqn:Epr.
        cbv zeta in Hr.
        remember (note_anon (bump s0 (node_name st "CastLike" (cnt cf s0 local)))
                            (qualify_value st (base_name "CastLike" (cnt cf s0 local)))) as s3v eqn:Es3.
        destruct (resolve cf st s3v (S local) r) as [[[s1 l1] ins1] pre1] eqn:Er.
        inversion Hr; subst s' local' ins pre. clear Hr.
        destruct (vlook E like) as [lv|] eqn:Ev; [|discriminate].
        destruct (sem "" "CastLike" [] [Some (lit_val (l_val l)); Some lv]) as [[|cv [|? ?]]|] eqn:Es; try discriminate.
        destruct (cargs E r) as [vs'|] eqn:Ea; [|discriminate]. inversion Ha; subst vs. clear Ha.
        cbn [arg_lits flat_map] in Hl. change (flat_map _ r) with (arg_lits r) in Hl.
        inversion Hl as [|x0 l00 Hl1 Hl2]; subst x0 l00.
        destruct (promote_spec s l s0 n Epr) as (Q1 & _ & _ & _ & [l0 Q5]).
        destruct (promote_ext _ _ _ _ Epr) as (_ & Q2 & _).
        set (o := qualify_value st (base_name "CastLike" (cnt cf s0 local))) in *.
        assert (N3 : b_names s3v = b_names s) by (rewrite Es3; cbn; exact Q1).
        assert (A3 : b_anon s3v = b_anon s ++ [o]) by (rewrite Es3; cbn; now rewrite Q2).
        assert (C3 : b_cache s3v = b_cache s0) by (rewrite Es3; reflexivity).
        destruct (resolve_ext cf _ _ _ _ _ _ _ _ Er) as [Nn (M1 & D1 & A1 & _ & X2 & X3)].
        pose proof Hb as (M' & D' & A' & HN & HC & HA).
        assert (HNs : N = b_names s ++ M') by (rewrite HN, Nn, N3; reflexivity).
        assert (HC0 : C = b_cache s0 ++ (D1 ++ D')) by (rewrite HC, X2, C3; now rewrite app_assoc).
        assert (HA0 : A = ((b_anon s ++ [o]) ++ A1) ++ A') by (rewrite HA, X3, A3; reflexivity).
        assert (HoA : In o A).
        { rewrite HA0. apply in_or_app. left. apply in_or_app. left. apply in_or_app. right. now left. }
        destruct (Hi like lv Ev) as [Hlt Hlk].
        assert (Hname : name_of s like = nth like N "?undefined"%string).
        { unfold name_of. rewrite HNs. now rewrite app_nth1 by lia. }
        destruct (cok_lookup e _ _ _ _ _ Hc HC0 Q5) as (K1 & K2 & K3).
        set (nd := Node "" "CastLike" [Some n; Some (name_of s like)] [o] [] []).
        assert (Hev : enode ev e nd = Some ((o, cv) :: e)).
        { unfold nd. rewrite eval_plain_node by reflexivity. cbn [lookup_opts].
          rewrite K1, Hname, Hlk. cbn [option_map]. rewrite (Hl1 _ _ K3), Es. reflexivity. }
        assert (HoN : forall x, In x N -> x <> o).
        { intros x Hx ->. eapply N_notA; eauto. }
        assert (Hi' : inv E ((o, cv) :: e) nid).
        { intros id v Hv. destruct (Hi id v Hv) as [H1 H2]. split; auto. cbn [lookup].
          destruct (String.eqb (nth id N "?undefined"%string) o) eqn:Eq; auto.
          apply String.eqb_eq in Eq. exfalso. eapply (HoN _ _ Eq). Unshelve.
          apply nth_In. rewrite HNs, app_length. lia. }
        assert (Hc' : cok ((o, cv) :: e)).
        { intros k' n' l' Hk'. cbn [lookup]. destruct (String.eqb n' o) eqn:Eq; [|eapply Hc; eauto].
          apply String.eqb_eq in Eq. subst n'. exfalso. eapply (A_notC o HoA).
          apply assoc_str_In in Hk'. unfold cache_names. apply in_map_iff. exists (k', (o, l')). auto. }
        assert (Hle3 : nid <= List.length (b_names s3v)) by (rewrite N3; exact Hle).
        destruct (IH _ _ _ _ _ _ _ Er Hb ev E _ nid vs' Hi' Hle3 Hc' Hl2 Ea) as (e1 & An & R1 & R2 & R3 & R4).
        assert (HoAn : ~ In o An).
        { pose proof ndA as HndA. rewrite HA0 in HndA. apply NoDup_app_l in HndA.
          assert (A1 = An) by (rewrite X3 in R3; eapply app_inv_head; eauto). subst A1.
          eapply (NoDup_app_disjoint _ _ _ HndA o); auto. apply in_or_app. right. now left. }
        exists e1, ([o] ++ An). repeat split.
        * change (nd :: pre1) with ([nd] ++ pre1). cbn [app run]. rewrite Hev. exact R1.
        * cbn [lookup_opts]. rewrite (R4 o HoAn). cbn [lookup]. rewrite String.eqb_refl, R2. reflexivity.
        * rewrite R3, A3. now rewrite <- app_assoc.
        * intros x Hx. rewrite R4 by (intro; apply Hx; apply in_or_app; now right).
          cbn [lookup]. destruct (String.eqb x o) eqn:Eq; auto.
          apply String.eqb_eq in Eq. subst x. exfalso. apply Hx. now left.
      + (* omitted *)
        destruct (resolve cf st s local r) as [[[s1 l1] ins1] pre1] eqn:Er. inversion Hr; subst. clear Hr.
        destruct (cargs E r) as [vs'|] eqn:Ea; [|discriminate]. inversion Ha; subst. clear Ha.
        destruct (IH _ _ _ _ _ _ _ Er Hb ev E e nid vs' Hi Hle Hc Hl Ea) as (e1 & An & R1 & R2 & R3 & R4).
        exists e1, An. repeat split; auto. cbn [lookup_opts]. rewrite R2. reflexivity.
  Qed.

  Notation creplay_call rb := (creplay_call V sem truth trip of_nat of_bool lim lit_val rb).
  Notation creplay_calls rb := (creplay_calls V sem truth trip of_nat of_bool lim lit_val rb).
  Notation rloop rb := (rloop V truth of_nat of_bool rb).

  (* the reading of a body agrees with the evaluation of the subgraph built from it *)
  Definition sub_rel (ev : env V -> graph -> list V -> option (list V))
                     (rb : venv V -> nat -> sub -> list V -> option (list V)) : Prop :=
    forall sb s0 s1 g E e args r,
      build_sub cf rn sb s0 = (s1, g) -> below s1 -> inv E e (List.length (b_names s0)) -> cok e ->
      Forall lok (lits_sub sb) -> cf_sub sb = true ->
      rb E (List.length (b_names s0)) sb args = Some r -> ev e g args = Some r.

  Lemma subs_find : forall name subs s s1 sgs k sb,
    build_subs cf rn subs s = (s1, sgs) ->
    sub_at name (List.length (b_names s)) subs = Some (k, sb) ->
    exists s0 s0' g, build_sub cf rn sb s0 = (s0', g) /\ find_sub name sgs = Some g /\
      k = List.length (b_names s0) /\ ext s s0 /\ ext s0' s1 /\
      (cf_subs subs = true -> cf_sub sb = true) /\
      (Forall lok (lits_subs subs) -> Forall lok (lits_sub sb)).
  Proof.
    induction subs as [|[k0 sb0] r IH]; intros s s1 sgs k sb Hb Hs; cbn [sub_at] in Hs; [discriminate|].
    cbn [build_subs] in Hb.
    destruct (build_sub cf rn sb0 s) as [sa g0] eqn:E0.
    destruct (build_subs cf rn r sa) as [sb' gs] eqn:E1. inversion Hb; subst. clear Hb.
    destruct (proj2 (grows_all cf rn) sb0 _ _ _ E0) as [X0 L0].
    assert (X1 : ext sa s1).
    { eapply (grows_subs cf rn r); eauto. apply Forall_forall. intros. apply (proj2 (grows_all cf rn)). }
    cbn [find_sub]. destruct (String.eqb k0 name) eqn:Ek.
    - inversion Hs; subst. exists s, sa, g0. repeat split; auto.
      + apply ext_refl.
      + cbn [cf_subs]. intro H. now apply andb_true_iff in H as [? _].
      + cbn [lits_subs]. intro H. now apply Forall_app in H as [? _].
    - rewrite <- L0 in Hs. destruct (IH _ _ _ _ _ E1 Hs) as (s0 & s0' & g & B1 & B2 & B3 & B4 & B5 & B6 & B7).
      exists s0, s0', g. repeat split; auto.
      + eapply ext_trans; eauto.
      + cbn [cf_subs]. intro H. apply andb_true_iff in H as [_ ?]. auto.
      + cbn [lits_subs]. intro H. apply Forall_app in H as [_ ?]. auto.
  Qed.

  Lemma rloop_sound : forall ev rb E k0 body e g,
    (forall args r, rb E k0 body args = Some r -> ev e g args = Some r) ->
    forall k bounded i c st r,
      rloop rb E k0 body bounded k i c st = Some r ->
      loop_iter V truth of_nat of_bool ev e g bounded k i c st = Some r.
  Proof.
    intros ev rb E k0 body e g H. induction k as [|k IH]; intros bounded i c st r Hr; cbn [TraceCF.rloop loop_iter] in *.
    - exact Hr.
    - destruct (negb c); [exact Hr|].
      destruct (rb E k0 body (of_nat i :: of_bool c :: st)) as [[|cv' st']|] eqn:Eb; try discriminate.
      rewrite (H _ _ Eb). destruct (Nat.eqb (List.length st') (List.length st)); [|discriminate].
      destruct (truth cv'); [|discriminate]. auto.
  Qed.

  Lemma lookup_opts_present : forall (e : env V) ins vs,
    lookup_opts e ins = Some vs -> lookups e (present ins) = Some (somes V vs).
  Proof.
    induction ins as [|[x|] r IH]; intros vs H; cbn [lookup_opts] in H.
    - inversion H; subst. reflexivity.
    - destruct (lookup e x) as [v|] eqn:El; [|discriminate].
      destruct (lookup_opts e r) as [vs'|] eqn:Er; [|discriminate]. inversion H; subst.
      cbn [present lookups TraceCF.somes]. rewrite El, (IH _ eq_refl). reflexivity.
    - destruct (lookup_opts e r) as [vs'|] eqn:Er; [|discriminate]. inversion H; subst.
      cbn [present TraceCF.somes]. auto.
  Qed.

  Lemma lookup_opts_two : forall (e : env V) ins mv cv rest,
    lookup_opts e ins = Some (mv :: cv :: rest) ->
    exists m c carried, ins = m :: c :: carried /\ lookup_opts e [m; c] = Some [mv; cv] /\
      lookup_opts e carried = Some rest.
  Proof.
    intros e ins mv cv rest H.
    destruct ins as [|m [|c carried]].
    - discriminate.
    - cbn [lookup_opts] in H. destruct m as [x|]; [destruct (lookup e x)|]; discriminate.
    - exists m, c, carried. split; auto. cbn [lookup_opts] in *.
      destruct m as [x|]; destruct c as [y|];
        repeat match type of H with context [lookup e ?z] => destruct (lookup e z) end; try discriminate;
        destruct (lookup_opts e carried) as [vs'|]; try discriminate; cbn in *; inversion H; subst; auto.
  Qed.

  (* one call *)
  Lemma call_sem : forall ev rb, sub_rel ev rb ->
    forall c s local s' local' ns E e E' nid',
      build_call cf rn c s local = (s', local', ns) -> below s' -> cf_call c = true ->
      Forall lok (lits_call c) -> inv E e (List.length (b_names s)) -> cok e ->
      creplay_call rb E (List.length (b_names s)) c = Some (E', nid') ->
      exists e', runn ev e ns = Some e' /\ inv E' e' nid' /\ cok e' /\ nid' = List.length (b_names s').
  Proof.
    intros ev rb Hrel c s local s' local' ns E e E' nid' Hb Hbel Hcf Hl Hi Hc Hr.
    destruct c as [st dom op args attrs subs outs|]; [|discriminate].
    rewrite build_call_eq in Hb. cbv zeta in Hb.
    destruct (build_subs cf rn subs s) as [s1 sgs] eqn:Es.
    destruct (resolve cf st s1 local args) as [[[s2 local2] ins] pre] eqn:Er.
    destruct (fresh_many rn s2 (out_names st op (cnt cf s2 local2) outs)) as [s3 onames] eqn:Ef.
    inversion Hb; subst s' local' ns. clear Hb.
    rewrite cf_call_eq in Hcf. apply andb_true_iff in Hcf as [Hkind Hcfs].
    rewrite lits_call_eq in Hl. apply Forall_app in Hl as [Hla Hls].
    assert (Hg : Forall (fun ks => grows_sub cf rn (snd ks)) subs).
    { apply Forall_forall. intros. apply (proj2 (grows_all cf rn)). }
    destruct (grows_subs cf rn _ Hg _ _ _ Es) as [X1 L1].
    destruct (resolve_ext cf _ _ _ _ _ _ _ _ Er) as [N2 X2].
    destruct (fresh_many_spec rn _ _ _ _ Ef) as (N3 & L3 & C3 & A3 & _).
    assert (X3 : ext s2 s3) by (eapply fresh_many_ext; eauto).
    assert (B3 : below s3) by (eapply below_ext; [apply bump_ext|exact Hbel]).
    assert (B2 : below s2) by (eapply below_ext; eauto).
    assert (B1 : below s1) by (eapply below_ext; eauto).
    cbn [TraceCF.creplay_call] in Hr.
    destruct (cargs E args) as [vs|] eqn:Ea; [|discriminate].
    assert (Hle : List.length (b_names s) <= List.length (b_names s1)) by lia.
    destruct (resolve_sem _ _ _ _ _ _ _ _ Er B2 ev E e _ vs Hi Hle Hc Hla Ea) as (e1 & An & R1 & R2 & R3 & R4).
    (* the environment after the CastLike nodes still satisfies the invariants *)
    assert (HAn : forall x, In x An -> In x A).
    { intros x Hx. destruct B2 as (_ & _ & A' & _ & _ & HA). rewrite HA, R3. apply in_or_app. left. apply in_or_app. now right. }
    assert (Hi1 : inv E e1 (List.length (b_names s))).
    { intros id v Hv. destruct (Hi id v Hv) as [H1 H2]. split; auto. rewrite R4; auto.
      intro Hin. eapply (N_notA (nth id N "?undefined"%string)); eauto.
      apply nth_In. pose proof (below_len s1 B1). lia. }
    assert (Hc1 : cok e1).
    { intros k n l0 Hk. rewrite R4; [eapply Hc; eauto|]. intro Hin. eapply (A_notC n); eauto.
      apply assoc_str_In in Hk. unfold cache_names. apply in_map_iff. exists (k, (n, l0)). auto. }
    set (nid_out := List.length (b_names s) + nvals_subs subs) in *.
    set (n := n_outs_of outs) in *.
    set (node := Node dom op ins onames attrs sgs).
    assert (Hlen_on : List.length onames = n) by (rewrite L3; apply out_names_length).
    (* what the node evaluates to *)
    assert (Hnode : exists rs, List.length rs = n /\ E' = vbind nid_out rs E /\ nid' = nid_out + n /\
                               enode ev e1 node = bind onames rs e1).
    { unfold node, eval_node.
      destruct (is_if dom op) eqn:Eif.
      - (* If *)
        rewrite R2.
        destruct vs as [|[cv|] [|? ?]]; try discriminate.
        destruct (truth cv) as [b|]; [|discriminate].
        destruct (sub_at (if b then "then_branch" else "else_branch")%string (List.length (b_names s)) subs) as [[k sb]|] eqn:Esa; [|discriminate].
        destruct (rb E k sb []) as [rs|] eqn:Erb; [|discriminate].
        destruct (Nat.eqb (List.length rs) n) eqn:En; [|discriminate]. inversion Hr; subst E' nid'.
        destruct (subs_find _ _ _ _ _ _ _ Es Esa) as (s0 & s0' & g & G1 & G2 & G3 & G4 & G5 & G6 & G7).
        rewrite G2. subst k.
        assert (Hev : ev e1 g [] = Some rs).
        { eapply (Hrel sb s0 s0' g E e1 [] rs G1); eauto.
          - eapply below_ext; eauto.
          - eapply inv_mono; eauto. destruct G4 as (M & _ & _ & HM & _). rewrite HM, app_length. lia. }
        rewrite Hev. exists rs. apply Nat.eqb_eq in En. auto.
      - destruct (is_loop dom op) eqn:Eloop.
        + (* Loop *)
          destruct vs as [|mv [|cv rest]]; try discriminate.
          destruct (sub_at "body" (List.length (b_names s)) subs) as [[k body]|] eqn:Esa; [|discriminate].
          destruct (lookup_opts_two _ _ _ _ _ R2) as (m & c & carried & I1 & I2 & I3). rewrite I1.
          destruct (subs_find _ _ _ _ _ _ _ Es Esa) as (s0 & s0' & g & G1 & G2 & G3 & G4 & G5 & G6 & G7).
          rewrite G2, I2, (lookup_opts_present _ _ _ I3). subst k.
          assert (Hev : forall args r, rb E (List.length (b_names s0)) body args = Some r -> ev e1 g args = Some r).
          { intros args0 r0 H0. eapply (Hrel body s0 s0' g E e1 args0 r0 G1); eauto.
            - eapply below_ext; eauto.
            - eapply inv_mono; eauto. destruct G4 as (M & _ & _ & HM & _). rewrite HM, app_length. lia. }
          destruct (match mv with Some v => option_map Some (trip v) | None => Some None end) as [mt|]; [|discriminate].
          destruct (match cv with Some v => truth v | None => Some true end) as [c0|]; [|discriminate].
          destruct mt as [kk|].
          * destruct (rloop rb E (List.length (b_names s0)) body true kk 0 c0 (somes V rest)) as [stf|] eqn:El; [|discriminate].
            rewrite (rloop_sound ev rb E _ body e1 g Hev _ _ _ _ _ _ El).
            destruct (Nat.eqb (List.length stf) n) eqn:En; [|discriminate]. inversion Hr; subst E' nid'.
            exists stf. apply Nat.eqb_eq in En. auto.
          * destruct (rloop rb E (List.length (b_names s0)) body false lim 0 c0 (somes V rest)) as [stf|] eqn:El; [|discriminate].
            rewrite (rloop_sound ev rb E _ body e1 g Hev _ _ _ _ _ _ El).
            destruct (Nat.eqb (List.length stf) n) eqn:En; [|discriminate]. inversion Hr; subst E' nid'.
            exists stf. apply Nat.eqb_eq in En. auto.
        + (* an ordinary operator or a function call *)
          destruct subs as [|? ?]; [|discriminate].
          rewrite R2. destruct (sem dom op attrs vs) as [rs|]; [|discriminate].
          destruct (Nat.eqb (List.length rs) n) eqn:En; [|discriminate]. inversion Hr; subst E' nid'.
          exists rs. apply Nat.eqb_eq in En. auto. }
    destruct Hnode as (rs & Hrs & HE & Hnid & Hnode). subst E' nid'.
    rewrite (run_app V sem truth trip of_nat of_bool lim), R1. cbn [run]. rewrite Hnode, bind_spec.
    assert (Hq : Nat.eqb (@List.length vname onames) (List.length rs) = true) by (apply Nat.eqb_eq; unfold vname; lia).
    rewrite Hq.
    exists (combine onames rs ++ e1).
    destruct B3 as (M3 & D3 & A3' & HN3 & HC3 & HA3).
    assert (Hlen2 : List.length (b_names s2) = nid_out) by (rewrite N2; exact L1).
    split; [reflexivity|]. split; [|split].
    - rewrite <- Hrs. eapply (inv_bind E e1 (List.length (b_names s)) nid_out rs (b_names s2) onames M3); eauto.
      + unfold nid_out. lia.
      + rewrite HN3, N3. now rewrite <- app_assoc.
      + lia.
    - apply cok_bind; auto. intros x Hx. left. rewrite HN3, N3. apply in_or_app. left. apply in_or_app. now right.
    - cbn [bump b_names]. rewrite N3, app_length. lia.
  Qed.


  (* a list of calls *)
  Lemma calls_sem : forall ev rb, sub_rel ev rb ->
    forall tr s local s' ns E e E' nid',
      build_calls cf rn tr s local = (s', ns) -> below s' -> forallb cf_call tr = true ->
      Forall lok (lits_calls tr) -> inv E e (List.length (b_names s)) -> cok e ->
      creplay_calls rb E (List.length (b_names s)) tr = Some (E', nid') ->
      exists e', runn ev e ns = Some e' /\ inv E' e' nid' /\ cok e' /\ nid' = List.length (b_names s').
  Proof.
    intros ev rb Hrel. induction tr as [|c r IH]; intros s local s' ns E e E' nid' Hb Hbel Hcf Hl Hi Hc Hr.
    - cbn in Hb, Hr. inversion Hb; subst. inversion Hr; subst. exists e. cbn. auto.
    - cbn [build_calls] in Hb.
      destruct (build_call cf rn c s local) as [[s1 l1] ns1] eqn:Ec.
      destruct (build_calls cf rn r s1 l1) as [s2 ns2] eqn:Er. inversion Hb; subst s' ns. clear Hb.
      cbn [forallb] in Hcf. apply andb_true_iff in Hcf as [Hcf1 Hcf2].
      unfold lits_calls in Hl. cbn [flat_map] in Hl. apply Forall_app in Hl as [Hl1 Hl2].
      cbn [TraceCF.creplay_calls] in Hr.
      destruct (creplay_call rb E (List.length (b_names s)) c) as [[E1 n1]|] eqn:Erc; [|discriminate].
      assert (X : ext s1 s2).
      { eapply (grows_calls cf rn r); eauto. apply Forall_forall. intros. apply (proj1 (grows_all cf rn)). }
      assert (B1 : below s1) by (eapply below_ext; eauto).
      destruct (call_sem ev rb Hrel c s local s1 l1 ns1 E e E1 n1 Ec B1 Hcf1 Hl1 Hi Hc Erc) as (e1 & R1 & R2 & R3 & R4).
      subst n1.
      destruct (IH s1 l1 s2 ns2 E1 e1 E' nid' Er Hbel Hcf2 Hl2 R2 R3 Hr) as (e2 & S1 & S2 & S3 & S4).
      exists e2. rewrite (run_app V sem truth trip of_nat of_bool lim), R1. auto.
  Qed.

  Lemma vlooks_lookups : forall E e nid s ids r,
    inv E e nid -> nid <= List.length (b_names s) -> below s -> vlooks V E ids = Some r ->
    lookups e (map (name_of s) ids) = Some r.
  Proof.
    intros E e nid s ids r Hi Hle Hb. revert r. induction ids as [|i t IH]; intros r H; cbn [TraceCF.vlooks] in H.
    - inversion H; subst. reflexivity.
    - destruct (vlook E i) as [v|] eqn:Ev; [|discriminate].
      destruct (vlooks V E t) as [vs|] eqn:Et; [|discriminate]. inversion H; subst.
      destruct (Hi i v Ev) as [H1 H2]. cbn [map lookups].
      rewrite (name_of_below s i Hb) by lia. rewrite H2, (IH _ eq_refl). reflexivity.
  Qed.

  (* bodies, at every nesting depth the fuel allows *)
  Lemma sub_sem : forall fuel,
    sub_rel (eval_graph V sem truth trip of_nat of_bool lim fuel)
            (creplay_body V sem truth trip of_nat of_bool lim lit_val fuel).
  Proof.
    induction fuel as [|f IH]; intros sb s0 s1 g E e args r Hb Hbel Hi Hc Hl Hcf Hr.
    - discriminate.
    - destruct sb as [ins body rets decl].
      rewrite build_sub_eq in Hb.
      destruct (fresh_many rn s0 ins) as [sa inames] eqn:Ef.
      destruct (build_calls cf rn body sa 0) as [sb' nodes] eqn:Eb. inversion Hb; subst s1 g. clear Hb.
      rewrite cf_sub_eq in Hcf. rewrite lits_sub_eq in Hl.
      cbn [TraceCF.creplay_body TraceCF.creplay_sub] in Hr.
      destruct (Nat.eqb (List.length ins) (List.length args)) eqn:El; [|discriminate].
      apply Nat.eqb_eq in El.
      destruct (fresh_many_spec rn _ _ _ _ Ef) as (Na & La & Ca & Aa & _).
      assert (Hna : List.length (b_names sa) = List.length (b_names s0) + List.length ins)
        by (rewrite Na, app_length; lia).
      rewrite <- Hna in Hr.
      destruct (creplay_calls (creplay_body V sem truth trip of_nat of_bool lim lit_val f)
                              (vbind (List.length (b_names s0)) args E) (List.length (b_names sa)) body)
        as [[E2 n2]|] eqn:Ec; [|discriminate].
      cbn [eval_graph]. unfold eval_body. cbn [g_ins g_nodes g_outs].
      rewrite bind_spec.
      assert (Hq : Nat.eqb (@List.length vname inames) (List.length args) = true)
        by (apply Nat.eqb_eq; unfold vname; lia).
      rewrite Hq.
      assert (X : ext sa sb').
      { eapply (grows_calls cf rn body); eauto. apply Forall_forall. intros. apply (proj1 (grows_all cf rn)). }
      assert (Ba : below sa) by (eapply below_ext; eauto).
      pose proof Ba as (Ma & Da & Aa' & HNa & HCa & HAa).
      assert (Hi0 : inv (vbind (List.length (b_names s0)) args E) (combine inames args ++ e) (List.length (b_names sa))).
      { rewrite Hna, El.
        eapply (inv_bind E e (List.length (b_names s0)) (List.length (b_names s0)) args (b_names s0) inames Ma); eauto.
        - rewrite HNa, Na. now rewrite <- app_assoc.
        - lia. }
      assert (Hc0 : cok (combine inames args ++ e)).
      { apply cok_bind; auto. intros x Hx. left. rewrite HNa, Na. apply in_or_app. left. apply in_or_app. now right. }
      destruct (calls_sem _ _ IH body sa 0 sb' nodes _ _ E2 n2 Eb Hbel Hcf Hl Hi0 Hc0 Ec) as (e' & R1 & R2 & R3 & R4).
      unfold vname in *. rewrite R1.
      eapply vlooks_lookups; eauto. lia.
  Qed.
End SemCF.

(* build_computes_trace_cf_partial: for every trace of operator calls, function calls, If and Loop calls whose
   bodies were built through builder.subgraph (any nesting depth, bodies referring to values of the
   enclosing trace functions), with literal operands at every level (promoted constants through the
   constant cache of the root builder, CastLike next to a value of unknown dtype), default or explicit or
   declared output names, any scopes: whenever the direct reading of the trace is defined, evaluating
   the built graph gives exactly that result.
   Hypotheses: the names the build defines (values, CastLike outputs, initializers) are pairwise
   distinct; literals that share a cache key denote the same tensor. *)
Theorem build_computes_trace_cf_partial : forall V sem truth trip of_nat of_bool lim lit_val cf fuel ins tr outs args r,
  cf_trace tr = true ->
  let sf := fst (build_state cf ins tr) in
  NoDup (all_defined sf) ->
  Forall (lit_ok V lit_val (b_cache sf)) (lits_calls tr) ->
  List.length args = List.length ins ->
  creplay V sem truth trip of_nat of_bool lim lit_val fuel tr args outs = Some r ->
  eval_graph V sem truth trip of_nat of_bool lim (S fuel) (init_env V lit_val (b_cache sf)) (build cf ins tr outs) args = Some r.
Proof.
  intros V sem truth trip of_nat of_bool lim lit_val cf fuel ins tr outs args r Hcf sf Hnd Hl Hlen Hr.
  unfold build. unfold sf in *. unfold build_state in *.
  set (rn := renames_calls tr) in *.
  destruct (build_calls cf rn tr (init_state ins) 0) as [s nodes] eqn:Eb. cbn [fst] in *.
  unfold all_defined in Hnd. fold (cache_names (b_cache s)) in Hnd.
  set (N := b_names s) in *. set (A := b_anon s) in *. set (C := b_cache s) in *.
  assert (Hbel : below N A C s) by (exists [], [], []; now rewrite !app_nil_r).
  assert (X : ext (init_state ins) s).
  { eapply (grows_calls cf rn tr); eauto. apply Forall_forall. intros. apply (proj1 (grows_all cf rn)). }
  assert (B0 : below N A C (init_state ins)) by (eapply below_ext; eauto).
  pose proof B0 as (M0 & D0 & A0 & HN0 & HC0 & HA0). cbn [init_state b_names b_cache b_anon] in HN0, HC0, HA0.
  cbn [eval_graph]. unfold eval_body. cbn [g_ins g_nodes g_outs].
  rewrite bind_spec.
  assert (Hq : Nat.eqb (@List.length vname ins) (List.length args) = true)
    by (apply Nat.eqb_eq; unfold vname; lia).
  rewrite Hq.
  set (outer := init_env V lit_val C).
  unfold creplay in Hr.
  destruct (creplay_calls V sem truth trip of_nat of_bool lim lit_val
              (creplay_body V sem truth trip of_nat of_bool lim lit_val fuel) (vbind V 0 args []) (List.length args) tr)
    as [[E2 n2]|] eqn:Ec; [|discriminate].
  assert (Hi0 : inv V N (vbind V 0 args []) (combine ins args ++ outer) (List.length (b_names (init_state ins)))).
  { cbn [init_state b_names]. rewrite <- Hlen. change (List.length args) with (0 + List.length args).
    eapply (inv_bind V N A C Hnd [] outer 0 0 args [] ins M0); eauto.
    intros id v Hv. discriminate. }
  assert (Hc0 : cache_ok V lit_val C (combine ins args ++ outer)).
  { eapply (cok_bind V lit_val N A C Hnd); eauto.
    - intros k n l0 Hk. unfold outer. eapply (lookup_init_env V lit_val _ k).
      + apply NoDup_app_r in Hnd. apply NoDup_app_r in Hnd. exact Hnd.
      + now apply assoc_str_In.
    - intros x Hx. left. rewrite HN0. apply in_or_app. now left. }
  assert (Hc : List.length args = List.length (b_names (init_state ins))) by (cbn; exact Hlen).
  rewrite Hc in Ec.
  destruct (calls_sem V sem truth trip of_nat of_bool lim lit_val cf rn N A C Hnd _ _
              (sub_sem V sem truth trip of_nat of_bool lim lit_val cf rn N A C Hnd fuel)
              tr (init_state ins) 0 s nodes _ _ E2 n2 Eb Hbel Hcf Hl Hi0 Hc0 Ec) as (e' & R1 & R2 & R3 & R4).
  unfold vname in *. rewrite R1.
  eapply (vlooks_lookups V N A C); eauto. lia.
Qed.

(* the full statement: equality, i.e. also "the reading is undefined => the evaluation fails".  Proved in
   TraceCFConvProofs.build_computes_trace_cf_eq under one more hypothesis ("?undefined" is not a defined name). *)
Definition build_computes_trace_cf_full : Prop :=
  forall V sem truth trip of_nat of_bool lim lit_val cf fuel ins tr outs args,
  cf_trace tr = true ->
  let sf := fst (build_state cf ins tr) in
  NoDup (all_defined sf) ->
  Forall (lit_ok V lit_val (b_cache sf)) (lits_calls tr) ->
  List.length args = List.length ins ->
  eval_graph V sem truth trip of_nat of_bool lim (S fuel) (init_env V lit_val (b_cache sf)) (build cf ins tr outs) args =
  creplay V sem truth trip of_nat of_bool lim lit_val fuel tr args outs.

Lemma lits_okb_sound : forall V lit_val C ls, lits_okb C ls = true -> Forall (lit_ok V lit_val C) ls.
Proof.
  intros V lit_val C ls H. apply Forall_forall. intros l Hl n l0 Hk.
  unfold lits_okb in H. rewrite forallb_forall in H. specialize (H l Hl). rewrite Hk in H.
  apply String.eqb_eq in H. now rewrite H.
Qed.

(* the same with the hypotheses as one boolean, evaluated by the harness on every generated trace *)
Theorem build_computes_trace_cf_checked : forall V sem truth trip of_nat of_bool lim lit_val cf fuel ins tr outs args r,
  cf_hypsb cf ins tr = true ->
  List.length args = List.length ins ->
  creplay V sem truth trip of_nat of_bool lim lit_val fuel tr args outs = Some r ->
  eval_graph V sem truth trip of_nat of_bool lim (S fuel)
             (init_env V lit_val (b_cache (fst (build_state cf ins tr)))) (build cf ins tr outs) args = Some r.
Proof.
  intros V sem truth trip of_nat of_bool lim lit_val cf fuel ins tr outs args r H Hlen Hr.
  unfold cf_hypsb in H. apply andb_true_iff in H as [H H3]. apply andb_true_iff in H as [H1 H2].
  apply build_computes_trace_cf_partial; auto.
  - now apply nodup_strb_NoDup.
  - now apply lits_okb_sound.
Qed.

(* ------------------------------------------------------------------ non-vacuity: a toy kernel semantics over Z *)
Local Open Scope string_scope.
Definition zsem (dom op : string) (attrs : list (string * attrv)) (vs : list (option Z)) : option (list Z) :=
  match vs with
  | [Some a; Some b] =>
    if String.eqb op "Add" then Some [(a + b)%Z]
    else if String.eqb op "Mul" then Some [(a * b)%Z]
    else if String.eqb op "CastLike" then Some [a]
    else None
  | [Some a] => if String.eqb op "Identity" then Some [a] else if String.eqb op "Neg" then Some [(- a)%Z] else None
  | _ => None
  end.
Definition ztruth (z : Z) : option bool := Some (negb (Z.eqb z 0)).
Definition ztrip (z : Z) : option nat := Some (Z.to_nat z).
Definition zof_bool (b : bool) : Z := if b then 1%Z else 0%Z.
Definition zlit (s : string) : Z :=
  if String.eqb s "two" then 2%Z else if String.eqb s "three" then 3%Z else if String.eqb s "ten" then 10%Z else 0%Z.

Definition l_two := Lit "k2" (LNFixed "const_2.0_f32") "two".
Definition l_three := Lit "k3" (LNFixed "const_3_i64") "three".
Definition l_zero := Lit "k0" (LNFixed "const_0_i64") "zero".
Definition l_ten := Lit "k10" (LNFixed "const_10") "ten".

(* x, c = inputs
   a = op.Add(x, 2.0)
   y = op.If(c, then_branch = subgraph(lambda op: op.Mul(a, 2.0), outputs=["br_t"]),
                else_branch = subgraph(lambda op: op.Neg(a)))                      (bodies capture a)
   acc, k = op.Loop(3, None, y, 0, body = subgraph(lambda op, it, cnd, acc, k:
                (op.Identity(cnd), op.Add(acc, x), op.Add(k, it)), outputs=["cond_out", "", ""]))  (body captures x)
   z = op.Mul(acc, 10)          10 next to a value of unknown dtype: CastLike(const_10, acc) *)
Definition ex_cf_trace : list call :=
  [COp [] "" "Add" [OVal 0; OLit l_two] [] [] (ODefault 1);
   COp ["blk"] "" "If" [OVal 1] []
       [("then_branch", Sub [] [COp ["blk"] "" "Mul" [OVal 2; OLit l_two] [] [] (ODefault 1)] [3] ["br_t"]);
        ("else_branch", Sub [] [COp ["blk"] "" "Neg" [OVal 2] [] [] (ODefault 1)] [4] [""])]
       (ODefault 1);
   COp [] "" "Loop" [OLit l_three; ONone; OVal 5; OLit l_zero] []
       [("body", Sub ["it"; "cnd"; "acc"; "k"]
                     [COp [] "" "Add" [OVal 8; OVal 0] [] [] (ODefault 1);
                      COp [] "" "Add" [OVal 9; OVal 6] [] [] (ODefault 1);
                      COp [] "" "Identity" [OVal 7] [] [] (ODefault 1)]
                     [12; 10; 11] ["cond_out"; ""; ""])]
       (ONamed ["acc_f"; "k_f"]);
   COp [] "" "Mul" [OVal 13; OLitCast l_ten 13] [] [] (ODefault 1)].

Example ex_cf_hyps :
  cf_hypsb bcfg_fixed ["x"; "c"] ex_cf_trace = true /\
  (* c true: a = 7, y = 14, three iterations add x = 5 each: 29, k = 0+0+1+2 = 3, z = 290 *)
  creplay Z zsem ztruth ztrip Z.of_nat zof_bool 100 zlit 1 ex_cf_trace [5; 1]%Z [15; 14; 5] = Some [290; 3; 14]%Z /\
  (* c false: y = -7 *)
  creplay Z zsem ztruth ztrip Z.of_nat zof_bool 100 zlit 1 ex_cf_trace [5; 0]%Z [15; 14; 5] = Some [80; 3; -7]%Z /\
  (* bodies nested deeper than the fuel have no reading *)
  creplay Z zsem ztruth ztrip Z.of_nat zof_bool 100 zlit 0 ex_cf_trace [5; 1]%Z [15; 14; 5] = None.
Proof. vm_compute. repeat split; reflexivity. Qed.

Example ex_cf_graph :
  build bcfg_fixed ["x"; "c"] ex_cf_trace [15; 14; 5] =
  Graph ["x"; "c"] ["const_2.0_f32"; "const_3_i64"; "const_0_i64"; "const_10"]
    [Node "" "Add" [Some "x"; Some "const_2.0_f32"] ["v_Add_0"] [] [];
     Node "" "If" [Some "c"] ["v_blk.If_3"] []
       [("then_branch", Graph [] [] [Node "" "Mul" [Some "v_Add_0"; Some "const_2.0_f32"] ["br_t"] [] []] ["br_t"]);
        ("else_branch", Graph [] [] [Node "" "Neg" [Some "v_Add_0"] ["v_blk.Neg_2"] [] []] ["v_blk.Neg_2"])];
     Node "" "Loop" [Some "const_3_i64"; None; Some "v_blk.If_3"; Some "const_0_i64"] ["v_acc_f"; "v_k_f"] []
       [("body", Graph ["it"; "cnd"; "acc"; "k"] []
                   [Node "" "Add" [Some "acc"; Some "x"] ["v_Add_4"] [] [];
                    Node "" "Add" [Some "k"; Some "it"] ["v_Add_5"] [] [];
                    Node "" "Identity" [Some "cnd"] ["cond_out"] [] []]
                   ["cond_out"; "v_Add_4"; "v_Add_5"])];
     Node "" "CastLike" [Some "const_10"; Some "v_acc_f"] ["v_CastLike_8"] [] [];
     Node "" "Mul" [Some "v_acc_f"; Some "v_CastLike_8"] ["v_Mul_9"] [] []]
    ["v_Mul_9"; "v_k_f"; "v_blk.If_3"].
Proof. reflexivity. Qed.

Example ex_cf_computes :
  eval_graph Z zsem ztruth ztrip Z.of_nat zof_bool 100 2
             (init_env Z zlit (b_cache (fst (build_state bcfg_fixed ["x"; "c"] ex_cf_trace))))
             (build bcfg_fixed ["x"; "c"] ex_cf_trace [15; 14; 5]) [5; 1]%Z = Some [290; 3; 14]%Z.
Proof. apply build_computes_trace_cf_checked; [apply ex_cf_hyps | reflexivity | apply ex_cf_hyps]. Qed.
