(* C07: proofs about OV.Rewrite.Naming. *)
From Coq Require Import List String Bool Arith Lia.
Require Import OV.Graph.Syntax OV.Graph.Wf OV.Rewrite.State OV.Rewrite.StateProofs OV.Rewrite.Naming.
Import ListNotations.
Local Open Scope string_scope.
Local Open Scope list_scope.

Lemma nat_eqb_eq : forall a b, Nat.eqb a b = true <-> a = b.
Proof. intros. apply Nat.eqb_eq. Qed.

(* finding C07:replacement-returns-pattern-input: Identity(x) -> x with x a graph input.  Objects: 0 = x (graph input),
   1 = t (output of the matched Identity); old_values = [t], new_values = [x] *)
Theorem returned_input_renames_graph_input_refuted :
  exists inputs olds news vs,
    names_of_objects inputs (take_names olds news vs) <> names_of_objects inputs vs.
Proof. exists [0], [1], [0], [(0, "x"); (1, "t")]. vm_compute. discriminate. Qed.

(* what protects the signature: no replacement output is a graph input (true of every value a replacement CREATES) *)
Theorem created_outputs_keep_input_names : forall inputs olds news vs,
  (forall n, In n news -> ~ In n inputs) ->
  names_of_objects inputs (take_names olds news vs) = names_of_objects inputs vs.
Proof.
  intros inputs olds. induction olds as [|o ot IH]; intros news vs H; simpl; auto.
  destruct news as [|n nt]; auto. rewrite IH; [|intros; apply H; right; auto].
  unfold names_of_objects. apply map_ext_in. intros a Ha. unfold name_of.
  rewrite (dget_dset_other Nat.eqb nat_eqb_eq); auto. intro; subst. apply (H n); [left; auto | exact Ha].
Qed.

(* finding C07:fresh-name-clash: two graph-local authorities at the same counter give the same names *)
Theorem local_authorities_share_names : forall c k1 k2, 0 < k1 -> 0 < k2 ->
  exists nm, In nm (local_names c k1) /\ In nm (local_names c k2).
Proof.
  intros c k1 k2 H1 H2. exists ("val_" ++ nat_to_string c)%string. unfold local_names.
  split; apply in_map_iff; exists c; (split; [reflexivity | apply in_seq; lia]).
Qed.

Theorem fresh_name_shadows_outer_refuted : wf_graphb ex_shadow_after = false.
Proof. vm_compute. reflexivity. Qed.

(* the repair: names drawn against one model-wide set are new and pairwise distinct, and there are as many as asked,
   wherever the counter stands *)
Lemma rv_inj : forall a b, rv a = rv b -> a = b.
Proof. unfold rv. intros a b H. apply append_inj_l in H. apply nat_to_string_inj. exact H. Qed.

Lemma fresh_ctr_fixed : forall k c used,
  List.length (fresh_ctr c used k) = k /\ NoDup (fresh_ctr c used k) /\ forall nm, In nm (fresh_ctr c used k) -> ~ In nm used.
Proof.
  induction k as [|k IH]; intros c used; cbn [fresh_ctr].
  - split; [reflexivity|]. split; [constructor | intros nm []].
  - destruct (first_free_total rv used (S c) rv_inj) as [j Hj].
    rewrite Hj. apply first_free_sound in Hj. destruct Hj as [Hf _].
    destruct (IH j (rv j :: used)) as [L [N D]].
    split; [cbn [List.length]; rewrite L; reflexivity|]. split.
    + constructor; auto. intro Q. apply D in Q. apply Q. left. reflexivity.
    + intros nm [<-|Q].
      * intro Q. apply mem_In in Q. congruence.
      * apply D in Q. intro R. apply Q. right. exact R.
Qed.

Theorem fresh_names_fixed : forall k used,
  List.length (fresh_seq used k) = k /\ NoDup (fresh_seq used k) /\ forall nm, In nm (fresh_seq used k) -> ~ In nm used.
Proof. intros. apply fresh_ctr_fixed. Qed.

(* the names created for a model are a function of the model (the names in use, the number of values created -- itself a
   function of the model and the rule set) alone: they do not depend on what the rule set object rewrote before *)
Theorem names_function_of_model_fixed : forall c1 c2 used k,
  names_created true c1 used k = names_created true c2 used k.
Proof. reflexivity. Qed.

(* before fix bb7dec3 (counter carried over): the same model gets rewritten_val_5 after four values created for other models *)
Theorem names_function_of_model_refuted :
  exists c1 c2 used k, names_created false c1 used k <> names_created false c2 used k.
Proof. exists 0, 4, ["x"; "o"], 1. vm_compute. discriminate. Qed.

(* ---- replacement outputs that exist already ---------------------------------------------------------------------------- *)
Lemma has_In : forall x l, has x l = true <-> In x l.
Proof.
  intros. unfold has. rewrite existsb_exists. split.
  - intros [y [H1 H2]]. apply Nat.eqb_eq in H2. subst. exact H1.
  - intro H. exists x. split; auto. apply Nat.eqb_refl.
Qed.

(* as read: Identity(x) -> x with x a graph input (object 0), t (object 1) interior: the input is renamed *)
Theorem returned_value_as_read_refuted :
  exists created pinned olds news vs outs fresh r,
    splice_names false created pinned true olds news vs outs fresh = Some r /\
    names_of_objects [0] (fst (fst (fst r))) <> names_of_objects [0] vs.
Proof.
  exists [], [0; 2], [1], [0], [(0, "x"); (1, "t"); (2, "o")], [2], 3. eexists. split; [reflexivity|]. vm_compute. discriminate.
Qed.

(* repaired: no graph input (more generally: no pinned object below `fresh` that is not created) changes its name *)
Lemma splice1_keeps : forall created pinned outs0 st on x,
  In x pinned -> ~ In x created -> x < snd (fst st) ->
  let st' := splice1 true created pinned outs0 st on in
  name_of x (fst (fst (fst st'))) = name_of x (fst (fst (fst st))) /\ snd (fst st) <= snd (fst st').
Proof.
  intros created pinned outs0 [[[vs outs] fresh] k] [o n] x Hp Hc Hf. simpl in Hf. unfold splice1. simpl negb. simpl orb.
  destruct (has n created) eqn:C; [|destruct (has o outs0) eqn:G; [destruct (has n pinned) eqn:P|]]; simpl; split; auto; unfold name_of.
  - rewrite (dget_dset_other Nat.eqb nat_eqb_eq); auto. intro; subst. apply has_In in C. contradiction.
  - rewrite (dget_dset_other Nat.eqb nat_eqb_eq); auto. lia.
  - rewrite (dget_dset_other Nat.eqb nat_eqb_eq); auto. intro; subst. apply has_In in Hp. congruence.
Qed.

Theorem returned_value_fixed : forall created pinned is_fwd olds news vs outs fresh r inputs,
  splice_names true created pinned is_fwd olds news vs outs fresh = Some r ->
  (forall x, In x inputs -> In x pinned /\ ~ In x created /\ x < fresh) ->
  names_of_objects inputs (fst (fst (fst r))) = names_of_objects inputs vs.
Proof.
  unfold splice_names. intros created pinned is_fwd olds news vs outs fresh r inputs H Hin.
  destruct is_fwd; simpl in H; try discriminate. inversion H; subst r. clear H.
  assert (G : forall l st, (forall x, In x inputs -> In x pinned /\ ~ In x created /\ x < snd (fst st)) ->
            names_of_objects inputs (fst (fst (fst (fold_left (splice1 true created pinned outs) l st))))
            = names_of_objects inputs (fst (fst (fst st)))).
  { induction l as [|on t IH]; intros st Hst; simpl; auto.
    rewrite IH.
    - unfold names_of_objects. apply map_ext_in. intros x Hx. destruct (Hst x Hx) as [A [B C]].
      apply (splice1_keeps created pinned outs st on x A B C).
    - intros x Hx. destruct (Hst x Hx) as [A [B C]]. split; auto. split; auto.
      pose proof (splice1_keeps created pinned outs st on x A B C) as [_ L]. simpl in L. lia. }
  apply (G (combine olds news) (vs, outs, fresh, 0)). simpl. exact Hin.
Qed.

(* repaired, one pattern output: the names of the graph outputs, read in order, do not change either *)
Theorem returned_value_fixed_output_names_single : forall created pinned o n vs outs fresh r,
  splice_names true created pinned false [o] [n] vs outs fresh = Some r ->
  (forall y, In y outs -> In y pinned /\ ~ In y created /\ y < fresh) ->
  names_of_objects (snd (fst (fst r))) (fst (fst (fst r))) = names_of_objects outs vs.
Proof.
  unfold splice_names. simpl. intros created pinned o n vs outs fresh r H Hout. inversion H; subst r. clear H.
  unfold splice1. simpl negb. simpl orb.
  assert (R : forall x, ~ In x outs ->
            names_of_objects (map (fun y => if Nat.eqb y o then x else y) outs) (dset Nat.eqb x (name_of o vs) vs)
            = names_of_objects outs vs).
  { intros x Hx. unfold names_of_objects. rewrite map_map. apply map_ext_in. intros y Hy. unfold name_of at 1.
    destruct (Nat.eqb y o) eqn:E.
    - apply Nat.eqb_eq in E. subst y. rewrite (dget_dset_same Nat.eqb nat_eqb_eq). reflexivity.
    - rewrite (dget_dset_other Nat.eqb nat_eqb_eq); auto. intro; subst. contradiction. }
  destruct (has n created) eqn:C; [|destruct (has o outs) eqn:G; [destruct (has n pinned) eqn:P|]]; simpl.
  - apply R. intro Q. apply Hout in Q. destruct Q as [_ [Q _]]. apply has_In in C. contradiction.
  - apply R. intro Q. apply Hout in Q. lia.
  - apply R. intro Q. apply Hout in Q. destruct Q as [Q _]. apply has_In in Q. congruence.
  - reflexivity.
Qed.
