From Coq Require Import List String Bool Arith Lia.
Require Import OV.Determinism.MustDef.
Import ListNotations.
Local Open Scope string_scope.
Local Open Scope list_scope.

(* two object states agree on a set of fields *)
Definition agree (D : fset) (s1 s2 : state) : Prop := forall f, mem f D = true -> s1 f = s2 f.
Definition agree_t (t : tset) (s1 s2 : state) : Prop :=
  match t with None => False | Some D => agree D s1 s2 end.

Definition post (fl : flow) (o : outcome) (s1 s2 : state) : Prop :=
  match o with
  | Normal => agree_t (norm fl) s1 s2
  | Returned b => agree_t (ret_any fl) s1 s2 /\ (b = true -> agree_t (ret_ok fl) s1 s2)
  | Aborted | OutOfFuel => True
  end.

Lemma mem_In : forall f D, mem f D = true <-> In f D.
Proof.
  intros f D. unfold mem. rewrite existsb_exists. split.
  - intros (g & Hg & E). apply String.eqb_eq in E. now subst.
  - intro H. exists f. split; [exact H | apply String.eqb_refl].
Qed.

Lemma mem_inter : forall f a b, mem f (inter a b) = mem f a && mem f b.
Proof.
  intros f a b. destruct (mem f (inter a b)) eqn:E.
  - apply mem_In in E. unfold inter in E. apply filter_In in E. destruct E as [E1 E2].
    apply mem_In in E1. symmetry. apply andb_true_iff. now split.
  - symmetry. apply andb_false_iff.
    destruct (mem f a) eqn:Ea; [|now left]. destruct (mem f b) eqn:Eb; [|now right].
    exfalso. assert (mem f (inter a b) = true); [|congruence].
    apply mem_In. unfold inter. apply filter_In. split; [now apply mem_In | exact Eb].
Qed.

Lemma mem_app : forall f a b, mem f (a ++ b) = mem f a || mem f b.
Proof. intros. unfold mem. apply existsb_app. Qed.

Lemma agree_meet_l : forall a b s1 s2, agree_t a s1 s2 -> agree_t (meet a b) s1 s2.
Proof.
  intros [a|] [b|] s1 s2; cbn; try tauto.
  intros H f Hf. rewrite mem_inter in Hf. apply andb_true_iff in Hf. apply H. tauto.
Qed.

Lemma agree_meet_r : forall a b s1 s2, agree_t b s1 s2 -> agree_t (meet a b) s1 s2.
Proof.
  intros [a|] [b|] s1 s2; cbn; try tauto.
  intros H f Hf. rewrite mem_inter in Hf. apply andb_true_iff in Hf. apply H. tauto.
Qed.

Lemma subset_mem : forall fs D f, subset fs D = true -> mem f fs = true -> mem f D = true.
Proof.
  intros fs D f Hs Hf. unfold subset in Hs. rewrite forallb_forall in Hs. apply Hs. now apply mem_In.
Qed.

Lemma agree_subset : forall D D' s1 s2, subset D D' = true -> agree D' s1 s2 -> agree D s1 s2.
Proof. intros D D' s1 s2 Hs H f Hf. apply H. eapply subset_mem; eassumption. Qed.

Lemma agree_read_all : forall D s1 s2 fs, agree D s1 s2 -> subset fs D = true -> read_all s1 fs = read_all s2 fs.
Proof.
  intros D s1 s2 fs H. induction fs as [|f r IH]; cbn; auto.
  intro Hs. apply andb_true_iff in Hs. destruct Hs as [Hf Hr].
  rewrite (H f Hf), (IH Hr). reflexivity.
Qed.

Lemma agree_eval : forall orc D s1 s2 tr fs, agree D s1 s2 -> subset fs D = true ->
  eval orc s1 tr fs = eval orc s2 tr fs.
Proof. intros. unfold eval. erewrite agree_read_all; eauto. Qed.

Lemma agree_upd : forall D s1 s2 f v, agree D s1 s2 -> agree (f :: D) (upd s1 f v) (upd s2 f v).
Proof.
  intros D s1 s2 f v H g Hg. unfold upd. destruct (String.eqb g f) eqn:E; auto.
  apply H. unfold mem in *. cbn in Hg. rewrite E in Hg. exact Hg.
Qed.

(* ------------------------------------------------------------------------------------------------
   Soundness of the analysis: from states that agree on D the two executions compute the same
   values, take the same branches, end the same way, and the final states agree on the sets the
   analysis claims. *)
Lemma exec_ni : forall orc fuel p D fl s1 s2 tr,
  ana p D = Some fl -> agree D s1 s2 ->
  match exec orc fuel p s1 tr, exec orc fuel p s2 tr with
  | (o1, s1', tr1), (o2, s2', tr2) => o1 = o2 /\ tr1 = tr2 /\ post fl o1 s1' s2'
  end.
Proof.
  intros orc. induction fuel as [|n IH]; intros p D fl s1 s2 tr Ha Hag; [cbn; auto|].
  destruct p; cbn [exec]; cbn [ana] in Ha.
  - (* Skip *) inversion Ha; subst; cbn; auto.
  - (* Seq *)
    destruct (ana p1 D) as [ra|] eqn:Ea; [|discriminate].
    pose proof (IH p1 D ra s1 s2 tr Ea Hag) as H1.
    destruct (exec orc n p1 s1 tr) as [[o1 s1'] tr1]. destruct (exec orc n p1 s2 tr) as [[o2 s2'] tr2].
    destruct H1 as (<- & <- & Hp).
    destruct (norm ra) as [D'|] eqn:En.
    + destruct (ana p2 D') as [rb|] eqn:Eb; [|discriminate]. inversion Ha; subst fl; clear Ha.
      destruct o1; cbn in Hp |- *.
      * rewrite En in Hp. cbn in Hp.
        pose proof (IH p2 D' rb s1' s2' tr1 Eb Hp) as H2.
        destruct (exec orc n p2 s1' tr1) as [[o3 s3] tr3]. destruct (exec orc n p2 s2' tr1) as [[o4 s4] tr4].
        destruct H2 as (<- & <- & Hp2). repeat split; auto.
        destruct o3; cbn in Hp2 |- *; auto.
        destruct Hp2 as [A B]. split; [now apply agree_meet_r | intro; apply agree_meet_r; auto].
      * destruct Hp as [A B]. repeat split; auto. now apply agree_meet_l. intro; apply agree_meet_l; auto.
      * auto.
      * auto.
    + inversion Ha; subst fl; clear Ha.
      destruct o1; cbn in Hp |- *; auto.
      rewrite En in Hp. contradiction.
  - (* Read *)
    destruct (subset fs D) eqn:Es; [|discriminate]. inversion Ha; subst fl; clear Ha.
    rewrite (agree_eval orc D s1 s2 tr fs Hag Es).
    destruct (eval orc s2 tr fs); cbn; auto.
  - (* Write *)
    destruct (subset fs D) eqn:Es; [|discriminate]. inversion Ha; subst fl; clear Ha.
    rewrite (agree_eval orc D s1 s2 tr fs Hag Es).
    destruct (eval orc s2 tr fs); cbn; auto.
    repeat split; auto. now apply agree_upd.
  - (* If *)
    destruct (subset fs D) eqn:Es; [|discriminate].
    destruct (ana p1 D) as [ra|] eqn:Ea; [|discriminate].
    destruct (ana p2 D) as [rb|] eqn:Eb; [|discriminate]. inversion Ha; subst fl; clear Ha.
    rewrite (agree_eval orc D s1 s2 tr fs Hag Es).
    destruct (eval orc s2 tr fs) as [v|]; [|cbn; auto].
    destruct (Nat.eqb v 0).
    + pose proof (IH p2 D rb s1 s2 (v :: tr) Eb Hag) as H2.
      destruct (exec orc n p2 s1 (v :: tr)) as [[o3 s3] tr3]. destruct (exec orc n p2 s2 (v :: tr)) as [[o4 s4] tr4].
      destruct H2 as (<- & <- & Hp2). repeat split; auto.
      destruct o3; cbn in Hp2 |- *; auto. now apply agree_meet_r.
      destruct Hp2 as [A B]. split; [now apply agree_meet_r | intro; apply agree_meet_r; auto].
    + pose proof (IH p1 D ra s1 s2 (v :: tr) Ea Hag) as H2.
      destruct (exec orc n p1 s1 (v :: tr)) as [[o3 s3] tr3]. destruct (exec orc n p1 s2 (v :: tr)) as [[o4 s4] tr4].
      destruct H2 as (<- & <- & Hp2). repeat split; auto.
      destruct o3; cbn in Hp2 |- *; auto. now apply agree_meet_l.
      destruct Hp2 as [A B]. split; [now apply agree_meet_l | intro; apply agree_meet_l; auto].
  - (* Loop *)
    destruct (subset fs D) eqn:Es; [|discriminate].
    destruct (ana p D) as [rb|] eqn:Eb; [|discriminate].
    destruct (match norm rb with Some D' => subset D D' | None => true end) eqn:Emono; [|discriminate].
    inversion Ha; subst fl; clear Ha.
    rewrite (agree_eval orc D s1 s2 tr fs Hag Es).
    destruct (eval orc s2 tr fs) as [v|]; [|cbn; auto].
    destruct (Nat.eqb v 0); [cbn; auto|].
    pose proof (IH p D rb s1 s2 (v :: tr) Eb Hag) as H2.
    destruct (exec orc n p s1 (v :: tr)) as [[o3 s3] tr3]. destruct (exec orc n p s2 (v :: tr)) as [[o4 s4] tr4].
    destruct H2 as (<- & <- & Hp2).
    destruct o3; cbn in Hp2 |- *; auto.
    destruct (norm rb) as [D'|] eqn:En; [|contradiction]. cbn in Hp2.
    assert (Hag' : agree D s3 s4) by (eapply agree_subset; eassumption).
    assert (Hl : ana (Loop fs p) D = Some {| norm := Some D; ret_ok := ret_ok rb; ret_any := ret_any rb |}).
    { cbn [ana]. rewrite Es, Eb, En, Emono. reflexivity. }
    exact (IH (Loop fs p) D _ s3 s4 tr3 Hl Hag').
  - (* Call *)
    destruct (ana p D) as [rb|] eqn:Eb; [|discriminate]. inversion Ha; subst fl; clear Ha.
    pose proof (IH p D rb s1 s2 tr Eb Hag) as H2.
    destruct (exec orc n p s1 tr) as [[o3 s3] tr3]. destruct (exec orc n p s2 tr) as [[o4 s4] tr4].
    destruct H2 as (<- & <- & Hp2).
    destruct o3; cbn in Hp2 |- *; auto.
    + repeat split; auto. now apply agree_meet_l.
    + repeat split; auto. apply agree_meet_r. tauto.
  - (* CallChk *)
    destruct (ana p1 D) as [rb|] eqn:Eb; [|discriminate].
    pose proof (IH p1 D rb s1 s2 tr Eb Hag) as H2.
    destruct (exec orc n p1 s1 tr) as [[o3 s3] tr3]. destruct (exec orc n p1 s2 tr) as [[o4 s4] tr4].
    destruct H2 as (<- & <- & Hp2).
    assert (Hfail : (o3 = Normal \/ o3 = Returned false) ->
      match exec orc n p2 s3 tr3, exec orc n p2 s4 tr3 with
      | (o1, s1', tr1), (o2, s2', tr2) => o1 = o2 /\ tr1 = tr2 /\ post fl o1 s1' s2' end).
    { intro Ho.
      assert (Hm : agree_t (meet (norm rb) (ret_any rb)) s3 s4).
      { destruct Ho as [-> | ->]; cbn in Hp2; [now apply agree_meet_l | apply agree_meet_r; tauto]. }
      destruct (meet (norm rb) (ret_any rb)) as [Df|] eqn:Em; [|contradiction]. cbn in Hm.
      destruct (ana p2 Df) as [rf|] eqn:Ef; [|discriminate]. inversion Ha; subst fl; clear Ha.
      pose proof (IH p2 Df rf s3 s4 tr3 Ef Hm) as H3.
      destruct (exec orc n p2 s3 tr3) as [[o5 s5] tr5]. destruct (exec orc n p2 s4 tr3) as [[o6 s6] tr6].
      destruct H3 as (<- & <- & Hp3). repeat split; auto.
      destruct o5; cbn in Hp3 |- *; auto. now apply agree_meet_r. }
    destruct o3 as [|[|]| |].
    + apply Hfail; auto.
    + cbn in Hp2. destruct Hp2 as [A B]. specialize (B eq_refl).
      assert (Hm : agree_t (meet (norm rb) (ret_any rb)) s3 s4) by (now apply agree_meet_r).
      destruct (meet (norm rb) (ret_any rb)) as [Df|] eqn:Em; [|contradiction].
      destruct (ana p2 Df) as [rf|] eqn:Ef; [|discriminate]. inversion Ha; subst fl; clear Ha.
      repeat split; auto. cbn. now apply agree_meet_l.
    + apply Hfail; auto.
    + cbn; auto.
    + cbn; auto.
  - (* Ret *)
    destruct (subset fs D) eqn:Es; [|discriminate]. inversion Ha; subst fl; clear Ha.
    rewrite (agree_eval orc D s1 s2 tr fs Hag Es).
    destruct (eval orc s2 tr fs) as [v|]; cbn; auto.
    repeat split; auto. intro Hb. apply andb_true_iff in Hb. destruct Hb as [-> _]. exact Hag.
  - (* Abort *) inversion Ha; subst; cbn; auto.
Qed.

(* fields that a program never writes keep their value *)
Lemma exec_preserves : forall orc fuel p s tr f, mem f (writes p) = false ->
  match exec orc fuel p s tr with (_, s', _) => s' f = s f end.
Proof.
  intros orc. induction fuel as [|n IH]; intros p s tr f Hw; [cbn; auto|].
  destruct p; cbn [exec]; cbn [writes] in Hw; auto.
  - rewrite mem_app in Hw. apply orb_false_iff in Hw. destruct Hw as [H1 H2].
    pose proof (IH p1 s tr f H1) as A. destruct (exec orc n p1 s tr) as [[o s'] tr'].
    destruct o; auto. pose proof (IH p2 s' tr' f H2) as B. destruct (exec orc n p2 s' tr') as [[o2 s2] tr2]. congruence.
  - destruct (eval orc s tr fs); auto.
  - destruct (eval orc s tr fs); auto. unfold upd. unfold mem in Hw. cbn in Hw. rewrite orb_false_r in Hw. now rewrite Hw.
  - rewrite mem_app in Hw. apply orb_false_iff in Hw. destruct Hw as [H1 H2].
    destruct (eval orc s tr fs); auto. destruct (Nat.eqb v 0); [apply (IH p2) | apply (IH p1)]; auto.
  - destruct (eval orc s tr fs); auto. destruct (Nat.eqb v 0); auto.
    pose proof (IH p s (v :: tr) f Hw) as A. destruct (exec orc n p s (v :: tr)) as [[o s'] tr'].
    destruct o; auto. pose proof (IH (Loop fs p) s' tr' f Hw) as B.
    destruct (exec orc n (Loop fs p) s' tr') as [[o2 s2] tr2]. congruence.
  - pose proof (IH p s tr f Hw) as A. destruct (exec orc n p s tr) as [[o s'] tr']. destruct o; auto.
  - rewrite mem_app in Hw. apply orb_false_iff in Hw. destruct Hw as [H1 H2].
    pose proof (IH p1 s tr f H1) as A. destruct (exec orc n p1 s tr) as [[o s'] tr'].
    pose proof (IH p2 s' tr' f H2) as B. destruct (exec orc n p2 s' tr') as [[o2 s2] tr2].
    destruct o as [|[|]| |]; auto; congruence.
  - destruct (eval orc s tr fs); auto.
Qed.

Lemma disjoint_not_written : forall W C f, disjoint W C = true -> mem f C = true -> mem f W = false.
Proof.
  intros W C f Hd Hc. destruct (mem f W) eqn:E; auto.
  apply mem_In in E. unfold disjoint in Hd. rewrite forallb_forall in Hd. specialize (Hd f E).
  rewrite Hc in Hd. discriminate.
Qed.

(* ------------------------------------------------------------------------------------------------
   Non-interference for one match attempt: whatever the rule object's fields held before (left there
   by any earlier check / rewrite on any other model, finished or aborted), provided the
   configuration fields are as constructed, check();rewrite() computes the same values, takes the
   same decisions and ends the same way. *)
Theorem must_def_sound : forall r, rule_ok r = true ->
  forall orc fuel s1 s2 tr, agree (r_config r) s1 s2 ->
    observable (run_match orc fuel (r_check r) (r_rewrite r) s1 tr) =
    observable (run_match orc fuel (r_check r) (r_rewrite r) s2 tr).
Proof.
  intros r Hok orc fuel s1 s2 tr Hag. unfold rule_ok in Hok. apply andb_true_iff in Hok. destruct Hok as [_ Hok].
  destruct (ana (r_check r) (r_config r)) as [fc|] eqn:Ec; [|discriminate].
  unfold run_match.
  pose proof (exec_ni orc fuel (r_check r) (r_config r) fc s1 s2 tr Ec Hag) as H1.
  destruct (exec orc fuel (r_check r) s1 tr) as [[o1 s1'] tr1]. destruct (exec orc fuel (r_check r) s2 tr) as [[o2 s2'] tr2].
  destruct H1 as (<- & <- & Hp).
  destruct o1 as [|[|]| |]; cbn; auto.
  cbn in Hp. destruct Hp as [_ Hp]. specialize (Hp eq_refl).
  destruct (ret_ok fc) as [D|] eqn:Er; [|contradiction]. cbn in Hp.
  destruct (ana (r_rewrite r) D) as [fr|] eqn:Erw; [|discriminate].
  pose proof (exec_ni orc fuel (r_rewrite r) D fr s1' s2' tr1 Erw Hp) as H2.
  destruct (exec orc fuel (r_rewrite r) s1' tr1) as [[o3 s3] tr3]. destruct (exec orc fuel (r_rewrite r) s2' tr1) as [[o4 s4] tr4].
  destruct H2 as (<- & <- & _). reflexivity.
Qed.

(* the configuration fields survive any match attempt *)
Lemma run_match_keeps_config : forall r, rule_ok r = true ->
  forall orc fuel s tr f, mem f (r_config r) = true ->
    match run_match orc fuel (r_check r) (r_rewrite r) s tr with (_, _, _, s') => s' f = s f end.
Proof.
  intros r Hok orc fuel s tr f Hf. unfold rule_ok in Hok. apply andb_true_iff in Hok. destruct Hok as [Hd _].
  pose proof (disjoint_not_written _ _ f Hd Hf) as Hw. rewrite mem_app in Hw. apply orb_false_iff in Hw. destruct Hw as [Hc Hr].
  unfold run_match.
  pose proof (exec_preserves orc fuel (r_check r) s tr f Hc) as A.
  destruct (exec orc fuel (r_check r) s tr) as [[o s'] tr'].
  destruct o as [|[|]| |]; auto.
  pose proof (exec_preserves orc fuel (r_rewrite r) s' tr' f Hr) as B.
  destruct (exec orc fuel (r_rewrite r) s' tr') as [[o2 s2] tr2]. congruence.
Qed.

(* a history: any number of earlier match attempts, each against its own model (its own oracle,
   fuel and starting trace) *)
Fixpoint run_history (r : rule) (h : list (oracle * nat * trace)) (s : state) : state :=
  match h with
  | [] => s
  | (orc, fuel, tr) :: rest =>
      match run_match orc fuel (r_check r) (r_rewrite r) s tr with (_, _, _, s') => run_history r rest s' end
  end.

Lemma history_keeps_config : forall r, rule_ok r = true -> forall h s, agree (r_config r) (run_history r h s) s.
Proof.
  intros r Hok. induction h as [|[[orc fuel] tr] rest IH]; intros s f Hf; cbn; auto.
  pose proof (run_match_keeps_config r Hok orc fuel s tr f Hf) as A.
  destruct (run_match orc fuel (r_check r) (r_rewrite r) s tr) as [[[o o2] tr'] s'].
  rewrite (IH s' f Hf). exact A.
Qed.

Theorem history_independent : forall r, rule_ok r = true ->
  forall (h : list (oracle * nat * trace)) (s0 : state) orc fuel tr,
    observable (run_match orc fuel (r_check r) (r_rewrite r) (run_history r h s0) tr) =
    observable (run_match orc fuel (r_check r) (r_rewrite r) s0 tr).
Proof.
  intros r Hok h s0 orc fuel tr. apply must_def_sound; auto. apply history_keeps_config; auto.
Qed.

(* the target operation itself consists of many match attempts on the same rule object (one per node
   of the model, each with its own oracle); what each of them computes is the same after any history *)
Fixpoint run_target (r : rule) (ms : list (oracle * nat * trace)) (s : state) : list (outcome * option outcome * trace) :=
  match ms with
  | [] => []
  | (orc, fuel, tr) :: rest =>
      let res := run_match orc fuel (r_check r) (r_rewrite r) s tr in
      observable res :: run_target r rest (snd res)
  end.

Lemma run_target_agree : forall r, rule_ok r = true ->
  forall ms s1 s2, agree (r_config r) s1 s2 -> run_target r ms s1 = run_target r ms s2.
Proof.
  intros r Hok. induction ms as [|[[orc fuel] tr] rest IH]; intros s1 s2 Hag; cbn; auto.
  f_equal; [now apply must_def_sound|].
  apply IH. intros f Hf.
  pose proof (run_match_keeps_config r Hok orc fuel s1 tr f Hf) as A1.
  pose proof (run_match_keeps_config r Hok orc fuel s2 tr f Hf) as A2.
  destruct (run_match orc fuel (r_check r) (r_rewrite r) s1 tr) as [[[o1 p1] t1] s1'].
  destruct (run_match orc fuel (r_check r) (r_rewrite r) s2 tr) as [[[o2 p2] t2] s2'].
  cbn. rewrite A1, A2. now apply Hag.
Qed.

Theorem target_history_independent : forall r, rule_ok r = true ->
  forall (h ms : list (oracle * nat * trace)) (s0 : state),
    run_target r ms (run_history r h s0) = run_target r ms s0.
Proof. intros r Hok h ms s0. apply run_target_agree; auto. apply history_keeps_config; auto. Qed.

(* every rule of a list that passes the computed check *)
Theorem all_rules_history_independent : forall rules, forallb rule_ok rules = true ->
  forall r, In r rules ->
  forall h s0 orc fuel tr,
    observable (run_match orc fuel (r_check r) (r_rewrite r) (run_history r h s0) tr) =
    observable (run_match orc fuel (r_check r) (r_rewrite r) s0 tr).
Proof.
  intros rules H r Hin. rewrite forallb_forall in H. apply history_independent. apply H, Hin.
Qed.

(* the analysis is not vacuous: a rule that reads a field it did not set on every successful path of
   check() is rejected, and its executions do differ *)
Definition leaky : rule :=
  {| r_name := "leaky"; r_config := [];
     r_check := If [] (Seq (Write "_x" []) (Ret true [])) (Ret true []);
     r_rewrite := Ret true ["_x"] |}.

Definition const_oracle (n : nat) : oracle := fun _ vs => Some (n + fold_right Nat.add 0 vs).

Theorem stale_read_refuted : rule_ok leaky = false /\
  exists orc fuel s1 s2, agree (r_config leaky) s1 s2 /\
    observable (run_match orc fuel (r_check leaky) (r_rewrite leaky) s1 []) <>
    observable (run_match orc fuel (r_check leaky) (r_rewrite leaky) s2 []).
Proof.
  split; [vm_compute; reflexivity|].
  exists (fun tr vs => match tr with [] => Some 0 | _ => Some (1 + fold_right Nat.add 0 vs) end), 10,
         (fun f => if String.eqb f "_x" then Some 5 else None),
         (fun f => if String.eqb f "_x" then Some 7 else None).
  split; [intros f Hf; discriminate|]. vm_compute. discriminate.
Qed.

(* and a rule in the style of ReshapeReshape (fails before the first write, sets everything on the
   successful paths, mutates a field it has set) is accepted *)
Example reshape_like_ok :
  rule_ok {| r_name := "reshape-like"; r_config := ["name"];
             r_check := seq [If [] (Ret false []) Skip; Write "_s" [];
                             Loop [] (If [] (Write "_s" ["_s"]) Skip);
                             Write "_z" []; If ["_z"; "_s"] (Ret true []) Skip;
                             Write "_z" []; Write "_s" ["_s"]; Ret true []];
             r_rewrite := Ret true ["_s"; "_z"; "name"] |} = true.
Proof. vm_compute. reflexivity. Qed.

(* identity-keyed cache: entries left by earlier graphs are invisible to lookups with the keys of
   the current graph (their keys are objects of other, still referenced, models) *)
Lemma lookup_app_fresh : forall k c stale, (forall v, ~ In (k, v) stale) -> lookup k (c ++ stale) = lookup k c.
Proof.
  intros k c stale Hfresh. induction c as [|[k' v] r IH]; cbn.
  - induction stale as [|[k' v] r IH]; cbn; auto.
    destruct (Nat.eqb k k') eqn:E.
    + apply Nat.eqb_eq in E. subst. exfalso. apply (Hfresh v). now left.
    + apply IH. intros v0 Hin. apply (Hfresh v0). now right.
  - destruct (Nat.eqb k k'); auto.
Qed.

(* RewriteRuleSet.apply_to_model as read: rejected by the analysis, and really history dependent -- after one
   earlier application the same application computes different values (the generated names) *)
Theorem ruleset_counter_refuted : rule_ok ruleset_as_read = false /\
  exists (h : list (oracle * nat * trace)) orc fuel,
    observable (run_match orc fuel (r_check ruleset_as_read) (r_rewrite ruleset_as_read) (run_history ruleset_as_read h ruleset_init) []) <>
    observable (run_match orc fuel (r_check ruleset_as_read) (r_rewrite ruleset_as_read) ruleset_init []).
Proof.
  split; [vm_compute; reflexivity|].
  exists [(counting_oracle, 40, [])], counting_oracle, 40. vm_compute. discriminate.
Qed.

(* with the counter re-initialised per model the analysis accepts it: every history gives the same result *)
Theorem ruleset_counter_fixed : rule_ok ruleset_reset = true /\
  forall (h : list (oracle * nat * trace)) (s0 : state) orc fuel tr,
    observable (run_match orc fuel (r_check ruleset_reset) (r_rewrite ruleset_reset) (run_history ruleset_reset h s0) tr) =
    observable (run_match orc fuel (r_check ruleset_reset) (r_rewrite ruleset_reset) s0 tr).
Proof.
  assert (H : rule_ok ruleset_reset = true) by (vm_compute; reflexivity).
  split; [exact H|]. exact (history_independent ruleset_reset H).
Qed.

(* the witness is not degenerate: the application terminates normally and does generate names *)
Example ruleset_witness_runs :
  fst (fst (fst (run_match counting_oracle 40 (r_check ruleset_as_read) (r_rewrite ruleset_as_read) ruleset_init []))) = Returned false
  /\ List.length (snd (fst (run_match counting_oracle 40 (r_check ruleset_as_read) (r_rewrite ruleset_as_read) ruleset_init []))) = 9.
Proof. vm_compute. split; reflexivity. Qed.
