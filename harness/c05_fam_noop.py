"""C05 family: _no_op.py (mul_by_1, add_0, sub_0, div_by_1 + commuted forms, dropout_zero, dropout_inference).

Model: coq/Rules/NoOp.v; theorems: coq/Props/C05_noop.v.
Correspondence: fired? of the real rule set on hosts `x op c` / `c op x` for constants c that are exactly, nearly and
not 0 / 1, of rank 0, 1, 2, as initializer or Constant node, float and integer dtypes  ==  NoOp.check evaluated in Coq on the
constant as an exact rational.  Direct oracle on both engines.
"""
from __future__ import annotations

from fractions import Fraction

import numpy as np

from harness import c05_basic_util as U
from harness import common
from harness.common import clist, cnat, cz

OPS = {"MulR": ("Mul", False), "MulL": ("Mul", True), "AddR": ("Add", False), "AddL": ("Add", True),
       "SubR": ("Sub", False), "DivR": ("Div", False)}
TARGET = {"MulR": 1, "MulL": 1, "DivR": 1, "AddR": 0, "AddL": 0, "SubR": 0}


def _host(onnx_op, commuted, carr, dtype, xdecl, const_kind, nonconst=False):
    from onnx import helper
    nodes, inits, inputs = [], [], [("x", dtype, xdecl)]
    if nonconst:
        inputs.append(("c", dtype, list(carr.shape)))
    elif const_kind == "init":
        inits.append(U.const_arr("c", carr))
    else:
        nodes.append(U.const_node("c", carr))
    nodes.append(helper.make_node(onnx_op, ["c", "x"] if commuted else ["x", "c"], ["y"]))
    conc = [d if isinstance(d, int) else 3 for d in xdecl]
    out = list(np.broadcast_shapes(tuple(conc), carr.shape))
    off = len(out) - len(xdecl)
    for i, d in enumerate(xdecl):
        if not isinstance(d, int):
            out[off + i] = d
    return U.model(nodes, inputs, [("y", dtype, out)], inits=inits)


def family(ctx):
    from onnxscript.rewriter.rules.common import _no_op as mod

    near1 = [1.0 + 2.0 ** -20, 1.0 - 2.0 ** -20, 1.000001, 1.000005, 0.999995, 1.0 + 2.0 ** -23]
    far1 = [1.00002, 0.9999, 2.0, 0.0, -1.0, 1.5]
    near0 = [1e-9, -1e-9, 5e-9, 2.0 ** -30, -(2.0 ** -40)]
    far0 = [2e-8, -3e-8, 1e-3, 1.0, -1.0]
    cases, meta = [], []
    fired_n = approx_fired = 0
    idx = 0
    for opname in sorted(OPS):
        onnx_op, commuted = OPS[opname]
        t = TARGET[opname]
        consts = [(float(t), "exact")] + [(v, "near") for v in (near1 if t == 1 else near0)] + [(v, "far") for v in (far1 if t == 1 else far0)]
        for cval, cls in consts:
            for shp in ((), (1,), (1, 1)):
                if shp != () and cls == "far" and ctx.tier == "quick":
                    continue
                for dtype in ("float32", "float64", "int64", "int32"):
                    if dtype.startswith("int") and float(cval) != int(cval):
                        continue
                    if dtype in ("int32", "float64") and ctx.tier == "quick" and (idx % 3):
                        idx += 1
                        continue
                    idx += 1
                    const_kind = ("init", "node")[idx % 2]
                    xdecl = (["N"], [2, "N"], [])[idx % 3]
                    carr = np.full(shp, cval, dtype=dtype)
                    stored = carr.reshape(-1)[0].item()           # the value really in the model (after rounding to dtype)
                    fr = Fraction(stored)
                    is_exact = fr == t
                    host = _host(onnx_op, commuted, carr, dtype, xdecl, const_kind)
                    new = U.apply_rule(host, mod.rules)
                    fired = U.ops(new) == ["Identity"]
                    if not fired and U.ops(new) != [onnx_op]:
                        ctx.tie_broken("correspondence", f"noop:{opname}", f"unexpected result ops {U.ops(new)}")
                    ctx.case(("noop", opname, cls if not is_exact else "exact", len(shp), dtype, len(xdecl)))
                    cases.append(f"({opname}, {cnat(len(shp))}, ({cz(fr.numerator)}, {cz(fr.denominator)}), {common.cbool(fired)})")
                    meta.append((opname, shp, stored, dtype, fired))
                    replay = {"family": "noop", "op": opname, "constant": repr(stored), "constant_shape": list(shp), "dtype": dtype,
                              "x_shape": xdecl, "const_kind": const_kind}
                    if not fired:
                        continue
                    fired_n += 1
                    feeds = []
                    for k in range(3):
                        conc = [d if isinstance(d, int) else (0 if k == 2 else 5) for d in xdecl]
                        a = U.int_data(conc, dtype, k)
                        if k == 0 and a.size:
                            a.reshape(-1)[0] = 1048576
                            a.reshape(-1)[-1] = 0
                        if opname == "DivR" and False:
                            pass
                        feeds.append({"x": a})
                    key = "C05:noop:approximately-equal-constant" if not is_exact else f"C05:noop:{opname}:differs"
                    good, _ = U.oracle(ctx, key, f"{opname} with constant {stored!r} ({dtype}, shape {shp})", host, new, feeds, replay)
                    if not is_exact:
                        approx_fired += 1
                        if good:   # the property says such a rule must not fire, whatever the sampled inputs show
                            ctx.violation(key, f"{opname} fired with constant {stored!r} which is only approximately {t}", replay)
    ctx.sample({"family": "noop", "case": [str(x) for x in meta[len(meta) // 3]]})
    ok, vals_, raw = ctx.coq_eval(["OV.Rules.NoOp"], f"Definition cases : list case := {clist(cases)}.\nEval vm_compute in (disagreeing 0 cases).", name="noop")
    if not ok:
        ctx.tie_broken("correspondence", "noop:model-evaluation", raw[-800:])
        return
    bad = common.parse_nat_list(vals_[0])
    for i in bad[:5]:
        ctx.tie_broken("correspondence", f"noop:{meta[i][0]}", f"constant {meta[i][2]!r} shape {meta[i][1]} {meta[i][3]}: implementation fired={meta[i][4]}, model differs")
    ctx.obligation("correspondence noop: the real rule set fires only where Rules/NoOp.v `check` (isclose on the exact rational, rank 0) holds", not bad)
    U.guard(ctx, "noop", fired_n - approx_fired, 10)
    ctx.cover(noop_instances=len(cases), noop_fired=fired_n, noop_fired_on_inexact_constant=approx_fired, noop_model_disagreements=len(bad))

    # near misses outside the arithmetic model: non-constant operand, non-commutative forms 0 - x and 1 / x
    from onnx import helper
    nm = 0
    for opname in sorted(OPS):
        onnx_op, commuted = OPS[opname]
        host = _host(onnx_op, commuted, np.array(TARGET[opname], dtype="float32"), "float32", ["N"], "init", nonconst=True)
        new = U.apply_rule(host, mod.rules)
        ctx.case(("noop-near-miss", opname, "graph-input"))
        nm += 1
        if U.ops(new) != [onnx_op]:
            ctx.violation("C05:noop:near-miss:non-constant", f"{opname}: fired although the operand is a graph input", {"family": "noop", "op": opname})
    for onnx_op, t in (("Sub", 0), ("Div", 1)):
        for dtype in ("float32", "int64"):
            host = _host(onnx_op, True, np.array(t, dtype=dtype), dtype, ["N"], "init")
            new = U.apply_rule(host, mod.rules)
            ctx.case(("noop-near-miss", onnx_op, "commuted", dtype))
            nm += 1
            if U.ops(new) != [onnx_op]:
                x = np.array([1, 2, -4], dtype=dtype)
                U.oracle(ctx, f"C05:noop:near-miss:commuted-{onnx_op}", f"{t} {onnx_op} x rewritten", host, new, [{"x": x}], {"family": "noop", "op": onnx_op})

    # the "constant" is an initializer that is also a graph input: a caller may override it
    host = U.model([helper.make_node("Mul", ["x", "c"], ["y"])], [("x", "float32", ["N"]), ("c", "float32", [])], [("y", "float32", ["N"])],
                   inits=[U.const_arr("c", np.array(1, np.float32))])
    xs = np.array([1, 2, 3], np.float32)
    U.overridable_probe(ctx, "noop", "x * c (c defaults to 1)", host, list(mod.rules), [{"x": xs}, {"x": xs, "c": np.array(5, np.float32)}, {"x": xs[:0], "c": np.array(2, np.float32)}])

    # Dropout: ratio / training_mode exist as *attributes* only below opset 12 (ratio) -- attribute values are compared exactly
    drop = 0
    for opset, attrs, nout, expect in [(10, {"ratio": 0.0}, 1, True), (7, {"ratio": 0.0}, 1, True), (10, {"ratio": 0.0}, 2, False), (10, {"ratio": 0.5}, 1, False),
                                       (10, {}, 1, False), (10, {"ratio": 1e-9}, 1, False), (7, {"ratio": 1.0}, 1, False), (13, {}, 1, False), (13, {}, 2, False)]:
        outs = ["y", "mask"][:nout]
        host = U.model([helper.make_node("Dropout", ["x"], outs, **attrs)], [("x", "float32", ["N"])],
                       [("y", "float32", ["N"])] + ([("mask", "bool", ["N"])] if nout == 2 else []), opset=opset)
        new = U.apply_rule(host, mod.rules)
        fired = U.ops(new) == ["Identity"]
        ctx.case(("dropout", opset, tuple(sorted(attrs.items())), nout))
        drop += 1
        if fired != expect:
            if fired:
                pass  # firing more often is only a problem if the oracle below disagrees
            else:
                ctx.tie_broken("correspondence", "noop:dropout", f"opset {opset} attrs {attrs} outputs {nout}: expected to fire")
        if fired:
            feeds = [{"x": U.int_data([n], "float32", k)} for k, n in ((0, 5), (1, 4), (2, 0))]
            U.oracle(ctx, f"C05:noop:dropout:opset{opset}", f"Dropout opset {opset} {attrs}", host, new, feeds, {"family": "noop", "op": "Dropout", "opset": opset, "attrs": attrs})
    # opset >= 12: ratio / training_mode are inputs
    for ratio, tm in ((0.0, None), (0.5, False), (0.0, False)):
        ins = ["x", "r"] + (["tm"] if tm is not None else [])
        inits = [U.const_arr("r", np.array(ratio, np.float32))] + ([U.const_arr("tm", np.array(tm, np.bool_))] if tm is not None else [])
        host = U.model([helper.make_node("Dropout", ins, ["y"])], [("x", "float32", ["N"])], [("y", "float32", ["N"])], inits=inits, opset=13)
        new = U.apply_rule(host, mod.rules)
        ctx.case(("dropout13", ratio, tm))
        drop += 1
        if U.ops(new) == ["Identity"]:
            feeds = [{"x": U.int_data([n], "float32", k)} for k, n in ((0, 5), (1, 4), (2, 0))]
            U.oracle(ctx, "C05:noop:dropout:opset13", "Dropout-13 with inputs", host, new, feeds, {"family": "noop", "op": "Dropout13", "ratio": ratio})
    ctx.cover(noop_near_misses=nm, noop_dropout_instances=drop)
    ctx.assume("no-op rules: float rounding of x*c, x+c is not modelled (exact rationals); isclose is evaluated exactly in Coq, the generated "
               "constants stay away from the tolerance boundary where Python's double arithmetic could differ")
    ctx.assume("Dropout with attribute `ratio` (opset 7-11) is inference-only: output = input (operator document); measured on both engines")
