(* C07: a replacement returning existing values, several pattern outputs at once (repaired variant): the graph outputs
   keep their names, read in order. *)
From Coq Require Import List String Bool Arith Lia.
Require Import OV.Graph.Syntax OV.Rewrite.State OV.Rewrite.StateProofs OV.Rewrite.Naming OV.Rewrite.NamingProofs.
Import ListNotations.
Local Open Scope string_scope.
Local Open Scope list_scope.

Lemma renamed_names : forall o x vs outs, ~ In x outs ->
  names_of_objects (map (fun y => if Nat.eqb y o then x else y) outs) (dset Nat.eqb x (name_of o vs) vs)
  = names_of_objects outs vs.
Proof.
  intros o x vs outs Hx. unfold names_of_objects. rewrite map_map. apply map_ext_in. intros y Hy. unfold name_of at 1.
  destruct (Nat.eqb y o) eqn:E.
  - apply Nat.eqb_eq in E. subst y. rewrite (dget_dset_same Nat.eqb nat_eqb_eq). reflexivity.
  - rewrite (dget_dset_other Nat.eqb nat_eqb_eq); auto. intro; subst. contradiction.
Qed.

Lemma in_subst : forall o x outs y, In y (map (fun z => if Nat.eqb z o then x else z) outs) -> y = x \/ In y outs.
Proof.
  intros o x outs y H. apply in_map_iff in H. destruct H as [z [E Hz]]. destruct (Nat.eqb z o); subst; auto.
Qed.

Section Multi.
  Variables (created pinned outs0 : list nat) (fresh0 : nat).
  Hypothesis Houts : forall y, In y outs0 -> In y pinned /\ ~ In y created /\ y < fresh0.

  (* done: the replacement outputs handled so far *)
  Definition inv (st : vals * list nat * nat * nat) (done : list nat) : Prop :=
    fresh0 <= snd (fst st) /\ (forall d, In d done -> d < fresh0) /\
    forall y, In y (snd (fst (fst st))) -> In y outs0 \/ In y done \/ fresh0 <= y < snd (fst st).

  Lemma multi_step : forall pairs st done,
    inv st done -> NoDup (map snd pairs) ->
    (forall n, In n (map snd pairs) -> ~ In n done /\ n < fresh0) ->
    names_of_objects (snd (fst (fst (fold_left (splice1 true created pinned outs0) pairs st))))
                     (fst (fst (fst (fold_left (splice1 true created pinned outs0) pairs st))))
    = names_of_objects (snd (fst (fst st))) (fst (fst (fst st))).
  Proof.
    induction pairs as [|[o n] t IH]; intros st done Hinv Hnd Hn; cbn [fold_left]; auto.
    destruct st as [[[vs outs] fr] k]. destruct Hinv as [Hfr [Hdn Hin]]. cbn [fst snd] in *.
    inversion Hnd as [|? ? Hnot Hnd']; subst. cbn [map snd] in Hn.
    destruct (Hn n (or_introl eq_refl)) as [Hdone Hlt].
    assert (Hn' : forall m, In m (map snd t) -> ~ In m (n :: done) /\ m < fresh0).
    { intros m Hm. destruct (Hn m (or_intror Hm)) as [A B]. split; auto. intros [->|Q]; auto. }
    assert (Hdn' : forall d, In d (n :: done) -> d < fresh0) by (intros d [<-|Q]; auto).
    assert (Rn : has n created = true \/ has n pinned = false -> ~ In n outs).
    { intros C Q. destruct (Hin n Q) as [Q0|[Q1|Q2]]; [|contradiction|lia].
      destruct (Houts n Q0) as [P [NC _]]. destruct C as [C|C].
      - apply has_In in C. contradiction.
      - apply has_In in P. congruence. }
    assert (Rf : ~ In fr outs).
    { intro Q. destruct (Hin fr Q) as [Q0|[Q1|Q2]]; [| |lia].
      - destruct (Houts fr Q0) as [_ [_ L]]. lia.
      - apply Hdn in Q1. lia. }
    assert (Sub : forall x fr', fr <= fr' -> (x = n \/ x = fr /\ fr < fr') ->
              forall y, In y (map (fun z => if Nat.eqb z o then x else z) outs) ->
                        In y outs0 \/ In y (n :: done) \/ fresh0 <= y < fr').
    { intros x fr' Hle Hx y Hy. apply in_subst in Hy. destruct Hy as [->|Hy].
      - destruct Hx as [->|[-> L]]; [right; left; left; reflexivity | right; right; lia].
      - destruct (Hin y Hy) as [A|[A|A]]; auto. right. left. right. exact A. right. right. lia. }
    assert (Keep : forall y, In y outs -> In y outs0 \/ In y (n :: done) \/ fresh0 <= y < fr).
    { intros y Hy. destruct (Hin y Hy) as [A|[A|A]]; auto. right. left. right. exact A. }
    assert (E : names_of_objects (snd (fst (fst (splice1 true created pinned outs0 (vs, outs, fr, k) (o, n)))))
                                 (fst (fst (fst (splice1 true created pinned outs0 (vs, outs, fr, k) (o, n)))))
                = names_of_objects outs vs /\
                inv (splice1 true created pinned outs0 (vs, outs, fr, k) (o, n)) (n :: done)).
    { unfold splice1, inv. cbv zeta. cbn [negb orb].
      destruct (has n created) eqn:C; [|destruct (has o outs0) eqn:G; [destruct (has n pinned) eqn:P|]]; cbn [negb orb fst snd].
      - split; [apply renamed_names; apply Rn; left; reflexivity|].
        split; auto. split; auto. apply (Sub n fr); auto.
      - split; [apply renamed_names; exact Rf|].
        split; [lia|]. split; auto. apply (Sub fr (S fr)); auto.
      - split; [apply renamed_names; apply Rn; right; reflexivity|].
        split; auto. split; auto. apply (Sub n fr); auto.
      - split; auto. }
    destruct E as [E1 E2]. rewrite (IH _ (n :: done) E2 Hnd' Hn'). exact E1.
  Qed.
End Multi.

Lemma map_snd_combine : forall (A B : Type) (a : list A) (b : list B), List.length a = List.length b -> map snd (combine a b) = b.
Proof. induction a as [|x t IH]; intros [|y u] H; cbn in *; try discriminate; auto. inversion H. rewrite IH; auto. Qed.

(* several pattern outputs at once: distinct replacement outputs, all of them objects that exist before the splice *)
Theorem returned_value_fixed_output_names : forall created pinned olds news vs outs fresh r,
  splice_names true created pinned false olds news vs outs fresh = Some r ->
  List.length olds = List.length news -> NoDup news -> (forall n, In n news -> n < fresh) ->
  (forall y, In y outs -> In y pinned /\ ~ In y created /\ y < fresh) ->
  names_of_objects (snd (fst (fst r))) (fst (fst (fst r))) = names_of_objects outs vs.
Proof.
  unfold splice_names. cbn [andb]. intros created pinned olds news vs outs fresh r H L Hnd Hlt Hout. inversion H; subst r. clear H.
  apply (multi_step created pinned outs fresh Hout (combine olds news) (vs, outs, fresh, 0) []).
  - unfold inv. cbn. split; [lia|]. split; [intros d Hd; destruct Hd | intros y Hy; left; exact Hy].
  - rewrite map_snd_combine; auto.
  - rewrite map_snd_combine; auto.
Qed.
