(* C10 -- operator schemas (onnx.defs), validity of a node against a schema, and the executable test
   "every node the old schema accepts is accepted by the new schema with the same reading of omitted
   attributes" (upward_compatb).  This is what the converter silently relies on for every node WITHOUT an
   adapter: visit_node only re-stamps it (node.version = to_version).
   No proofs in this file.  The schema table itself is regenerated from the installed onnx.defs into
   Gen/VersionSchemas.v by harness/c10_schemas.py. *)
From Coq Require Import ZArith List Bool String.
Import ListNotations.
Require Import OV.Version.Model.
Local Open Scope Z_scope.

(* ---------------------------------------------------------------- schemas *)
Inductive fopt := FSingle | FOptional | FVariadic.      (* OpSchema.FormalParameterOption *)

Record formal := Formal {
  fm_opt : fopt;
  fm_tvar : string;           (* type_str: a type-constraint variable ("T") or a concrete type ("tensor(float)") *)
  fm_types : list string;     (* allowed type strings (the constraint set; [type_str] when concrete) *)
  fm_homog : bool;            (* is_homogeneous: all actuals bound to this formal / type variable share one type *)
  fm_min : nat }.             (* min_arity (variadic) *)

Record attrdecl := AttrDecl {
  ad_name : string;
  ad_kind : Z;                (* AttributeProto.AttributeType enum value *)
  ad_req : bool;
  ad_default : option string }.   (* hex of the serialised default AttributeProto; None = no default *)

Record schema := Schema {
  sc_since : Z;
  sc_deprecated : bool;
  sc_ins : list formal;
  sc_outs : list formal;
  sc_attrs : list attrdecl }.

(* ---------------------------------------------------------------- the view of a node a schema judges *)
Record vnode := VNode {
  vn_ins : list (option string);      (* one per input: None = omitted (empty name), Some ty = type string of the value *)
  vn_outs : list (option string);
  vn_attrs : list (string * Z) }.     (* attribute name, AttributeType *)

Definition fopt_eqb (a b : fopt) : bool :=
  match a, b with FSingle, FSingle | FOptional, FOptional | FVariadic, FVariadic => true | _, _ => false end.
Definition smem (x : string) (l : list string) : bool := existsb (String.eqb x) l.
Definition ostr_eqb (a b : option string) : bool :=
  match a, b with Some x, Some y => String.eqb x y | None, None => true | _, _ => false end.

(* match actuals with formals: None = arity violation, otherwise the (formal, type) pairs of the
   actuals that are present.  A variadic formal takes everything that is left (OpSchema::Verify). *)
Fixpoint assign (fs : list formal) (xs : list (option string)) : option (list (formal * string)) :=
  match fs with
  | [] => match xs with [] => Some [] | _ => None end
  | f :: fr =>
    match fm_opt f with
    | FVariadic =>
      match fr with
      | [] =>
        if (fm_min f <=? List.length xs)%nat && forallb (fun x => match x with Some _ => true | None => false end) xs
        then Some (flat_map (fun x => match x with Some ty => [(f, ty)] | None => [] end) xs)
        else None
      | _ => None                       (* only the last formal may be variadic *)
      end
    | FSingle =>
      match xs with
      | Some ty :: xr => match assign fr xr with Some a => Some ((f, ty) :: a) | None => None end
      | _ => None
      end
    | FOptional =>
      match xs with
      | [] => assign fr []
      | None :: xr => assign fr xr
      | Some ty :: xr => match assign fr xr with Some a => Some ((f, ty) :: a) | None => None end
      end
    end
  end.

Definition typed (a : list (formal * string)) : bool :=
  forallb (fun p => smem (snd p) (fm_types (fst p))) a.

(* two present actuals bound to the same (homogeneous) type variable have the same type *)
Definition shares (f g : formal) : bool := fm_homog f && fm_homog g && String.eqb (fm_tvar f) (fm_tvar g).
Definition tv_consistent (a : list (formal * string)) : bool :=
  forallb (fun p => forallb (fun q => implb (shares (fst p) (fst q)) (String.eqb (snd p) (snd q))) a) a.

Definition find_decl (name : string) (ds : list attrdecl) : option attrdecl :=
  find (fun d => String.eqb (ad_name d) name) ds.
Definition attr_declared (ds : list attrdecl) (a : string * Z) : bool :=
  existsb (fun d => String.eqb (ad_name d) (fst a) && (ad_kind d =? snd a)) ds.
Definition attr_present (attrs : list (string * Z)) (name : string) : bool :=
  existsb (fun a => String.eqb (fst a) name) attrs.
Definition attrs_ok (ds : list attrdecl) (attrs : list (string * Z)) : bool :=
  forallb (attr_declared ds) attrs && forallb (fun d => implb (ad_req d) (attr_present attrs (ad_name d))) ds.

(* what onnx.checker (schema->Verify), type inference and every runtime check of a node *)
Definition node_valid (sc : schema) (x : vnode) : bool :=
  negb (sc_deprecated sc) &&
  match assign (sc_ins sc) (vn_ins x), assign (sc_outs sc) (vn_outs x) with
  | Some ai, Some ao => typed (ai ++ ao) && tv_consistent (ai ++ ao)
  | _, _ => false
  end && attrs_ok (sc_attrs sc) (vn_attrs x).

(* ---------------------------------------------------------------- upward compatibility, executable *)
Definition subset (a b : list string) : bool := forallb (fun x => smem x b) a.

(* the i-th formal of the new schema accepts what the i-th formal of the old one accepted *)
Definition formal_compat (o n : formal) : bool :=
  (fopt_eqb (fm_opt o) (fm_opt n) || (fopt_eqb (fm_opt o) FSingle && fopt_eqb (fm_opt n) FOptional))
  && subset (fm_types o) (fm_types n)
  && (fm_min n <=? fm_min o)%nat.

Definition is_variadic (f : formal) : bool := fopt_eqb (fm_opt f) FVariadic.

(* no formal removed; the ones added at the end are optional; variadic formals stay where they are
   (the last position) *)
Fixpoint formals_compat (fo fn : list formal) : bool :=
  match fo, fn with
  | [], _ => forallb (fun f => fopt_eqb (fm_opt f) FOptional) fn
  | o :: fo', n :: fn' =>
    formal_compat o n &&
    (if is_variadic o then match fo', fn' with [], [] => true | _, _ => false end else formals_compat fo' fn')
  | _ :: _, [] => false
  end.

(* wherever the new schema ties two positions to one type variable, the old one did *)
Definition tv_compat (pairs : list (formal * formal)) : bool :=
  forallb (fun p => forallb (fun q => implb (shares (snd p) (snd q)) (shares (fst p) (fst q))) pairs) pairs.

(* attributes: none removed, same kind, same default (an omitted attribute reads the same), an optional one
   does not become required; every attribute that is new is optional *)
Definition decl_compat (dn : list attrdecl) (o : attrdecl) : bool :=
  match find_decl (ad_name o) dn with
  | Some n => (ad_kind o =? ad_kind n) && ostr_eqb (ad_default o) (ad_default n)
  | None => false
  end.
Definition new_decl_optional (dold : list attrdecl) (n : attrdecl) : bool :=
  match find_decl (ad_name n) dold with Some o => implb (ad_req n) (ad_req o) | None => negb (ad_req n) end.
Definition attrs_compat (dold dn : list attrdecl) : bool :=
  forallb (decl_compat dn) dold && forallb (new_decl_optional dold) dn.

Definition upward_compatb (o n : schema) : bool :=
  negb (sc_deprecated n)
  && formals_compat (sc_ins o) (sc_ins n) && formals_compat (sc_outs o) (sc_outs n)
  && tv_compat (combine (sc_ins o) (sc_ins n) ++ combine (sc_outs o) (sc_outs n))
  && attrs_compat (sc_attrs o) (sc_attrs n).

(* ---------------------------------------------------------------- histories and the table obligation *)
(* history of one operator: the schema in force at the lowest supported opset followed by every later
   version up to the highest supported opset, ascending *)
Fixpoint sch_at (h : list schema) (v : Z) : option schema :=
  match h with
  | [] => None
  | a :: r => if sc_since a <=? v then (match sch_at r v with Some b => Some b | None => Some a end) else None
  end.

(* is an adapter registered for (op, from_version k, up)?  keys as in Gen/VersionTables.registry_keys *)
Definition adapted_at (keys : list (string * string * Z * bool)) (op : string) (k : Z) : bool :=
  existsb (fun key => let '(d, o, v, up) := key in String.eqb d "" && String.eqb o op && (v =? k) && up) keys.

(* consecutive versions: ascending, and either an adapter takes nodes across the step or the new
   schema is upward compatible with the old one *)
Fixpoint chainb (ad : Z -> bool) (h : list schema) : bool :=
  match h with
  | a :: ((b :: _) as r) => (sc_since a <? sc_since b) && (ad (sc_since b - 1) || upward_compatb a b) && chainb ad r
  | _ => true
  end.

(* the steps that are neither adapted nor compatible: (op, new version) *)
Fixpoint chain_exceptions (ad : Z -> bool) (op : string) (h : list schema) : list (string * Z) :=
  match h with
  | a :: ((b :: _) as r) =>
    (if ad (sc_since b - 1) || upward_compatb a b then [] else [(op, sc_since b)]) ++ chain_exceptions ad op r
  | _ => []
  end.
Fixpoint ascending (h : list schema) : bool :=
  match h with
  | a :: ((b :: _) as r) => (sc_since a <? sc_since b) && ascending r
  | _ => true
  end.
Definition table_exceptions (keys : list (string * string * Z * bool)) (tbl : list (string * list schema)) : list (string * Z) :=
  flat_map (fun e => chain_exceptions (adapted_at keys (fst e)) (fst e) (snd e)) tbl.
Definition table_ascending (tbl : list (string * list schema)) : bool := forallb (fun e => ascending (snd e)) tbl.

(* the table with the listed exceptions waved through: what the generated obligation evaluates *)
Definition excepted (ex : list (string * Z)) (op : string) (k : Z) : bool :=
  existsb (fun e => String.eqb (fst e) op && (snd e =? k + 1)) ex.
Definition table_okb (keys : list (string * string * Z * bool)) (ex : list (string * Z)) (tbl : list (string * list schema)) : bool :=
  forallb (fun e => chainb (fun k => adapted_at keys (fst e) k || excepted ex (fst e) k) (snd e)) tbl.

(* no listed exception for op lies in (s, t] *)
Definition clear_of (ex : list (string * Z)) (op : string) (s t : Z) : bool :=
  forallb (fun e => negb (String.eqb (fst e) op && (s <? snd e) && (snd e <=? t))) ex.

Fixpoint hist_of (tbl : list (string * list schema)) (op : string) : option (list schema) :=
  match tbl with
  | [] => None
  | (o, h) :: r => if String.eqb o op then Some h else hist_of r op
  end.

(* a node view is valid for operator op at opset v *)
Definition valid_at (tbl : list (string * list schema)) (op : string) (v : Z) (x : vnode) : bool :=
  match hist_of tbl op with
  | Some h => match sch_at h v with Some sc => node_valid sc x | None => false end
  | None => false
  end.

(* ---------------------------------------------------------------- documented semantics of re-stamped operators *)
(* classification of a version step whose doc string changed (made by reading both doc strings; Gen/VersionDocSteps.v) *)
Inductive docclass := DWidening | DNeutralAttr | DEditorial | DBehavioural.
Definition is_behavioural (c : docclass) : bool := match c with DBehavioural => true | _ => false end.
(* the steps documented as behavioural for which no adapter is registered *)
Definition behavioural_unadapted (keys : list (string * string * Z * bool)) (steps : list (string * Z * docclass)) : list (string * Z) :=
  flat_map (fun st => let '(op, v, c) := st in
                      if is_behavioural c && negb (adapted_at keys op (v - 1)) then [(op, v)] else []) steps.

(* ---------------------------------------------------------------- nodes of the conversion model, viewed *)
(* what Model.node does not carry: the type strings of the values and the kinds of the attributes that
   are not plain int/float/string/ints (graphs, tensors, ...), by name *)
Record ninfo := NInfo {
  ni_ityp : list string;              (* type of each input position (ignored where the input is omitted) *)
  ni_otyp : list (option string);
  ni_kinds : list (string * Z) }.     (* kinds of AOther attributes; graph attributes (then_branch, body, ...) *)

Definition kind_of (info : ninfo) (a : string * attrv) : string * Z :=
  (fst a,
   match snd a with
   | AFlt _ => 1 | AInt _ => 2 | AStr _ => 3 | AInts _ => 7
   | AOther => match find (fun p => String.eqb (fst p) (fst a)) (ni_kinds info) with Some p => snd p | None => 0 end
   end).
Fixpoint zip_ins (pres : list bool) (tys : list string) : list (option string) :=
  match pres with
  | [] => []
  | b :: pr =>
    match tys with
    | [] => (if b then Some EmptyString else None) :: zip_ins pr []
    | ty :: tr => (if b then Some ty else None) :: zip_ins pr tr
    end
  end.
Definition graph_attrs (info : ninfo) (n : node) : list (string * Z) :=
  filter (fun p => (snd p =? 5) || (snd p =? 10)) (ni_kinds info).
(* the node as the schema sees it: op-independent part; version and subgraph *contents* play no role *)
Definition vnode_of (n : node) (info : ninfo) : vnode :=
  VNode (zip_ins (n_ins n) (ni_ityp info)) (ni_otyp info)
        (map (kind_of info) (n_attrs n) ++ graph_attrs info n).

(* every default-domain op in the (nested) node list satisfies q *)
Fixpoint quietb (q : string -> bool) (n : node) : bool :=
  match n with Node o d _ _ _ _ _ sb => (negb d || q o) && forallb (quietb q) sb end.
(* no adapter is registered for op at any version >= lo: a node of this op at version >= lo is only re-stamped *)
Definition no_adapter_from (keys : list (string * string * Z * bool)) (lo : Z) (op : string) : bool :=
  negb (existsb (fun key => let '(d, o, v, up) := key in String.eqb d "" && String.eqb o op && (lo <=? v) && up) keys).
Definition no_adapter (keys : list (string * string * Z * bool)) (op : string) : bool :=
  negb (existsb (fun key => let '(d, o, _, up) := key in String.eqb d "" && String.eqb o op && up) keys).
(* explicit node versions (under default-domain nodes) are not below lo *)
Fixpoint vergeb (lo : Z) (n : node) : bool :=
  match n with
  | Node _ d v _ _ _ _ sb => negb d || ((match v with Some x => lo <=? x | None => true end) && forallb (vergeb lo) sb)
  end.
