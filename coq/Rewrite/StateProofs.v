(* C07: proofs about OV.Rewrite.State (non-node parts of a model under a rewrite application). *)
From Coq Require Import List String ZArith Bool Arith Lia DecimalString DecimalNat FinFun.
Require Import OV.Graph.Syntax OV.Graph.Names OV.Rewrite.Apply OV.Rewrite.State.
Import ListNotations.
Local Open Scope string_scope.
Local Open Scope list_scope.

(* ---- dictionaries ---------------------------------------------------------------------------------------------- *)
Section DictFacts.
  Context {K V : Type} (eqb : K -> K -> bool).
  Hypothesis eqb_eq : forall a b, eqb a b = true <-> a = b.

  Lemma eqb_refl : forall a, eqb a a = true.
  Proof. intro a. apply eqb_eq. reflexivity. Qed.

  Lemma eqb_neq : forall a b, a <> b -> eqb a b = false.
  Proof. intros a b H. destruct (eqb a b) eqn:E; auto. apply eqb_eq in E. contradiction. Qed.

  Lemma eqb_sym_false : forall a b, eqb a b = false -> eqb b a = false.
  Proof. intros a b H. destruct (eqb b a) eqn:E; auto. apply eqb_eq in E. subst. rewrite eqb_refl in H. discriminate. Qed.

  Lemma dget_dset_same : forall k (v : V) d, dget eqb k (dset eqb k v d) = Some v.
  Proof.
    intros k v d. induction d as [|[k' v'] t IH]; simpl.
    - rewrite eqb_refl. reflexivity.
    - destruct (eqb k k') eqn:E; simpl; rewrite E; auto.
  Qed.

  Lemma dget_dset_other : forall k k' (v : V) d, k' <> k -> dget eqb k' (dset eqb k v d) = dget eqb k' d.
  Proof.
    intros k k' v d Hn. induction d as [|[k2 v2] t IH]; simpl.
    - rewrite (eqb_neq k' k Hn). reflexivity.
    - destruct (eqb k k2) eqn:E; simpl.
      + apply eqb_eq in E. subst k2. rewrite (eqb_neq k' k Hn). reflexivity.
      + destruct (eqb k' k2); auto.
  Qed.

  Lemma dget_dset : forall k k' (v : V) d,
    dget eqb k' (dset eqb k v d) = if eqb k' k then Some v else dget eqb k' d.
  Proof.
    intros. destruct (eqb k' k) eqn:E.
    - apply eqb_eq in E. subst. apply dget_dset_same.
    - apply dget_dset_other. intro H. subst. rewrite eqb_refl in E. discriminate.
  Qed.

  Lemma dset_absent : forall k (v : V) d, dget eqb k d = None -> dset eqb k v d = d ++ [(k, v)].
  Proof.
    intros k v d. induction d as [|[k' v'] t IH]; simpl; intro H; auto.
    destruct (eqb k k'); try discriminate. rewrite IH; auto.
  Qed.

  Lemma dset_keys_present : forall k (v : V) d, dget eqb k d <> None -> map fst (dset eqb k v d) = map fst d.
  Proof.
    intros k v d. induction d as [|[k' v'] t IH]; simpl; intro H; try congruence.
    destruct (eqb k k'); simpl; auto. rewrite IH; auto.
  Qed.

  Lemma dsetdefault_get : forall k k' (v : V) d,
    dget eqb k' (dsetdefault eqb k v d) = match dget eqb k' d with Some x => Some x | None => if eqb k' k then Some v else None end.
  Proof.
    intros. unfold dsetdefault, dhas. destruct (dget eqb k d) eqn:E.
    - destruct (dget eqb k' d) eqn:E'; auto. destruct (eqb k' k) eqn:Q; auto. apply eqb_eq in Q. subst. congruence.
    - rewrite dget_dset. destruct (eqb k' k) eqn:Q.
      + apply eqb_eq in Q. subst. rewrite E. reflexivity.
      + destruct (dget eqb k' d); auto.
  Qed.

  (* assignments to different keys commute (as finite maps) *)
  Lemma dset_commute : forall k1 k2 (v1 v2 : V) d k, k1 <> k2 ->
    dget eqb k (dset eqb k1 v1 (dset eqb k2 v2 d)) = dget eqb k (dset eqb k2 v2 (dset eqb k1 v1 d)).
  Proof.
    intros. rewrite !dget_dset. destruct (eqb k k1) eqn:E1, (eqb k k2) eqn:E2; auto.
    apply eqb_eq in E1. apply eqb_eq in E2. congruence.
  Qed.

  Lemma dset_idem : forall k (v : V) d, dset eqb k v (dset eqb k v d) = dset eqb k v d.
  Proof.
    intros k v d. induction d as [|[k' v'] t IH]; simpl.
    - rewrite eqb_refl. reflexivity.
    - destruct (eqb k k') eqn:E; simpl; rewrite E; auto. rewrite IH. reflexivity.
  Qed.
End DictFacts.

Lemma gkey_eqb_eq : forall a b, gkey_eqb a b = true <-> a = b.
Proof.
  intros [a1 a2] [b1 b2]. unfold gkey_eqb. simpl. rewrite andb_true_iff, Nat.eqb_eq, String.eqb_eq.
  split; [intros [-> ->]; auto | intro H; inversion H; auto].
Qed.

Lemma fkey_eqb_eq : forall a b, fkey_eqb a b = true <-> a = b.
Proof.
  intros [[a1 a2] a3] [[b1 b2] b3]. unfold fkey_eqb. simpl. rewrite !andb_true_iff, !String.eqb_eq.
  split; [intros [[-> ->] ->]; auto | intro H; inversion H; auto].
Qed.

Lemma mem_In : forall x l, mem x l = true <-> In x l.
Proof.
  intros x l. unfold mem. rewrite existsb_exists. split.
  - intros [y [H1 H2]]. apply String.eqb_eq in H2. subst. auto.
  - intro H. exists x. split; auto. apply String.eqb_refl.
Qed.

(* ---- first_free: fresh names / overloads ------------------------------------------------------------------------- *)
Lemma first_free_sound : forall f used fuel k j, first_free f used fuel k = Some j ->
  mem (f j) used = false /\ k <= j /\ forall m, k <= m < j -> mem (f m) used = true.
Proof.
  intros f used fuel. induction fuel as [|fu IH]; simpl; intros k j H; try discriminate.
  destruct (mem (f k) used) eqn:E.
  - apply IH in H. destruct H as [H1 [H2 H3]]. split; auto. split; [lia|].
    intros m Hm. destruct (Nat.eq_dec m k); [subst; auto | apply H3; lia].
  - inversion H; subst. split; auto. split; [lia | intros; lia].
Qed.

Lemma first_free_none : forall f used fuel k, first_free f used fuel k = None ->
  forall m, k <= m < k + fuel -> mem (f m) used = true.
Proof.
  intros f used fuel. induction fuel as [|fu IH]; simpl; intros k H m Hm; try lia.
  destruct (mem (f k) used) eqn:E; try discriminate.
  destruct (Nat.eq_dec m k); [subst; auto | apply (IH (S k)); auto; lia].
Qed.

(* pigeonhole: an injective enumeration cannot have S (length used) consecutive values all inside `used` *)
Lemma first_free_total : forall f used k, (forall a b, f a = f b -> a = b) ->
  exists j, first_free f used (S (List.length used)) k = Some j.
Proof.
  intros f used k Hinj. destruct (first_free f used (S (List.length used)) k) eqn:E; eauto. exfalso.
  pose proof (first_free_none _ _ _ _ E) as H.
  assert (Hincl : incl (map f (seq k (S (List.length used)))) used).
  { intros x Hx. apply in_map_iff in Hx. destruct Hx as [m [<- Hm]]. apply in_seq in Hm. apply mem_In. apply H. lia. }
  assert (Hnd : NoDup (map f (seq k (S (List.length used))))).
  { apply Injective_map_NoDup; [exact Hinj | apply seq_NoDup]. }
  pose proof (NoDup_incl_length Hnd Hincl) as L. rewrite map_length, seq_length in L. lia.
Qed.

Lemma nat_to_string_inj : forall a b, nat_to_string a = nat_to_string b -> a = b.
Proof.
  unfold nat_to_string. intros a b H.
  assert (Nat.to_uint a = Nat.to_uint b).
  { pose proof (NilEmpty.usu (Nat.to_uint a)). pose proof (NilEmpty.usu (Nat.to_uint b)). congruence. }
  apply (f_equal Nat.of_uint) in H0. rewrite !Unsigned.of_to in H0. exact H0.
Qed.

(* ---- functions: _get_new_overload returns a key that is not in the table, and always returns ------------------------ *)
Lemma overloads_of_In : forall dom name ov fs d, dget fkey_eqb (dom, name, ov) fs = Some d -> In ov (overloads_of dom name fs).
Proof.
  intros dom name ov fs d. unfold overloads_of. induction fs as [|[[[d1 n1] o1] v] t IH]; simpl; try discriminate.
  unfold fkey_eqb at 1. simpl.
  destruct (String.eqb dom d1) eqn:E1, (String.eqb name n1) eqn:E2; simpl;
    try (rewrite String.eqb_sym in E1); try (rewrite String.eqb_sym in E2); rewrite ?E1, ?E2; simpl; auto.
  destruct (String.eqb ov o1) eqn:E3; simpl; auto. apply String.eqb_eq in E3. subst. intros _. left. reflexivity.
Qed.

Lemma new_overload_fresh : forall dom name fs ov, new_overload dom name fs = Some ov ->
  dget fkey_eqb (dom, name, ov) fs = None.
Proof.
  unfold new_overload. intros dom name fs ov H.
  destruct (first_free nat_to_string (overloads_of dom name fs) (S (List.length (overloads_of dom name fs))) 1) eqn:E;
    simpl in H; try discriminate. inversion H; subst. apply first_free_sound in E. destruct E as [E _].
  destruct (dget fkey_eqb (dom, name, nat_to_string n) fs) eqn:G; auto.
  apply overloads_of_In in G. apply mem_In in G. congruence.
Qed.

Lemma new_overload_total : forall dom name fs, exists ov, new_overload dom name fs = Some ov.
Proof.
  intros. unfold new_overload.
  destruct (first_free_total nat_to_string (overloads_of dom name fs) 1 nat_to_string_inj) as [j Hj].
  rewrite Hj. simpl. eauto.
Qed.

(* add_function: exactly one new key, fresh; every other function untouched *)
Lemma add_function_frame : forall site isfn i q fs ov fs', add_function site isfn i q fs = Some (ov, fs') ->
  dget fkey_eqb (fq_dom q, fq_name q, ov) fs = None /\
  (exists fd, dget fkey_eqb (fq_dom q, fq_name q, ov) fs' = Some fd /\ fd_body fd = fq_body q /\
              forall d, In d (map fst (fd_imports fd)) -> In d (fq_used q)) /\
  forall k, k <> (fq_dom q, fq_name q, ov) -> dget fkey_eqb k fs' = dget fkey_eqb k fs.
Proof.
  unfold add_function. intros site isfn i q fs ov fs' H.
  destruct (new_overload (fq_dom q) (fq_name q) fs) eqn:E; try discriminate. inversion H; subst. clear H.
  split; [apply new_overload_fresh; auto|]. split.
  - eexists. split; [apply (dget_dset_same fkey_eqb fkey_eqb_eq)|]. simpl. split; auto.
    intros d Hd. apply in_map_iff in Hd. destruct Hd as [[d' z] [<- Hd]]. apply filter_In in Hd. destruct Hd as [_ Hd].
    apply mem_In in Hd. exact Hd.
  - intros k Hk. apply (dget_dset_other fkey_eqb fkey_eqb_eq). exact Hk.
Qed.

Lemma add_function_total : forall site isfn i q fs, exists r, add_function site isfn i q fs = Some r.
Proof.
  intros. unfold add_function. destruct (new_overload_total (fq_dom q) (fq_name q) fs) as [ov ->]. eauto.
Qed.

(* the extracted function imports every domain its matched nodes use, provided the parent does *)
Lemma add_function_imports_cover : forall site isfn i q fs ov fs' fd d,
  add_function site isfn i q fs = Some (ov, fs') ->
  dget fkey_eqb (fq_dom q, fq_name q, ov) fs' = Some fd ->
  In d (fq_used q) -> In d (map fst (parent_imports site isfn i)) -> In d (map fst (fd_imports fd)).
Proof.
  unfold add_function. intros site isfn i q fs ov fs' fd d H G Hu Hp.
  destruct (new_overload (fq_dom q) (fq_name q) fs) eqn:E; try discriminate. inversion H; subst. clear H.
  rewrite (dget_dset_same fkey_eqb fkey_eqb_eq) in G. inversion G; subst. simpl.
  apply in_map_iff in Hp. destruct Hp as [[d' z] [Hd Hp]]. simpl in Hd. subst d'.
  apply in_map_iff. exists (d, z). split; auto. apply filter_In. split; auto. apply mem_In. exact Hu.
Qed.

(* ---- opset imports ------------------------------------------------------------------------------------------------ *)
Local Notation gget := (dget gkey_eqb).

Lemma option_eq_dec_Z : forall a b : option Z, {a = b} + {a <> b}.
Proof. decide equality. apply Z.eq_dec. Qed.

Lemma add_import1_none : forall gid ops, fold_left (add_import1 gid) ops None = None.
Proof. induction ops; simpl; auto. Qed.

Lemma add_import1_spec : forall gid i dv i', add_import1 gid (Some i) dv = Some i' ->
  (forall k v, gget k i = Some v -> gget k i' = Some v) /\
  (forall k, gget k i' <> gget k i -> k = (gid, fst dv)) /\
  gget (gid, fst dv) i' <> None.
Proof.
  intros gid i [d v] i'. simpl. destruct (gget (gid, d) i) as [cur|] eqn:E.
  - destruct v as [z|].
    + destruct (Z.eqb z cur); intro H; inversion H; subst. repeat split; auto; congruence.
    + intro H; inversion H; subst. repeat split; auto; congruence.
  - intro H. inversion H; subst. clear H. split; [|split].
    + intros k v' G. rewrite (dget_dset gkey_eqb gkey_eqb_eq). destruct (gkey_eqb k (gid, d)) eqn:Q; auto.
      apply gkey_eqb_eq in Q. subst. congruence.
    + intros k G. rewrite (dget_dset gkey_eqb gkey_eqb_eq) in G. destruct (gkey_eqb k (gid, d)) eqn:Q.
      * apply gkey_eqb_eq in Q. exact Q.
      * congruence.
    + rewrite (dget_dset_same gkey_eqb gkey_eqb_eq). discriminate.
Qed.

Lemma add_imports_to_spec : forall gid ops i i', add_imports_to gid ops i = Some i' ->
  (forall k v, gget k i = Some v -> gget k i' = Some v) /\
  (forall k, gget k i' <> gget k i -> fst k = gid /\ In (snd k) (map fst ops)) /\
  (forall d, In d (map fst ops) -> gget (gid, d) i' <> None).
Proof.
  unfold add_imports_to. intros gid ops. induction ops as [|dv t IH]; intros i i' H; cbn [fold_left map In] in *.
  - inversion H; subst. repeat split; auto; try congruence.
  - destruct (add_import1 gid (Some i) dv) as [i1|] eqn:E; [|rewrite add_import1_none in H; discriminate].
    apply add_import1_spec in E. destruct E as [E1 [E2 E3]]. apply IH in H. destruct H as [H1 [H2 H3]].
    split; [|split].
    + intros k v G. apply H1. apply E1. exact G.
    + intros k G. destruct (option_eq_dec_Z (gget k i1) (gget k i)) as [Q|Q].
      * rewrite <- Q in G. destruct (H2 k G) as [A B]. auto.
      * apply E2 in Q. subst k. simpl. auto.
    + intros d [<-|Hd]; [|apply H3; auto].
      destruct (gget (gid, fst dv) i1) eqn:Q; try congruence. apply H1 in Q. congruence.
Qed.

Lemma some_neq_none : forall (A : Type) (o : option A) (v : A), o = Some v -> o <> None.
Proof. intros; congruence. Qed.

Lemma owner_step_spec : forall site owner d (i : list (gkey * Z)),
  let i' := match gget (site, d) i with Some z => dsetdefault gkey_eqb (owner, d) z i | None => i end in
  (forall k v, gget k i = Some v -> gget k i' = Some v) /\
  (forall k, gget k i' <> gget k i -> k = (owner, d)) /\
  (gget (site, d) i <> None -> gget (owner, d) i' <> None).
Proof.
  intros site owner d i. simpl. destruct (gget (site, d) i) as [z|] eqn:E.
  - split; [|split].
    + intros k v G. rewrite (dsetdefault_get gkey_eqb gkey_eqb_eq). rewrite G. reflexivity.
    + intros k G. rewrite (dsetdefault_get gkey_eqb gkey_eqb_eq) in G. destruct (gget k i) eqn:Q; try congruence.
      destruct (gkey_eqb k (owner, d)) eqn:R; try congruence. apply gkey_eqb_eq in R. exact R.
    + intros _. rewrite (dsetdefault_get gkey_eqb gkey_eqb_eq). destruct (gget (owner, d) i); try discriminate.
      rewrite (eqb_refl gkey_eqb gkey_eqb_eq). discriminate.
  - split; [|split]; auto; congruence.
Qed.

Lemma owner_takes_spec : forall site owner ops i,
  (forall k v, gget k i = Some v -> gget k (owner_takes site owner ops i) = Some v) /\
  (forall k, gget k (owner_takes site owner ops i) <> gget k i -> fst k = owner /\ In (snd k) (map fst ops)) /\
  (forall d, In d (map fst ops) -> gget (site, d) i <> None -> gget (owner, d) (owner_takes site owner ops i) <> None).
Proof.
  unfold owner_takes. intros site owner ops. induction ops as [|[d v] t IH]; intro i; cbn [fold_left map In fst].
  - repeat split; auto; try congruence.
  - pose proof (owner_step_spec site owner d i) as S. cbv zeta in S. destruct S as [S1 [S2 S3]].
    set (i1 := match gget (site, d) i with Some z => dsetdefault gkey_eqb (owner, d) z i | None => i end) in *.
    destruct (IH i1) as [H1 [H2 H3]]. split; [|split].
    + intros k v0 G. apply H1. apply S1. exact G.
    + intros k G. destruct (option_eq_dec_Z (gget k i1) (gget k i)) as [Q|Q].
      * rewrite <- Q in G. destruct (H2 k G). auto.
      * apply S2 in Q. subst k. simpl. auto.
    + intros d' [<-|Hd] Hs.
      * apply S3 in Hs. destruct (gget (owner, d) i1) eqn:Q; try congruence. apply H1 in Q. congruence.
      * apply H3; auto. destruct (gget (site, d') i) eqn:Q; try congruence. apply S1 in Q. congruence.
Qed.

(* try_rewrite's two calls of _update_opset_imports (and the repair): existing imports never change; the only keys that
   change are (site | model graph | owner when repaired, a domain the replacement uses); afterwards the site and the model
   graph import every such domain, the owner too when repaired *)
Theorem add_imports_spec : forall fx site owner ops i i', add_imports fx site owner ops i = Some i' ->
  (forall k v, gget k i = Some v -> gget k i' = Some v) /\
  (forall k, gget k i' <> gget k i ->
     (fst k = site \/ fst k = 0 \/ (fx_owner fx = true /\ fst k = owner)) /\ In (snd k) (map fst ops)) /\
  imports_cover site ops i' = true /\ imports_cover 0 ops i' = true /\
  (fx_owner fx = true -> imports_cover owner ops i' = true).
Proof.
  unfold add_imports. intros fx site owner ops i i' H.
  destruct (add_imports_to site ops i) as [i1|] eqn:E1; try discriminate.
  destruct (add_imports_to 0 ops i1) as [i2|] eqn:E2; try discriminate. inversion H; subst i'. clear H.
  apply add_imports_to_spec in E1. destruct E1 as [A1 [A2 A3]].
  apply add_imports_to_spec in E2. destruct E2 as [B1 [B2 B3]].
  destruct (owner_takes_spec site owner ops i2) as [C1 [C2 C3]].
  assert (M : forall k v, gget k i = Some v ->
              gget k (if fx_owner fx then owner_takes site owner ops i2 else i2) = Some v).
  { intros k v G. apply A1 in G. apply B1 in G. destruct (fx_owner fx); auto. }
  assert (M2 : forall k v, gget k i2 = Some v ->
              gget k (if fx_owner fx then owner_takes site owner ops i2 else i2) = Some v).
  { intros k v G. destruct (fx_owner fx); auto. }
  assert (cover : forall g, (forall d, In d (map fst ops) -> gget (g, d) i2 <> None) ->
            imports_cover g ops (if fx_owner fx then owner_takes site owner ops i2 else i2) = true).
  { intros g Hg. unfold imports_cover. apply forallb_forall. intros dv Hdv. unfold dhas.
    assert (Hin : In (fst dv) (map fst ops)) by (apply in_map; auto).
    apply Hg in Hin. destruct (gget (g, fst dv) i2) eqn:Q; try congruence. apply M2 in Q. rewrite Q. reflexivity. }
  split; [exact M|]. split; [|split; [|split]].
  - intros k G.
    destruct (option_eq_dec_Z (gget k i2) (gget k i)) as [Q|Q].
    + destruct (fx_owner fx) eqn:F; [|congruence]. rewrite <- Q in G. destruct (C2 k G). auto.
    + destruct (option_eq_dec_Z (gget k i1) (gget k i)) as [R|R].
      * rewrite <- R in Q. destruct (B2 k Q). auto.
      * destruct (A2 k R). auto.
  - apply cover. intros d Hd. specialize (A3 d Hd). destruct (gget (site, d) i1) eqn:Q; try congruence. apply B1 in Q. congruence.
  - apply cover. exact B3.
  - intro F. rewrite F. unfold imports_cover. apply forallb_forall. intros dv Hdv. unfold dhas.
    assert (Hin : In (fst dv) (map fst ops)) by (apply in_map; auto).
    assert (gget (site, fst dv) i2 <> None).
    { specialize (A3 _ Hin). destruct (gget (site, fst dv) i1) eqn:Q; try congruence. apply B1 in Q. congruence. }
    specialize (C3 _ Hin H). destruct (gget (owner, fst dv) (owner_takes site owner ops i2)); congruence.
Qed.

(* validity of the imports of the SERIALIZED container: holds as is when the site is the container itself or the
   container is the model graph *)
Theorem add_imports_valid : forall fx site owner ops i i', add_imports fx site owner ops i = Some i' ->
  owner = site \/ owner = 0 \/ fx_owner fx = true -> imports_cover owner ops i' = true.
Proof.
  intros fx site owner ops i i' H O. apply add_imports_spec in H. destruct H as [_ [_ [H1 [H2 H3]]]].
  destruct O as [->|[->|F]]; auto.
Qed.

(* ... and fails as is for an If/Loop body (graph object 2) of a model-local function (graph object 1): the import goes
   to the body's own dictionary and to the model graph (finding C07:new-domain:match-inside-function-subgraph) *)
Definition ex_fn_sub_imports : list (gkey * Z) := [((0, ""), 18%Z); ((1, ""), 18%Z)].

Theorem fn_subgraph_imports_refuted :
  exists i', add_imports as_is 2 1 [("com.microsoft", Some 1%Z)] ex_fn_sub_imports = Some i' /\
             imports_cover 1 [("com.microsoft", Some 1%Z)] i' = false.
Proof. eexists. split; [vm_compute; reflexivity | vm_compute; reflexivity]. Qed.

Theorem fn_subgraph_imports_fixed : forall site owner ops i i',
  add_imports repaired site owner ops i = Some i' -> imports_cover owner ops i' = true.
Proof. intros. eapply add_imports_valid; eauto. Qed.

(* idempotence: a second visit with the same replacement (the rule firing again) changes nothing *)
Lemma add_imports_to_versions : forall gid ops i i', add_imports_to gid ops i = Some i' ->
  forall d z, In (d, Some z) ops -> gget (gid, d) i' = Some z.
Proof.
  unfold add_imports_to. intros gid ops. induction ops as [|dv t IH]; intros i i' H d z Hin; cbn [fold_left In] in *.
  - destruct Hin.
  - destruct (add_import1 gid (Some i) dv) as [i1|] eqn:E; [|rewrite add_import1_none in H; discriminate].
    destruct Hin as [->|Hin]; [|eapply IH; eauto].
    assert (G : gget (gid, d) i1 = Some z).
    { simpl in E. destruct (gget (gid, d) i) as [cur|] eqn:Q.
      - destruct (Z.eqb z cur) eqn:R; try discriminate. inversion E; subst. apply Z.eqb_eq in R. subst. exact Q.
      - inversion E; subst. apply (dget_dset_same gkey_eqb gkey_eqb_eq). }
    pose proof (add_imports_to_spec gid t i1 i' H) as [M _]. apply M. exact G.
Qed.

Lemma add_imports_to_rerun : forall gid ops i,
  (forall d v, In (d, v) ops -> gget (gid, d) i <> None /\ forall z, v = Some z -> gget (gid, d) i = Some z) ->
  add_imports_to gid ops i = Some i.
Proof.
  unfold add_imports_to. intros gid ops i. induction ops as [|[d v] t IH]; intro H; cbn [fold_left]; auto.
  destruct (H d v (or_introl eq_refl)) as [P Q].
  assert (E : add_import1 gid (Some i) (d, v) = Some i).
  { unfold add_import1. destruct (gget (gid, d) i) as [cur|] eqn:G; try congruence.
    destruct v as [z|]; auto. pose proof (Q z eq_refl) as Qz. destruct (Z.eqb z cur) eqn:R; auto.
    apply Z.eqb_neq in R. congruence. }
  rewrite E. apply IH. intros. apply H. right. auto.
Qed.

Lemma add_imports_to_stable : forall gid ops i i', add_imports_to gid ops i = Some i' ->
  forall j, (forall k v, gget k i' = Some v -> gget k j = Some v) -> add_imports_to gid ops j = Some j.
Proof.
  intros gid ops i i' H j M. apply add_imports_to_rerun. intros d v Hin.
  pose proof (add_imports_to_spec _ _ _ _ H) as [_ [_ C]].
  assert (Hd : In d (map fst ops)) by (apply in_map_iff; exists (d, v); auto).
  specialize (C d Hd). split.
  - destruct (gget (gid, d) i') eqn:Q; try congruence. apply M in Q. congruence.
  - intros z ->. apply M. eapply add_imports_to_versions; eauto.
Qed.

Theorem add_imports_idempotent : forall site owner ops i i',
  add_imports as_is site owner ops i = Some i' -> add_imports as_is site owner ops i' = Some i'.
Proof.
  unfold add_imports. simpl. intros site owner ops i i' H.
  destruct (add_imports_to site ops i) as [i1|] eqn:E1; try discriminate.
  destruct (add_imports_to 0 ops i1) as [i2|] eqn:E2; try discriminate. inversion H; subst i'. clear H.
  pose proof (add_imports_to_spec _ _ _ _ E2) as [B1 _].
  rewrite (add_imports_to_stable _ _ _ _ E1 i2 B1).
  rewrite (add_imports_to_stable _ _ _ _ E2 i2 (fun k v G => G)). reflexivity.
Qed.

(* the order of two visits matters only through the ValueError: an unversioned use followed by a versioned one *)
Example imports_order_matters_when_versions_conflict :
  (exists i1 i2, add_imports as_is 0 0 [("d", Some 5%Z)] [] = Some i1 /\ add_imports as_is 0 0 [("d", None)] i1 = Some i2) /\
  (exists i1, add_imports as_is 0 0 [("d", None)] [] = Some i1 /\ add_imports as_is 0 0 [("d", Some 5%Z)] i1 = None).
Proof. split; repeat eexists; vm_compute; reflexivity. Qed.

(* ---- initializers --------------------------------------------------------------------------------------------------- *)
Local Notation iget := (dget (V:=vname) gkey_eqb).

Lemma reg_inits_fst : forall site new i disp, fst (reg_inits site new i disp) = fst (reg_inits site new i []).
Proof.
  intros site new. induction new as [|[n t] rest IH]; intros i disp; simpl; auto.
  rewrite IH. symmetry. rewrite IH. reflexivity.
Qed.

(* frame: registrations under other names (and in other graph objects) are untouched *)
Lemma reg_inits_frame : forall site new i disp k,
  ~ In k (map (fun nt => (site, fst nt)) new) -> iget k (fst (reg_inits site new i disp)) = iget k i.
Proof.
  intros site new. induction new as [|[n t] rest IH]; intros i disp k Hk; simpl; auto.
  rewrite IH; [|intro; apply Hk; right; auto].
  apply (dget_dset_other gkey_eqb gkey_eqb_eq). intro; subst. apply Hk. left. reflexivity.
Qed.

(* every new initializer is registered under its name (names of one replacement distinct) *)
Lemma reg_inits_registered : forall site new i disp n t, NoDup (map fst new) -> In (n, t) new ->
  iget (site, n) (fst (reg_inits site new i disp)) = Some t.
Proof.
  intros site new. induction new as [|[n0 t0] rest IH]; intros i disp n t Hnd Hin; simpl in *; [destruct Hin|].
  inversion Hnd; subst. destruct Hin as [E|Hin].
  - inversion E; subst. rewrite reg_inits_frame.
    + apply (dget_dset_same gkey_eqb gkey_eqb_eq).
    + intro Hk. apply in_map_iff in Hk. destruct Hk as [[n' t'] [Hk1 Hk2]]. simpl in Hk1.
      apply H1. apply in_map_iff. exists (n', t'). split; [simpl; congruence | exact Hk2].
  - apply IH; auto.
Qed.

Theorem add_inits_as_is_spec : forall site used other new i,
  (forall k, ~ In k (map (fun nt => (site, fst nt)) new) -> iget k (add_inits as_is site used other new i) = iget k i) /\
  (NoDup (map fst new) -> forall n t, In (n, t) new -> iget (site, n) (add_inits as_is site used other new i) = Some t).
Proof.
  intros. unfold add_inits. destruct (reg_inits site new i []) as [i1 disp] eqn:E. simpl.
  assert (i1 = fst (reg_inits site new i [])) by (rewrite E; reflexivity). subst i1. split.
  - intros. apply reg_inits_frame. auto.
  - intros. apply reg_inits_registered; auto.
Qed.

(* the defect: an existing registration of the same name is displaced although its value is still used *)
Definition inits_preserved (used : vname -> bool) (i i' : list (gkey * vname)) : Prop :=
  forall k t, iget k i = Some t -> used t = true -> exists k', iget k' i' = Some t.

Theorem initializer_clash_refuted :
  exists site used other new i, ~ inits_preserved used i (add_inits as_is site used other new i).
Proof.
  exists 0, (fun t => String.eqb t "k_shared"), ["x"; "a"; "o"], [("k_shared", "%init1")], [((0, "k_shared"), "k_shared")].
  unfold inits_preserved. intro H.
  match type of H with context [add_inits ?a ?b ?c ?d ?e ?f] =>
    assert (E : add_inits a b c d e f = [((0, "k_shared"), "%init1")]) by (vm_compute; reflexivity); rewrite E in H end.
  destruct (H (0, "k_shared") "k_shared" eq_refl eq_refl) as [k' Hk].
  cbn [dget] in Hk. destruct (gkey_eqb k' (0, "k_shared")); discriminate.
Qed.

(* the same rule firing twice with an initializer named after a shared pattern input *)
Theorem initializer_clash_twice_refuted :
  exists site used other new1 new2 i,
    let i1 := add_inits as_is site used other new1 i in
    inits_preserved used i i1 /\ ~ inits_preserved used i1 (add_inits as_is site used other new2 i1).
Proof.
  exists 0, (fun t => String.eqb t "%init1"), ["x"; "a"; "b"; "o"], [("x_one", "%init1")], [("x_one", "%init2")], [].
  split.
  - intros k t Hk. discriminate.
  - unfold inits_preserved. intro H.
    match type of H with context [add_inits ?a ?b ?c ?d ?e (@nil ?T)] =>
      assert (E1 : add_inits a b c d e (@nil T) = [((0, "x_one"), "%init1")]) by (vm_compute; reflexivity);
      rewrite E1 in H end.
    match type of H with context [add_inits ?a ?b ?c ?d ?e ?f] =>
      assert (E2 : add_inits a b c d e f = [((0, "x_one"), "%init2")]) by (vm_compute; reflexivity);
      rewrite E2 in H end.
    destruct (H (0, "x_one") "%init1" eq_refl eq_refl) as [k' Hk].
    cbn [dget] in Hk. destruct (gkey_eqb k' (0, "x_one")); discriminate.
Qed.

(* the repair *)
Lemma reg_inits_inv : forall site new i disp i1 disp1 t0, reg_inits site new i disp = (i1, disp1) ->
  (exists k, iget k i = Some t0) \/ In t0 (map snd disp) ->
  (exists k, iget k i1 = Some t0) \/ In t0 (map snd disp1).
Proof.
  intros site new. induction new as [|[n t] rest IH]; intros i disp i1 disp1 t0 H Hreg; simpl in H.
  - inversion H; subst. exact Hreg.
  - eapply IH; [exact H|]. destruct Hreg as [[k Hk]|Hd].
    + destruct (gkey_eqb k (site, n)) eqn:Q.
      * apply gkey_eqb_eq in Q. subst k. rewrite Hk. destruct (String.eqb t0 t) eqn:R.
        -- apply String.eqb_eq in R. subst. left. exists (site, n). apply (dget_dset_same gkey_eqb gkey_eqb_eq).
        -- right. rewrite map_app. apply in_or_app. right. simpl. auto.
      * left. exists k. rewrite (dget_dset gkey_eqb gkey_eqb_eq). rewrite Q. exact Hk.
    + right. destruct (iget (site, n) i) as [e|]; auto. destruct (String.eqb e t); auto.
      rewrite map_app. apply in_or_app. left. exact Hd.
Qed.

Lemma append_inj_l : forall p a b : string, (p ++ a)%string = (p ++ b)%string -> a = b.
Proof. induction p; simpl; intros a0 b0 H; auto. inversion H. auto. Qed.

Lemma names_of_In : forall site nm (i : list (gkey * vname)) t, iget (site, nm) i = Some t -> In nm (names_of site i).
Proof.
  intros site nm i t. unfold names_of. induction i as [|[[g n] v] rest IH]; simpl; try discriminate.
  unfold gkey_eqb at 1. simpl. destruct (Nat.eqb site g) eqn:E; simpl.
  - rewrite Nat.eqb_sym in E. rewrite E. simpl. destruct (String.eqb nm n) eqn:F.
    + apply String.eqb_eq in F. subst. intros _. left. reflexivity.
    + intro H. right. apply IH. exact H.
  - rewrite Nat.eqb_sym in E. rewrite E. exact IH.
Qed.

Lemma rereg_inv : forall site used other disp i t0, used t0 = true ->
  (exists k, iget k i = Some t0) \/ In t0 (map snd disp) ->
  exists k, iget k (rereg site used other disp i) = Some t0.
Proof.
  intros site used other disp. induction disp as [|[n e] rest IH]; intros i t0 Hu Hreg; cbn [rereg].
  - destruct Hreg as [H|[]]. exact H.
  - destruct (used e) eqn:Ue.
    + set (taken := names_of site i ++ other).
      destruct (first_free_total (fun k => (n ++ "_" ++ nat_to_string k)%string) taken 1) as [j Hj].
      { intros a b H. apply append_inj_l in H. apply append_inj_l in H. apply nat_to_string_inj. exact H. }
      rewrite Hj. apply IH; auto. apply first_free_sound in Hj. destruct Hj as [Hfree _].
      assert (Habs : iget (site, (n ++ "_" ++ nat_to_string j)%string) i = None).
      { destruct (iget (site, (n ++ "_" ++ nat_to_string j)%string) i) eqn:Q; auto. apply names_of_In in Q.
        assert (In (n ++ "_" ++ nat_to_string j)%string taken) by (apply in_or_app; left; exact Q).
        apply mem_In in H. congruence. }
      cbn [map In snd] in Hreg. destruct Hreg as [[k Hk]|[He|Hr]].
      * left. exists k. rewrite (dget_dset_other gkey_eqb gkey_eqb_eq); auto. intro; subst. congruence.
      * subst. left. eexists. apply (dget_dset_same gkey_eqb gkey_eqb_eq).
      * right. exact Hr.
    + apply IH; auto. cbn [map In snd] in Hreg. destruct Hreg as [H|[He|Hr]]; auto. subst. congruence.
Qed.

Theorem initializer_clash_fixed : forall site used other new i,
  inits_preserved used i (add_inits repaired site used other new i).
Proof.
  intros site used other new i k t Hk Hu. unfold add_inits.
  destruct (reg_inits site new i []) as [i1 disp] eqn:E. simpl.
  apply rereg_inv; auto. eapply reg_inits_inv; eauto.
Qed.

(* registrations under different names commute (two applications whose initializers have different names) *)
Theorem inits_commute : forall site1 site2 n1 n2 t1 t2 (i : list (gkey * vname)) k, (site1, n1) <> (site2, n2) ->
  iget k (dset gkey_eqb (site1, n1) t1 (dset gkey_eqb (site2, n2) t2 i)) =
  iget k (dset gkey_eqb (site2, n2) t2 (dset gkey_eqb (site1, n1) t1 i)).
Proof. intros. apply (dset_commute gkey_eqb gkey_eqb_eq). auto. Qed.

(* ---- metadata merge --------------------------------------------------------------------------------------------------- *)
Local Notation sget := (dget (V:=string) String.eqb).

Lemma update1_keeps_own : forall mg upd kv k v, mg k = None -> sget k upd = Some v -> is_empty v = false ->
  sget k (update1 mg upd kv) = Some v.
Proof.
  intros mg upd [k' nv] k v Hm Hg Hv. unfold update1. destruct (is_empty nv); auto.
  destruct (String.eqb k k') eqn:E.
  - apply String.eqb_eq in E. subst k'. rewrite Hg, Hv, Hm. exact Hg.
  - assert (k <> k') by (intro; subst; rewrite String.eqb_refl in E; discriminate).
    destruct (sget k' upd) as [ov|].
    + destruct (is_empty ov).
      * rewrite (dget_dset_other String.eqb String.eqb_eq); auto.
      * destruct (mg k'); auto. rewrite (dget_dset_other String.eqb String.eqb_eq); auto.
    + rewrite (dget_dset_other String.eqb String.eqb_eq); auto.
Qed.

(* a key without a merger (every key but the rule-name tag): the target's own non-empty value survives the merge *)
Theorem update_dict_keeps_own : forall mg updates upd k v, mg k = None -> sget k upd = Some v -> is_empty v = false ->
  sget k (update_dict mg upd updates) = Some v.
Proof.
  unfold update_dict. intros mg updates. induction updates as [|kv t IH]; intros upd k v Hm Hg Hv; simpl; auto.
  apply IH; auto. apply update1_keeps_own; auto.
Qed.

Lemma update1_keys : forall mg upd kv k, sget k (update1 mg upd kv) <> None -> sget k upd <> None \/ k = fst kv.
Proof.
  intros mg upd [k' nv] k. unfold update1. simpl. destruct (is_empty nv); auto.
  destruct (String.eqb k k') eqn:E; [apply String.eqb_eq in E; auto|].
  assert (k <> k') by (intro; subst; rewrite String.eqb_refl in E; discriminate).
  destruct (sget k' upd) as [ov|].
  - destruct (is_empty ov).
    + rewrite (dget_dset_other String.eqb String.eqb_eq); auto.
    + destruct (mg k'); auto. rewrite (dget_dset_other String.eqb String.eqb_eq); auto.
  - rewrite (dget_dset_other String.eqb String.eqb_eq); auto.
Qed.

(* nothing is invented: a key of the result is a key of the target or of the updates *)
Theorem update_dict_keys : forall mg updates upd k, sget k (update_dict mg upd updates) <> None ->
  sget k upd <> None \/ In k (map fst updates).
Proof.
  unfold update_dict. intros mg updates. induction updates as [|kv t IH]; intros upd k H; simpl in *; auto.
  apply IH in H. destruct H as [H|H]; auto. apply update1_keys in H. destruct H; auto.
Qed.

(* an update with empty values only changes nothing *)
Theorem update_dict_empty_values : forall mg updates upd, forallb (fun kv => is_empty (snd kv)) updates = true ->
  update_dict mg upd updates = upd.
Proof.
  unfold update_dict. intros mg updates. induction updates as [|[k v] t IH]; intros upd H; simpl in *; auto.
  apply andb_true_iff in H. destruct H as [H1 H2]. rewrite H1. apply IH. exact H2.
Qed.

Theorem copy_merged_length : forall mg from to_, List.length (copy_merged mg from to_) = List.length to_.
Proof.
  intros. unfold copy_merged. destruct to_ as [|t [|t2 r]]; simpl; auto. rewrite map_length. reflexivity.
Qed.

(* the rule-name tag: own name first, then the tags of the matched nodes in the matcher's order; other keys: the first
   non-empty value (own value first); empty values ignored *)
Example merge_example :
  copy_merged default_merger
    [[(RULE_NAME_TAG, "Old_a"); ("namespace", "n/a")]; [("namespace", ""); ("k", "v")]; [(RULE_NAME_TAG, "Prev"); ("namespace", "n/c")]]
    [[(RULE_NAME_TAG, "R0")]]
  = [[(RULE_NAME_TAG, "R0, Old_a, Prev"); ("namespace", "n/a"); ("k", "v")]] /\
  copy_merged default_merger
    [[(RULE_NAME_TAG, "Old_a"); ("namespace", "n/a")]; [("namespace", "n/b")]]
    [[(RULE_NAME_TAG, "R0")]; [(RULE_NAME_TAG, "R0"); ("namespace", "own")]]
  = [[(RULE_NAME_TAG, "R0, Old_a"); ("namespace", "n/a")]; [(RULE_NAME_TAG, "R0, Old_a"); ("namespace", "own")]].
Proof. split; vm_compute; reflexivity. Qed.

(* ---- frame of one application ------------------------------------------------------------------------------------------ *)
Local Notation mtget := (dget (V:=meta) String.eqb).

Lemma dset_all_other : forall kvs (t : list (vname * meta)) k, ~ In k (map fst kvs) -> mtget k (dset_all kvs t) = mtget k t.
Proof.
  induction kvs as [|[k0 v0] rest IH]; intros t k H; simpl in *; auto.
  rewrite IH; [|intro; apply H; auto]. apply (dget_dset_other String.eqb String.eqb_eq). intro; subst. apply H. auto.
Qed.

Lemma dget_filter_keep : forall (gone : list vname) (t : list (vname * meta)) k, mem k gone = false ->
  mtget k (filter (fun e => negb (mem (fst e) gone)) t) = mtget k t.
Proof.
  intros gone t k Hk. induction t as [|[k0 v0] rest IH]; simpl; auto.
  destruct (mem k0 gone) eqn:E; simpl.
  - destruct (String.eqb k k0) eqn:Q; auto. apply String.eqb_eq in Q. subst. congruence.
  - rewrite IH. reflexivity.
Qed.

Lemma in_map_fst_combine : forall (A B : Type) (a : list A) (b : list B) x, In x (map fst (combine a b)) -> In x a.
Proof.
  intros A B a b x H. apply in_map_iff in H. destruct H as [[x' y] [E H]]. simpl in E. subst. eapply in_combine_l; eauto.
Qed.

Lemma not_mem : forall k l, ~ In k l -> mem k l = false.
Proof. intros k l H. destruct (mem k l) eqn:E; auto. apply mem_In in E. contradiction. Qed.

(* a visit touches the imports only *)
Theorem visit_frame : forall fx d s s', visit fx d s = Some s' ->
  s_inits s' = s_inits s /\ s_funcs s' = s_funcs s /\ s_nmeta s' = s_nmeta s /\ s_vmeta s' = s_vmeta s /\
  add_imports fx (d_site d) (d_owner d) (d_opsets d) (s_imports s) = Some (s_imports s').
Proof.
  unfold visit. intros fx d s s' H. destruct (add_imports fx (d_site d) (d_owner d) (d_opsets d) (s_imports s)); try discriminate.
  inversion H; subst. simpl. auto.
Qed.

(* the application of a removing rule as the code is: imports untouched; initializers registered under other names
   untouched; every function but the new one untouched, the new key was free; metadata of every node / value that is
   neither matched nor new untouched *)
Theorem splice_frame : forall used d s s' ov, splice as_is used d s = Some (s', ov) ->
  s_imports s' = s_imports s /\
  (forall k, ~ In k (map (fun nt => (d_site d, fst nt)) (d_inits d)) -> iget k (s_inits s') = iget k (s_inits s)) /\
  (d_fn d = None -> s_funcs s' = s_funcs s) /\
  (forall q, d_fn d = Some q -> exists o, ov = Some o /\ dget fkey_eqb (fq_dom q, fq_name q, o) (s_funcs s) = None /\
       forall k, k <> (fq_dom q, fq_name q, o) -> dget fkey_eqb k (s_funcs s') = dget fkey_eqb k (s_funcs s)) /\
  (d_remove d = true -> forall k, ~ In k (d_matched d) -> ~ In k (map fst (d_new d)) ->
       mget k (s_nmeta s') = mget k (s_nmeta s)) /\
  (d_remove d = true -> forall k, ~ In k (d_matched_vals d) -> ~ In k (d_new_vals d) ->
       mget k (s_vmeta s') = mget k (s_vmeta s)).
Proof.
  unfold splice. intros used d s s' ov H.
  assert (NM : d_remove d = true -> forall k, ~ In k (d_matched d) -> ~ In k (map fst (d_new d)) ->
               mget k (step_nmeta d (s_nmeta s)) = mget k (s_nmeta s)).
  { intros R k H1 H2. unfold mget, step_nmeta, rekey. rewrite R. rewrite dset_all_other.
    - rewrite dget_filter_keep; auto. apply not_mem. exact H1.
    - intro Q. apply in_map_fst_combine in Q. contradiction. }
  assert (VM : d_remove d = true -> forall k, ~ In k (d_matched_vals d) -> ~ In k (d_new_vals d) ->
               mget k (step_vmeta d (s_vmeta s)) = mget k (s_vmeta s)).
  { intros R k H1 H2. unfold mget, step_vmeta, rekey. rewrite R. rewrite dset_all_other.
    - rewrite dget_filter_keep; auto. apply not_mem. exact H1.
    - rewrite map_map. simpl. rewrite map_id. exact H2. }
  pose proof (add_inits_as_is_spec (d_site d) used (d_other_names d) (d_inits d) (s_inits s)) as [IF _].
  destruct (d_fn d) as [q|] eqn:F.
  - destruct (add_function (d_site d) (d_site_is_fn d) (s_imports s) q (s_funcs s)) as [[o fs]|] eqn:A; try discriminate.
    inversion H; subst. simpl. apply add_function_frame in A. destruct A as [A1 [_ A3]].
    repeat split; auto; try discriminate.
    intros q0 E. inversion E; subst q0. exists o. auto.
  - inversion H; subst. simpl. repeat split; auto. intros q0 E. discriminate.
Qed.

(* two as_function applications in a row never share a function identifier (name uniqueness) *)
Theorem two_extractions_distinct : forall site1 fn1 i1 q1 site2 fn2 i2 q2 fs o1 fs1 o2 fs2,
  add_function site1 fn1 i1 q1 fs = Some (o1, fs1) -> add_function site2 fn2 i2 q2 fs1 = Some (o2, fs2) ->
  (fq_dom q1, fq_name q1, o1) <> (fq_dom q2, fq_name q2, o2) /\
  dget fkey_eqb (fq_dom q1, fq_name q1, o1) fs2 <> None /\ dget fkey_eqb (fq_dom q2, fq_name q2, o2) fs2 <> None.
Proof.
  intros. apply add_function_frame in H. apply add_function_frame in H0.
  destruct H as [_ [[fd1 [G1 _]] _]]. destruct H0 as [N2 [[fd2 [G2 _]] F2]].
  assert ((fq_dom q1, fq_name q1, o1) <> (fq_dom q2, fq_name q2, o2)) by (intro E; rewrite E in G1; congruence).
  split; auto. split; [rewrite F2; auto; congruence | congruence].
Qed.

(* ---- the hypotheses of the theorems above are satisfiable: one application with everything at once --------------------- *)
(* site: the then-branch (graph object 2) of the main graph; the replacement uses the domain "verif.fn" (the call node of an
   as_function rule named R0) and registers one initializer; matched nodes a (carrying a rule-name tag and a namespace)
   and o; new node o *)
Definition ex_state : mstate :=
  MState [((0, ""), 18%Z)] [((0, "w"), "w")] [(("verif.fn", "F", "1"), FDef [("", 18%Z)] [] [] [])]
         [("a", [(RULE_NAME_TAG, "Old_a"); ("namespace", "n/a")]); ("z", [("namespace", "n/z")])]
         [("a", [("vm", "of a")]); ("z", [("vm", "of z")])].

Definition ex_delta : delta :=
  Delta 2 0 false [("verif.fn", None)] [("c0", "%init1")] ["x"; "a"; "o"; "z"] "R0" ["o"; "a"] ["a"; "o"] [("o", [])] ["o"]
        true [] (Some (FnReq "verif.fn" "F" [""; ""] ["x"]
                         [Node "" "Abs" [Some "x"] ["a"] [] []; Node "" "Neg" [Some "a"] ["o"] [] []] ["o"])) true.

Example step_example :
  exists s', step as_is (fun _ => true) ex_delta ex_state = Some s' /\
    dget gkey_eqb (2, "verif.fn") (s_imports s') = Some 1%Z /\ dget gkey_eqb (0, "verif.fn") (s_imports s') = Some 1%Z /\
    dget gkey_eqb (2, "c0") (s_inits s') = Some "%init1" /\ dget gkey_eqb (0, "w") (s_inits s') = Some "w" /\
    option_map fd_imports (dget fkey_eqb ("verif.fn", "F", "2") (s_funcs s')) = Some [("", 18%Z)] /\
    mget "o" (s_nmeta s') = [(RULE_NAME_TAG, "R0, Old_a"); ("namespace", "n/a")] /\
    mget "a" (s_nmeta s') = [] /\ mget "z" (s_nmeta s') = [("namespace", "n/z")] /\
    mget "a" (s_vmeta s') = [] /\ mget "z" (s_vmeta s') = [("vm", "of z")].
Proof. eexists. split; [vm_compute; reflexivity|]. vm_compute. repeat split; reflexivity. Qed.
