(* Model of onnxscript/rewriter/rules/common/_no_op.py (C05): x*1, 1*x, x+0, 0+x, x-0, x/1 -> Identity(x).
   The literal in the pattern becomes _pattern_ir.Constant(value, rel_tol=1e-5, abs_tol=1e-8); the matcher
   (_matcher._match_constant) accepts a 0-d constant c with math.isclose(c, value, rel_tol, abs_tol).
   Numbers are exact rationals num/den (den > 0): every finite float is one.  No proofs in this file. *)
From Coq Require Import ZArith List Bool.
Import ListNotations.
Local Open Scope Z_scope.

Definition rat := (Z * Z)%type.            (* (numerator, denominator > 0) *)
Definition req (a b : rat) : Prop := fst a * snd b = fst b * snd a.
Definition reqb (a b : rat) : bool := fst a * snd b =? fst b * snd a.
Definition of_int (z : Z) : rat := (z, 1).
Definition rmul (a b : rat) : rat := (fst a * fst b, snd a * snd b).
Definition radd (a b : rat) : rat := (fst a * snd b + fst b * snd a, snd a * snd b).
Definition rsub (a b : rat) : rat := (fst a * snd b - fst b * snd a, snd a * snd b).
(* a / b for b > 0 (the only divisor of interest is close to 1) *)
Definition rdiv (a b : rat) : rat := (fst a * snd b, snd a * fst b).

(* math.isclose(c, t, rel_tol=1e-5, abs_tol=1e-8) for an integer target t:
     |c - t| <= max(1e-5 * max(|c|, |t|), 1e-8),  both sides multiplied by den * 10^8 *)
Definition isclose (c : rat) (t : Z) : bool :=
  let '(m, d) := c in
  Z.abs (m - t * d) * 100000000 <=? Z.max (1000 * Z.max (Z.abs m) (Z.abs t * d)) d.

(* what an exact matcher (rel_tol = abs_tol = 0, the proposed fix) accepts *)
Definition exact (c : rat) (t : Z) : bool := fst c =? t * snd c.

Inductive op := MulR | MulL | AddR | AddL | SubR | DivR.     (* x*c, c*x, x+c, c+x, x-c, x/c *)
Definition target (o : op) : Z := match o with MulR | MulL | DivR => 1 | _ => 0 end.
Definition lhs (o : op) (c x : rat) : rat :=
  match o with
  | MulR => rmul x c | MulL => rmul c x
  | AddR => radd x c | AddL => radd c x
  | SubR => rsub x c
  | DivR => rdiv x c
  end.
(* the rule as shipped, and with an exact constant test; the constant must be 0-d (rank = 0) *)
Definition check (o : op) (rank : nat) (c : rat) : bool := Nat.eqb rank 0 && isclose c (target o).
Definition check_exact (o : op) (rank : nat) (c : rat) : bool := Nat.eqb rank 0 && exact c (target o).

(* ONNX integer division truncates toward zero *)
Definition idiv (x c : Z) : Z := Z.quot x c.
Definition lhs_int (o : op) (c x : Z) : Z :=
  match o with
  | MulR => x * c | MulL => c * x | AddR => x + c | AddL => c + x | SubR => x - c | DivR => idiv x c
  end.

(* correspondence: (op, rank of the constant, constant as num/den, observed fired?) *)
Definition case := (op * nat * rat * bool)%type.
(* correspondence is one-directional, as the property is: what the implementation did must be permitted by the model;
   not firing is always permitted (a stricter check is never a C05 violation) *)
Definition agrees (k : case) : bool := let '(o, r, c, f) := k in implb f (check o r c).
Fixpoint disagreeing (i : nat) (l : list case) : list nat :=
  match l with [] => [] | c :: t => (if agrees c then [] else [i]) ++ disagreeing (S i) t end.
