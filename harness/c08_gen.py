"""C08 helper: per-family argument generators for the modelled torch_lib functions.

Every generator yields (args, kwargs) in the plain-data convention of c08_exec (tensor specs, python scalars,
lists).  The tables below say which torch_lib function is traced and which torch call is the eager reference.
All choices derive from the `rng` handed in (ctx.rng).
"""
from __future__ import annotations

import itertools

from harness.c08_exec import spec

INT_DTYPES = ("int64", "int32", "uint8")
ALL_DTYPES = ("int64", "int32", "uint8", "bool", "float32")


def numel(shape):
    n = 1
    for d in shape:
        n *= d
    return n


def rand_shape(rng, max_rank=4, allow_zero=True, min_rank=0):
    r = rng.choice([k for k in (0, 1, 1, 2, 2, 2, 3, 3, 4) if min_rank <= k <= max_rank])
    hi = {0: 5, 1: 5, 2: 5, 3: 4, 4: 3}[r]
    lo = 0 if allow_zero else 1
    sh = []
    for _ in range(r):
        d = rng.randint(lo, hi)
        if d == 0 and rng.random() < 0.6:
            d = rng.randint(1, hi)      # zero dims are kept, but rarer
        sh.append(d)
    return sh


def tensor(rng, shape, dtype="int64", kind="iota"):
    n = numel(shape)
    if dtype == "bool":
        data = [bool(rng.getrandbits(1)) for _ in range(n)]
    elif kind == "iota":
        data = list(range(1, n + 1))
        if dtype == "uint8":
            data = [v % 251 for v in data]
        if dtype == "float32":
            data = [float(v) for v in data]
    else:  # signed small values
        lo = 0 if dtype == "uint8" else -9
        data = [rng.randint(lo, 9) for _ in range(n)]
        if dtype == "float32":
            data = [float(v) for v in data]
    return spec(dtype, shape, data)


def pick_dtype(rng, dtypes=ALL_DTYPES):
    return rng.choice(dtypes)


def dims_of(rank, rng, extra_bad=False):
    """A legal dim for a tensor of the given rank (0-d tensors accept -1 and 0)."""
    r = max(rank, 1)
    return rng.randint(-r, r - 1)


# ----------------------------------------------------------------------------- view-like

def gen_flatten(rng, n):
    for i in range(n):
        sh = rand_shape(rng)
        r = max(len(sh), 1)
        if i % 3 == 0:
            s, e = rng.randint(-r, r - 1), rng.randint(-r, r - 1)
        elif i % 3 == 1:
            s = rng.randint(-r, r - 1)
            sn = s % r
            e = rng.randint(sn, r - 1) - rng.choice([0, r])
        else:
            s, e = rng.choice([(0, -1), (1, -1), (0, -2), (1, r - 1), (0, r - 2), (0, 0), (-1, -1)])
        yield [tensor(rng, sh, pick_dtype(rng)), s, e], {}


def _factor(rng, n):
    """random factorisation of n (n >= 0) into 1..3 factors"""
    if n == 0:
        return rng.choice([[0], [0, 2], [3, 0], [1, 0, 2]])
    fs = []
    k = rng.randint(1, 3)
    rem = n
    for _ in range(k - 1):
        ds = [d for d in range(1, rem + 1) if rem % d == 0]
        d = rng.choice(ds)
        fs.append(d)
        rem //= d
    fs.append(rem)
    rng.shuffle(fs)
    return fs


def gen_unflatten(rng, n):
    for i in range(n):
        sh = rand_shape(rng, min_rank=1)
        d = rng.randint(-len(sh), len(sh) - 1)
        sizes = _factor(rng, sh[d])
        if sh[d] > 0 and rng.random() < 0.4:
            sizes[rng.randrange(len(sizes))] = -1
        yield [tensor(rng, sh, pick_dtype(rng)), d, sizes], {}


def gen_squeeze_dim(rng, n):
    for i in range(n):
        sh = rand_shape(rng)
        for k in range(len(sh)):
            if rng.random() < 0.5:
                sh[k] = 1
        d = dims_of(len(sh), rng)
        if sh and sh[d] != 1 and i % 8:              # extent != 1 is a listed skip of ops_test_data.py: keep it rare
            sh[d] = 1
        yield [tensor(rng, sh, pick_dtype(rng)), d], {}


def gen_squeeze(rng, n):
    for i in range(n):
        sh = rand_shape(rng)
        for k in range(len(sh)):
            if rng.random() < 0.5:
                sh[k] = 1
        yield [tensor(rng, sh, pick_dtype(rng))], {}


def gen_unsqueeze(rng, n):
    for i in range(n):
        sh = rand_shape(rng, max_rank=3)
        d = rng.randint(-len(sh) - 1, len(sh))
        yield [tensor(rng, sh, pick_dtype(rng)), d], {}


def gen_permute(rng, n):
    for i in range(n):
        sh = rand_shape(rng)
        p = list(range(len(sh)))
        rng.shuffle(p)
        p = [q - len(sh) if rng.random() < 0.4 else q for q in p]
        yield [tensor(rng, sh, pick_dtype(rng)), p], {}


def gen_transpose(rng, n):
    for i in range(n):
        sh = rand_shape(rng)
        yield [tensor(rng, sh, pick_dtype(rng)), dims_of(len(sh), rng), dims_of(len(sh), rng)], {}


def gen_t(rng, n):
    for i in range(n):
        sh = rand_shape(rng, max_rank=2)
        yield [tensor(rng, sh, pick_dtype(rng))], {}


def gen_expand(rng, n):
    for i in range(n):
        sh = rand_shape(rng, max_rank=3)
        for k in range(len(sh)):
            if rng.random() < 0.5:
                sh[k] = 1
        extra = [rng.randint(0, 3) for _ in range(rng.randint(0, 2))]
        size = []
        for d in sh:
            if d == 1:
                size.append(rng.choice([-1, 1, 0, 2, 3]))
            else:
                size.append(rng.choice([-1, d]))
        yield [tensor(rng, sh, pick_dtype(rng)), extra + size], {}


def gen_view(rng, n):
    for i in range(n):
        sh = rand_shape(rng)
        size = _factor(rng, numel(sh))
        if numel(sh) > 0 and rng.random() < 0.4:
            size[rng.randrange(len(size))] = -1
        if numel(sh) == 1 and rng.random() < 0.3:
            size = []
        yield [tensor(rng, sh, pick_dtype(rng)), size], {}


# ----------------------------------------------------------------------------- indexing along one axis

def _axis_case(rng, min_rank=1, allow_zero=True):
    sh = rand_shape(rng, min_rank=min_rank, allow_zero=allow_zero)
    d = rng.randint(-len(sh), len(sh) - 1)
    return sh, d


def gen_select(rng, n):
    for i in range(n):
        sh, d = _axis_case(rng, allow_zero=False)
        size = sh[d]
        yield [tensor(rng, sh, pick_dtype(rng)), d, rng.randint(-size, size - 1)], {}


def _bound(rng, size):
    return rng.choice([None, None, 0, 1, -1, size, size + 3, -size, -size - 2, rng.randint(-size - 1, size + 1), 2 ** 62, -2 ** 62])


def gen_slice(rng, n):
    for i in range(n):
        sh, d = _axis_case(rng)
        size = sh[d]
        step = rng.choice([None, 1, 1, 2, 3, size + 1])
        yield [tensor(rng, sh, pick_dtype(rng)), d, _bound(rng, size), _bound(rng, size), step], {}


def gen_narrow(rng, n):
    for i in range(n):
        sh, d = _axis_case(rng)
        size = sh[d]
        start = rng.randint(-size, size)
        s2 = start + size if start < 0 else start
        length = rng.randint(0, size - s2)
        if start < 0 and start + length == 0 and i % 10:   # the known defect class: rare
            length = max(0, length - 1)
        yield [tensor(rng, sh, pick_dtype(rng)), d, start, length], {}


SEQ_DTYPES = ("int64", "int32", "float32")        # SplitToSequence kernels of onnxruntime


def gen_split(rng, n):
    for i in range(n):
        sh, d = _axis_case(rng, allow_zero=(i % 12 == 0))
        yield [tensor(rng, sh, pick_dtype(rng, SEQ_DTYPES)), rng.randint(1, max(1, sh[d] + 1)), d], {}


def gen_split_with_sizes(rng, n):
    for i in range(n):
        sh, d = _axis_case(rng)
        rem, sizes = sh[d], []
        while rem > 0:
            k = rng.randint(0, rem)
            sizes.append(k)
            rem -= k
        if not sizes or rng.random() < 0.2:
            sizes.append(0)
        yield [tensor(rng, sh, pick_dtype(rng, SEQ_DTYPES)), sizes, d], {}


def gen_chunk(rng, n):
    for i in range(n):
        sh, d = _axis_case(rng)
        k = rng.randint(1, 6)
        if i % 10:                                   # torch returns exactly k non-empty chunks (else: known defect class)
            size = max(sh[d], 1)
            good = [q for q in range(1, size + 1) if -(-size // q) * (q - 1) < size]
            k = rng.choice(good)
            sh[d] = size
        yield [tensor(rng, sh, pick_dtype(rng)), k, d], {}


def gen_cat(rng, n):
    for i in range(n):
        sh, d = _axis_case(rng)
        k = rng.randint(1, 3)
        dt = pick_dtype(rng)
        ts = []
        for _ in range(k):
            s2 = list(sh)
            s2[d] = rng.randint(0, 3)
            ts.append(tensor(rng, s2, dt, kind="rand"))
        yield [ts, d], {}


def gen_stack(rng, n):
    for i in range(n):
        sh = rand_shape(rng, max_rank=3)
        d = rng.randint(-len(sh) - 1, len(sh))
        dt = pick_dtype(rng)
        ts = [tensor(rng, sh, dt, kind="rand") for _ in range(rng.randint(1, 3))]
        yield [ts, d], {}


def gen_roll(rng, n):
    for i in range(n):
        wild = i % 8 == 0                        # shifts beyond the size, dim -1, empty tensors: the known defect classes
        sh = rand_shape(rng, allow_zero=wild)
        mode = i % 4
        if mode == 1 or len(sh) == 0:          # no dims: flattened roll
            tot = numel(sh)
            lo, hi = (-2 * tot - 2, 2 * tot + 2) if wild else (-tot, 2 * tot - 1)
            yield [tensor(rng, sh, pick_dtype(rng)), [rng.randint(lo, max(lo, hi))]], {}
            continue
        k = 1 if mode < 3 else rng.randint(1, len(sh))
        dims = [rng.randint(-len(sh), len(sh) - 1) for _ in range(k)]
        shifts = []
        for j, d in enumerate(dims):
            if wild:
                shifts.append(rng.randint(-2 * sh[d] - 2, 2 * sh[d] + 2))
            else:
                sft = rng.randint(-sh[d], 2 * sh[d] - 1)
                if sft >= 0 and d == -1:
                    dims[j] = len(sh) - 1
                shifts.append(sft)
        yield [tensor(rng, sh, pick_dtype(rng)), shifts, dims], {}


def gen_flip(rng, n):
    for i in range(n):
        sh = rand_shape(rng)
        ds = list(range(len(sh)))
        rng.shuffle(ds)
        ds = ds[:rng.randint(0, len(ds))]
        ds = [q - len(sh) if rng.random() < 0.4 else q for q in ds]
        yield [tensor(rng, sh, pick_dtype(rng)), ds], {}


def gen_repeat(rng, n):
    for i in range(n):
        sh = rand_shape(rng, max_rank=3)
        reps = [rng.randint(0, 3) for _ in range(len(sh) + rng.randint(0, 2))]
        yield [tensor(rng, sh, pick_dtype(rng)), reps], {}


def gen_tile(rng, n):
    for i in range(n):
        sh = rand_shape(rng, max_rank=3)
        reps = [rng.randint(0, 3) for _ in range(rng.randint(0, 4))]
        yield [tensor(rng, sh, pick_dtype(rng)), reps], {}


def gen_index_select(rng, n):
    for i in range(n):
        sh = rand_shape(rng, allow_zero=False)
        d = dims_of(len(sh), rng)
        size = sh[d] if sh else 1
        k = rng.randint(0, 4)
        idx = [rng.randint(0, size - 1) for _ in range(k)]
        it = spec(rng.choice(["int64", "int32"]), [k], idx)
        if k == 1 and rng.random() < 0.5:
            it = spec("int64", [], idx)
        yield [tensor(rng, sh, pick_dtype(rng)), d, it], {}


def gen_cumsum(rng, n):
    for i in range(n):
        sh = rand_shape(rng)
        yield [tensor(rng, sh, rng.choice(["int64", "float32"]), kind="rand"), dims_of(len(sh), rng)], {}


def gen_trilu(rng, n):
    for i in range(n):
        sh = rand_shape(rng, min_rank=2)
        yield [tensor(rng, sh, pick_dtype(rng, ("int64", "int32", "float32", "bool"))), rng.randint(-6, 6)], {}


# ----------------------------------------------------------------------------- arithmetic

def _arith_pair(rng, dtype, nonzero=True, big=False):
    sh = rand_shape(rng, max_rank=2, allow_zero=True)
    n = numel(sh)
    lo = 0 if dtype == "uint8" else -20
    a = [rng.randint(lo, 20) for _ in range(n)]
    b = [rng.choice([v for v in range(lo, 8) if v != 0 or not nonzero]) for _ in range(n)]
    if big and dtype == "int64":
        a = [v * rng.choice([1, 1, 1000003, 2 ** 40 + 7]) for v in a]
    if dtype == "float32":
        a, b = [float(v) for v in a], [float(v) for v in b]
    return spec(dtype, sh, a), spec(dtype, sh, b)


def gen_div_mode(rng, n):
    """integer tensors only: the float32 detour; operands of magnitude >= 2^24 (the known defect class) are rare"""
    for i in range(n):
        dt = rng.choice(["int64", "int32", "uint8"])
        a, b = _arith_pair(rng, dt)
        if dt == "int64" and i % 12 == 0:
            a["data"] = [v * rng.choice([1, 2 ** 24 + 1, 2 ** 40 + 7]) + rng.choice([0, 1]) for v in a["data"]]
        elif dt != "uint8" and i % 3 == 0:          # larger but still exactly representable operands
            a["data"] = [v * rng.choice([1, 4099, 65537, 838860]) for v in a["data"]]
            b["data"] = [v * rng.choice([1, 1, 257, 4099]) for v in b["data"]]
        yield [a, b], {"rounding_mode": rng.choice(["trunc", "floor"])}


def gen_floor_divide(rng, n):
    for i in range(n):
        dt = rng.choice(["int64", "int32", "uint8"])
        a, b = _arith_pair(rng, dt, big=True)
        yield [a, b], {}


def gen_remainder(rng, n):
    for i in range(n):
        dt = rng.choice(["int64", "int32", "uint8"])
        a, b = _arith_pair(rng, dt, big=True)
        yield [a, b], {}


def gen_clamp(rng, n):
    for i in range(n):
        dt = rng.choice(["int64", "int32", "float32"])
        sh = rand_shape(rng, max_rank=2)
        x = tensor(rng, sh, dt, kind="rand")
        lo = rng.choice([None, rng.randint(-6, 6)])
        hi = rng.choice([None, rng.randint(-6, 6)])
        if dt == "float32":
            lo = None if lo is None else float(lo)
            hi = None if hi is None else float(hi)
        yield [x], {"min": lo, "max": hi}


def gen_clamp_tensor(rng, n):
    for i in range(n):
        dt = rng.choice(["int64", "int32", "float32"])
        sh = rand_shape(rng, max_rank=2)
        x = tensor(rng, sh, dt, kind="rand")
        lo = rng.choice([None, tensor(rng, sh if rng.random() < 0.5 else [], dt, kind="rand")])
        hi = rng.choice([None, tensor(rng, sh if rng.random() < 0.5 else [], dt, kind="rand")])
        if lo is None and hi is None:
            hi = tensor(rng, [], dt, kind="rand")
        yield [x], {"min": lo, "max": hi}


def gen_arange(rng, n):
    for i in range(n):
        start = rng.randint(-6, 6)
        step = rng.choice([1, 1, 2, 3, -1, -2, 5])
        end = start + rng.randint(-7, 9)
        if (end - start) * step < 0 and rng.random() < 0.8:
            end = start + (start - end)
        yield [start, end, step], {}


# ----------------------------------------------------------------------------- reductions (dim / keepdim bookkeeping)

def _dim_list(rng, rank):
    ds = list(range(rank))
    rng.shuffle(ds)
    ds = ds[:rng.randint(0, len(ds))]
    return [q - rank if rng.random() < 0.4 else q for q in ds]


def gen_sum_dim(rng, n):
    for i in range(n):
        sh = rand_shape(rng)
        dt = rng.choice(["int64", "float32"])
        dim = rng.choice([None, _dim_list(rng, len(sh)), _dim_list(rng, len(sh))])
        if len(sh) == 0:
            dim = rng.choice([None, [], [0], [-1]])
        yield [tensor(rng, sh, dt, kind="rand"), dim, bool(rng.getrandbits(1))], {}


def gen_amax(rng, n):
    for i in range(n):
        sh = rand_shape(rng, allow_zero=False)
        dt = rng.choice(["int64", "int32", "float32"])
        dim = _dim_list(rng, len(sh))
        if len(sh) == 0:
            dim = rng.choice([[], [0], [-1]])
        if i % 5 == 0:                            # dim omitted: all dims
            yield [tensor(rng, sh, dt, kind="rand"), None, bool(rng.getrandbits(1))], {}
            continue
        yield [tensor(rng, sh, dt, kind="rand"), spec("int64", [len(dim)], dim), bool(rng.getrandbits(1))], {}


def gen_mean_dim(rng, n):
    for i in range(n):
        sh = rand_shape(rng, allow_zero=False)
        dim = _dim_list(rng, len(sh))
        if len(sh) == 0:
            dim = rng.choice([[], [0], [-1]])
        x = tensor(rng, sh, "float32", kind="rand")
        # exact means: make every value a multiple of the total element count
        k = max(1, numel(sh))
        x["data"] = [v * k for v in x["data"]]
        yield [x, spec("int64", [len(dim)], dim), bool(rng.getrandbits(1))], {}
