(* The lines `x_k = y_k` the exporter emits to undo SSA (loop-carried variables, branch outputs), executed top to bottom,
   against the simultaneous assignment they stand for (C13: finding body-output-is-body-input:sequential-assignment). *)
From Coq Require Import List String Bool Arith Lia.
Require Import OV.Export.Cleanup OV.Export.CleanupProofs.
Require Import OV.Graph.Syntax OV.Script.Syntax OV.Script.PySem OV.Export.Emit OV.Export.EmitProofs OV.Export.EmitCF OV.Export.EmitCFProofs.
Import ListNotations.
Local Open Scope string_scope.

Section SeqAssign.
  Variable V : Type.
  Variable sem : string -> string -> list (string * attrv) -> list (option V) -> option (list V).
  Variable truth : V -> option bool.
  Variable trip : V -> option nat.
  Variable of_nat : nat -> V.
  Variable limit : nat.
  Variable globals : list (string * lit).
  Notation exec_block := (exec_block V sem truth trip of_nat limit globals).
  Notation penv := (penv V).
  Notation pvals := (pvals V).

  (* the lines, as a function on environments *)
  Fixpoint passign (L R : list string) (pe : penv) : option penv :=
    match L, R with
    | x :: l, y :: r => match eval_expr V sem globals pe (EVar y) with Some v => passign l r ((x, v) :: pe) | None => None end
    | _, _ => Some pe
    end.

  Lemma assigns_passign : forall L R fu rest pe,
    exec_block (S fu) (assigns L R ++ rest)%list pe = match passign L R pe with Some pe' => exec_block (S fu) rest pe' | None => None end.
  Proof.
    induction L as [|x l IH]; intros [|y r] fu rest pe; try reflexivity.
    unfold assigns. cbn [combine map app fst snd passign]. rewrite exec_block_assign.
    destruct (eval_expr V sem globals pe (EVar y)) as [v|]; [|reflexivity]. apply IH.
  Qed.

  (* (a) without such a target the lines compute the simultaneous assignment: every target gets the value its source had
     BEFORE the first line, whatever the environment *)
  Theorem seq_assign_exact : forall L R vs pe,
    hazardb L R = false -> nodupb L = true -> List.length L = List.length R -> pvals pe R = Some vs ->
    exists pe', passign L R pe = Some pe' /\ pvals pe' L = Some vs /\ (forall z, ~ In z L -> plookup V pe' z = plookup V pe z).
  Proof.
    induction L as [|x l IH]; intros [|y r] vs pe Hh Hn Hl Hv; cbn [List.length] in Hl; try discriminate.
    - cbn [EmitCFProofs.pvals] in Hv. inversion Hv; subst. exists pe. split; [reflexivity|]. split; [reflexivity|]. intros; reflexivity.
    - cbn [EmitCFProofs.pvals] in Hv. destruct (plookup V pe y) as [[v|? ?]|] eqn:Py; try discriminate.
      destruct (pvals pe r) as [vt|] eqn:Pr; [|discriminate]. inversion Hv; subst vs. clear Hv.
      cbn [hazardb] in Hh. apply orb_false_iff in Hh. destruct Hh as [Hh1 Hh2].
      apply nodupb_cons in Hn. destruct Hn as [Hn1 Hn2].
      cbn [passign]. rewrite (eval_var_bound V sem globals pe y _ Py).
      destruct (IH r vt ((x, PT V v) :: pe) Hh2 Hn2) as (pe' & X & P & F).
      + injection Hl as Hl. exact Hl.
      + rewrite <- Pr. apply pvals_ext. intros z Hz. cbn [plookup]. destruct (String.eqb z x) eqn:E; [|reflexivity].
        apply String.eqb_eq in E. subst z.
        (* x is read later: then the line was `x = x` *)
        apply andb_false_iff in Hh1. destruct Hh1 as [Hh1|Hh1].
        * apply negb_false_iff in Hh1. apply String.eqb_eq in Hh1. subst y. symmetry. exact Py.
        * apply memb_false_In in Hh1. contradiction.
      + exists pe'. split; [exact X|]. split.
        * cbn [EmitCFProofs.pvals]. rewrite (F x Hn1). cbn [plookup]. rewrite String.eqb_refl. rewrite P. reflexivity.
        * intros z Hz. rewrite F by (intros C; apply Hz; right; exact C). cbn [plookup].
          destruct (String.eqb z x) eqn:E; [|reflexivity]. apply String.eqb_eq in E. subst z. exfalso. apply Hz. left. reflexivity.
  Qed.

  (* frame of the lines, and what a line that reads x stores *)
  Lemma passign_frame : forall L R pe pe', passign L R pe = Some pe' -> forall z, ~ In z L -> plookup V pe' z = plookup V pe z.
  Proof.
    induction L as [|x l IH]; intros [|y r] pe pe' H z Hz; cbn [passign] in H; try (inversion H; reflexivity).
    destruct (eval_expr V sem globals pe (EVar y)) as [v|]; [|discriminate].
    rewrite (IH r _ pe' H z) by (intros C; apply Hz; right; exact C). cbn [plookup].
    destruct (String.eqb z x) eqn:E; [|reflexivity]. apply String.eqb_eq in E. subst z. exfalso. apply Hz. left. reflexivity.
  Qed.

  Lemma passign_reads : forall l r pe pe' x a w, passign l r pe = Some pe' -> NoDup l -> ~ In x l ->
    plookup V pe x = Some w -> In (a, x) (combine l r) -> plookup V pe' a = Some w.
  Proof.
    induction l as [|a' t IH]; intros [|y' r] pe pe' x a w H Hn Hx Px Hin; cbn [combine] in Hin; try contradiction.
    cbn [passign] in H. destruct (eval_expr V sem globals pe (EVar y')) as [v|] eqn:Ev; [|discriminate].
    apply NoDup_cons_iff in Hn. destruct Hn as [Hn1 Hn2]. destruct Hin as [Hin|Hin].
    - inversion Hin; subst a' y'. rewrite (eval_var_bound V sem globals pe x _ Px) in Ev. inversion Ev; subst v.
      rewrite (passign_frame t r _ pe' H a Hn1). cbn [plookup]. rewrite String.eqb_refl. reflexivity.
    - apply (IH r _ pe' x a w H Hn2); [intros C; apply Hx; right; exact C| |exact Hin].
      cbn [plookup]. destruct (String.eqb x a') eqn:E; [|exact Px]. apply String.eqb_eq in E. subst a'. exfalso. apply Hx. left. reflexivity.
  Qed.

  Lemma passign_total : forall L R pe, List.length L = List.length R -> (forall z, In z R -> exists v, plookup V pe z = Some v) ->
    exists pe', passign L R pe = Some pe'.
  Proof.
    induction L as [|x l IH]; intros [|y r] pe Hl Hb; cbn [List.length] in Hl; try discriminate; [exists pe; reflexivity|].
    cbn [passign]. destruct (Hb y (or_introl eq_refl)) as [v Pv]. rewrite (eval_var_bound V sem globals pe y _ Pv).
    apply IH; [injection Hl as Hl; exact Hl|]. intros z Hz. cbn [plookup]. destruct (String.eqb z x); [eexists; reflexivity|]. apply Hb. right. exact Hz.
  Qed.

  Lemma in_combine_r : forall (l r : list string) x, List.length l = List.length r -> In x r -> exists a, In (a, x) (combine l r).
  Proof.
    induction l as [|a t IH]; intros [|y r] x Hl Hx; cbn [List.length] in Hl; try discriminate; [contradiction|].
    destruct Hx as [->|Hx]; [exists a; left; reflexivity|]. destruct (IH r x) as [b Hb]; [injection Hl as Hl; exact Hl|exact Hx|].
    exists b. right. exact Hb.
  Qed.

  (* (b) with such a target as the first line (`x = y`, y another variable, x read by a later line `a = x`) there is an
     environment in which the lines run and `a` ends with the NEW value of x, whereas the simultaneous assignment gives
     it the old one -- for any two distinct values *)
  Theorem seq_assign_hazard : forall x y l r (v0 v1 : V),
    x <> y -> In x r -> NoDup (x :: l) -> List.length l = List.length r -> v0 <> v1 ->
    exists pe a, In (a, x) (combine l r) /\ plookup V pe x = Some (PT V v0) /\ plookup V pe y = Some (PT V v1) /\
                 exists pe', passign (x :: l) (y :: r) pe = Some pe' /\ plookup V pe' a = Some (PT V v1).
  Proof.
    intros x y l r v0 v1 Hxy Hxr Hn Hl Hv.
    set (pe := ((y, PT V v1) :: map (fun z => (z, PT V v0)) (x :: r))).
    destruct (in_combine_r l r x Hl Hxr) as [a Ha]. exists pe, a. split; [exact Ha|].
    assert (Px : plookup V pe x = Some (PT V v0)).
    { unfold pe. cbn [plookup map]. apply String.eqb_neq in Hxy. rewrite Hxy, String.eqb_refl. reflexivity. }
    assert (Py : plookup V pe y = Some (PT V v1)) by (unfold pe; cbn [plookup]; rewrite String.eqb_refl; reflexivity).
    split; [exact Px|]. split; [exact Py|].
    assert (Hb : forall z, In z (y :: r) -> exists v, plookup V pe z = Some v).
    { intros z Hz. unfold pe. cbn [plookup]. destruct (String.eqb z y) eqn:Ezy; [eexists; reflexivity|].
      destruct Hz as [Hz|Hz]; [subst z; rewrite String.eqb_refl in Ezy; discriminate|].
      cbn [map plookup]. destruct (String.eqb z x); [eexists; reflexivity|].
      clear - Hz. induction r as [|q t IH]; [contradiction|]. cbn [map plookup]. destruct (String.eqb z q) eqn:E; [eexists; reflexivity|].
      destruct Hz as [Hz|Hz]; [subst q; rewrite String.eqb_refl in E; discriminate|apply IH; exact Hz]. }
    destruct (passign_total (x :: l) (y :: r) pe) as [pe' Hp]; [cbn [List.length]; rewrite Hl; reflexivity|exact Hb|].
    exists pe'. split; [exact Hp|].
    cbn [passign] in Hp. rewrite (eval_var_bound V sem globals pe y _ Py) in Hp.
    apply NoDup_cons_iff in Hn. destruct Hn as [Hn1 Hn2].
    apply (passign_reads l r _ pe' x a (PT V v1) Hp Hn2 Hn1); [|exact Ha]. cbn [plookup]. rewrite String.eqb_refl. reflexivity.
  Qed.
End SeqAssign.

(* the side condition of the soundness theorem (seqokb: no target is read by a later line) implies the exact one *)
Lemma seqokb_no_hazard : forall L R, seqokb L R = true -> hazardb L R = false.
Proof.
  induction L as [|x l IH]; intros [|y r] H; try reflexivity. cbn [seqokb] in H. apply andb_true_iff in H. destruct H as [H1 H2].
  cbn [hazardb]. apply negb_true_iff in H1. rewrite H1, andb_false_r. apply IH. exact H2.
Qed.

(* the catalogued instance: a body that returns its two inputs swapped -- `a = b ; b = a` *)
Example swap_is_hazard : hazardb ["a"; "b"] ["b"; "a"] = true /\ hazardb ["a"; "b"] ["a"; "b"] = false /\ hazardb ["a"; "b"] ["c"; "a2"] = false.
Proof. vm_compute. repeat split. Qed.
