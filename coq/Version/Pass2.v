(* C10 -- the pass over the REPAIRED native converter (Model2.convert_native2 in the variant the code is in), and
   onnxscript/_framework_apis/torch_2_9.py convert_version with an InlinePass that may refuse.
   * pass_convert2 : Model.pass_convert with convert_native2 (own / refuse / minchk) in the native branch.  With own = refuse =
     false and minchk = MinOff it IS Model.pass_convert (Pass2Proofs.pass_convert2_off).
   * torch_2_9_convert_r : Fallback.torch_2_9_convert where the inline pass is `inline_r : state -> option state`
     (None = it raised: onnx_ir's InlinePass refuses a model whose function imports another default-domain opset than the model).
   * native2_cause : WHY convert_native2 raises -- computable, read off the same branches.
   No proofs in this file. *)
From Coq Require Import ZArith List Bool String.
Import ListNotations.
Require Import OV.Version.Model OV.Version.Model2 OV.Version.CApi OV.Version.Fallback.
Local Open Scope Z_scope.

Section Pass2.
  Variables own refuse : bool.
  Variable minchk : minvar.
  Variable adapt : adapter.
  Variables smin smax : Z.
  Variable fuel : nat.
  Variables inline cleanup : model -> model.
  Variable capi : model -> Z -> option model.

  Definition pass_convert2 (fallback : bool) (M : model) (t : Z) : mres :=
    let M1 := inline M in
    if (match m_decl M1 with Some c => c =? t | None => false end) then MDone (cleanup M1) []
    else if negb fallback || supported smin smax M1 t then
      match convert_native2 own refuse minchk adapt smin smax fuel M1 t with
      | MDone M2 l => MDone (cleanup M2) l
      | MRaised e M2 l => MRaised e M2 l
      end
    else
      match capi M1 t with
      | None => MDone (cleanup M1) []
      | Some M2 => MDone (cleanup (Model (m_decl M2) (m_ai M2) (m_graph M2) (m_funcs M1))) []
      end.

  (* ---- why the native converter raises; None = it returns *)
  Inductive cause :=
  | KRange                (* ValueError: target outside SUPPORTED_MIN..SUPPORTED_MAX *)
  | KConflict             (* ValueError: "" and "ai.onnx" imported at different versions (model or a function) *)
  | KRefused              (* VersionConverterError of the pre-check: QuantizeLinear int32 -> 19..22, or import below the minimum *)
  | KVisit (e : err).     (* raised during the visit: node without version, ref attribute, node above the target, adapter error *)

  Definition precheck (t : Z) (dv : option Z) (M : model) (fvs : list (func * option Z)) : bool :=
    (refuse && (existsb (refuses t dv) (m_graph M)
                || existsb (fun p => existsb (refuses t (snd p)) (f_nodes (fst p))) fvs))
    || (existsb (min_refuses minchk smin dv) (m_graph M)
        || existsb (fun p => existsb (min_refuses minchk smin (snd p)) (f_nodes (fst p))) fvs).

  Definition native2_cause (M : model) (t : Z) : option cause :=
    if (t >? smax) || (t <? smin) then Some KRange
    else
      match default_version M with
      | None => Some KConflict
      | Some dv =>
        match versions_of own dv (m_funcs M) with
        | None => Some KConflict
        | Some fvs =>
          if precheck t dv M fvs then Some KRefused
          else
            match conv adapt t dv fuel (m_graph M) with
            | GAbort e _ _ => Some (KVisit e)
            | GFin _ _ =>
              match conv_funcs2 adapt fuel t fvs with
              | (_, Some e, _) => Some (KVisit e)
              | (_, None, _) => None
              end
            end
        end
      end.

  Definition before_visit (c : cause) : bool := match c with KVisit _ => false | _ => true end.
End Pass2.

Section Torch.
  Variables own refuse : bool.
  Variable minchk : minvar.
  Variable adapt : adapter.
  Variables smin smax : Z.
  Variable fuel : nat.
  Variable limit : Z.
  Variable capi : state -> Z -> option state.
  Variable inline_r : state -> option state.      (* None = InlinePass raised *)
  Variable cleanup : state -> state.

  Inductive tres :=
  | TReturned (S : state) (log : list string)
  | TRaisedInline                                  (* PassError from the inline pass; nothing was converted *)
  | TRaisedNative (e : err) (S : state) (log : list string).

  Definition torch_2_9_convert_r (S : state) (t : Z) : tres :=
    match inline_r S with
    | None => TRaisedInline
    | Some S1 =>
      match requires_inline_call own refuse minchk adapt smin smax fuel limit capi true S1 t with
      | FDone S2 _ l => TReturned (cleanup S2) l
      | FRaised e S2 l => TRaisedNative e S2 l
      end
    end.

  Definition t_raises (r : tres) : bool := match r with TReturned _ _ => false | _ => true end.
End Torch.

(* ---------------------------------------------------------------- a class of graphs on which the visit cannot raise *)
(* default-domain nodes (recursively) without reference attributes, whose version (own or the container's import) is known and
   not above the target, and whose operator `q` says has no adapter *)
Fixpoint calmb (q : string -> bool) (t : Z) (dv : option Z) (n : node) : bool :=
  match n with
  | Node o d v r _ _ _ sb =>
    negb d ||
    (negb r && q o
     && match (match v with Some x => Some x | None => dv end) with Some x => x <=? t | None => false end
     && forallb (calmb q t dv) sb)
  end.
