(* C01, stage S4 (attribute parameters) on the GRAPH side, straight-line part (session 6, round 2).

   The full statement stays visible as Props/C01_eager.v C01_graph_eq_python_attrs_full (a Definition).  Proved here: its
   restriction to bodies that are a sequence of assignments / tuple assignments followed by return -- for EVERY kernel
   semantics, and in particular for the kernel that resolves reference attributes from the call's attribute values.
   Covered: attribute parameters promoted to tensors when used as operands (Constant(value_float | value_int = ref a),
   + Cast(to=BOOL) for a bool, castable: CastLike'd next to a tensor operand), forwarded as reference attributes to
   operator calls and to calls of script functions, shadowing between tensor and attribute parameter names, rebinding of an
   attribute parameter's name by an assignment.
   NOT covered (what remains of C01_graph_eq_python_attrs_full):
     * if / else, for, while: Script/TranslateIf|For|NestProofs.v carry the invariant all_PT (every Python variable holds a
       tensor; it is what makes the outputs of a branch / the state of a loop plain graph values) and the class predicate
       rhs_ok excludes a bare module constant on the right of `=`, as an `if` test and as a loop bound but not a bare
       attribute parameter; an attribute parameter is a Python scalar (PS), so those lemmas need all_PT relaxed to
       "every variable other than an attribute parameter that is never assigned" and rhs_ok extended by the attribute names
       (TranslateForDefs / TranslateNestDefs: pre_ok takes the list);  the expression-level lemmas they rest on
       (tr_expr_sound_a, tr_call_multi_sound_a, tr_returns_sound_a for the invariant `inva` with BV | BA bindings) are
       proved in Script/TranslateProofs.v;
     * to_model_proto binding the references to the declared defaults (fix 5ff0308): the statement
       eval_graph sem (graph with every ARef a replaced by the default of a) = eval_graph (sem_res defaults sem) graph,
       a homomorphism lemma over eval_graph at every nesting depth, is not proved; evidence: the four-way oracle runs
       to_model_proto on onnxruntime for every generated program whose attribute parameters all have defaults, and the
       stream of seed C01-5 (uses inside if/else and loop bodies). *)
From Coq Require Import List String ZArith Bool.
Require Import OV.Graph.Syntax OV.Graph.Sem OV.Script.Syntax OV.Script.Sets OV.Gen.Analysis OV.Gen.ScriptTables
               OV.Script.Translate OV.Script.PySem OV.Script.Eager OV.Script.PySemAttrs OV.Script.TranslateProofs
               OV.Script.EagerExamples OV.Script.TranslateAttrsProofs OV.Script.TranslateAttrsExamples.
Import ListNotations.
Local Open Scope string_scope.

(* graph = reading, functions with attribute parameters, straight-line bodies, any kernel semantics *)
Theorem C01_graph_eq_python_attrs_straightline_partial :
  forall (V : Type) sem truth trip of_nat of_bool limit while_limit globals,
    (forall v : V, sem "" "Identity" [] [Some v] = Some [v]) ->
    forall cic afuel orders f g xs avals vs fuel2 k pre es,
      f_body f = (pre ++ [SReturn es])%list -> assigns_ok pre = true -> forallb expr_ok es = true ->
      NoDup (f_tparams f) ->
      translate false globals cic afuel orders f = Some g ->
      eval_script_attrs V sem truth trip of_nat while_limit globals (S fuel2) f xs avals = Some vs ->
      eval_graph V sem truth trip of_nat of_bool limit (S k) [] g xs = Some vs.
Proof. exact translate_straightline_attrs_correct. Qed.
Print Assumptions C01_graph_eq_python_attrs_straightline_partial.

(* ... in the form of C01_graph_eq_python_attrs_full: the kernel resolves reference attributes from the call's values *)
Theorem C01_graph_eq_python_attrs_resolving_partial :
  forall (V : Type) sem0 truth trip of_nat of_bool limit while_limit globals avals cic afuel orders f g xs vs fuel2 k pre es,
    (forall v : V, sem0 "" "Identity" [] [Some v] = Some [v]) ->
    f_body f = (pre ++ [SReturn es])%list -> assigns_ok pre = true -> forallb expr_ok es = true ->
    NoDup (f_tparams f) ->
    translate false globals cic afuel orders f = Some g ->
    eval_script_attrs V (sem_res avals sem0) truth trip of_nat while_limit globals (S fuel2) f xs avals = Some vs ->
    eval_graph V (sem_res avals sem0) truth trip of_nat of_bool limit (S k) [] g xs = Some vs.
Proof. exact translate_straightline_attrs_resolving. Qed.
Print Assumptions C01_graph_eq_python_attrs_resolving_partial.

(* an attribute parameter used as a value: the nodes the converter emits bind a castable name to the tensor
   Constant(value_<kind> = ref a) [+ Cast(to=BOOL)] denotes -- the one new case of the simulation *)
Theorem C01_attribute_parameter_promotion_sound :
  forall (V : Type) sem truth trip of_nat of_bool limit ev a k st n st' nodes ρ l c,
    st_ok V ρ st ->
    to_onnx_var (BA k) a st = Some (n, st', nodes) -> attr_tensor0 V sem a k = Some c ->
    exists ρ', Sem.run V sem truth trip of_nat of_bool limit ev ρ nodes = Some ρ' /\
               rel V ρ' (ts_castable st') (PS V l c) n /\ grows V ρ ρ' st st'.
Proof. exact attr_var_sound. Qed.
Print Assumptions C01_attribute_parameter_promotion_sound.

(* the hypotheses are satisfiable: float / int / bool attribute parameters promoted, one forwarded; 11 nodes; source and
   graph both return (25, 4) on x = 1 *)
Theorem C01_attrs_straightline_nonvacuous :
  exists g,
    translate false [] (fun _ => None) 6 [] exa_f = Some g /\
    assigns_ok exa_pre = true /\ forallb expr_ok exa_es = true /\ NoDup (f_tparams exa_f) /\
    List.length (g_nodes g) = 11 /\
    eval_script_attrs tv exa_sem ty_truth ty_trip ty_of_nat 10 [] 6 exa_f [(true, 1%Z)] exa_avals = Some [(true, 25%Z); (true, 4%Z)] /\
    eval_graph tv exa_sem ty_truth ty_trip ty_of_nat exa_of_bool 10 6 [] g [(true, 1%Z)] = Some [(true, 25%Z); (true, 4%Z)].
Proof. exact attrs_straightline_nonvacuous. Qed.
Print Assumptions C01_attrs_straightline_nonvacuous.
