#!/bin/bash
# regress_lane.sh Cxx...: every seeded change of the listed properties through its quick check, one after the other
for p in "$@"; do for s in $(ls /verif/seeded | grep "^$p-" | sort -t- -k2 -n); do /verif/tools/try_seed.py $s quick 2>&1 | grep -v WARNING | cut -c1-300 >> /var/tmp/osv/regress.log; done; done
