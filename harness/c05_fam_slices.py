"""C05 family: collapse_slice_rule, collapse_slice2_rule (_collapse_slices.py), SlicesSplit (_basic_rules.py).

Model: coq/Rules/SliceCollapse.v; theorems: coq/Props/C05_slices.v.
Correspondence: collapse_slice_rule alone on Slice hosts over (dim, start, end, axis incl. negative, step, static / dynamic /
unknown data shape): fired? == SliceCollapse.check1.  collapse_slice2_rule: hand-written and generated multi-axis hosts (1-3 sliced axes, static /
named / unnamed dims, steps), fired => SliceCollapse.check2 (compared in Coq; theorem C05_collapse_slice2_rule).  SlicesSplit: fired => the
model's side condition holds (checked in Python from the generated parameters).  Direct oracle on every fired instance.
"""
from __future__ import annotations

import itertools

import numpy as np

from harness import c05_basic_util as U
from harness import common
from harness.common import clist, copt, cz

INT64_MAX = 9223372036854775807


def _slice_host(shape, decl, starts, ends, axes, steps, dtype, out_decl, unknown_data=False, opset=18, nonconst=None):
    from onnx import helper
    nodes, inits, inputs = [], [], [("x", dtype, decl)]
    data = "x"
    if unknown_data:       # an intermediate without value_info: the rewriter sees shape None
        nodes.append(helper.make_node("Identity", ["x"], ["d"]))
        data = "d"
    names = []
    for nm, v in (("starts", starts), ("ends", ends), ("axes", axes), ("steps", steps)):
        if v is None:
            break
        if nonconst == nm:
            inputs.append((nm, "int64", [len(v)]))
        else:
            inits.append(U.const_arr(nm, np.array(v, np.int64)))
        names.append(nm)
    nodes.append(helper.make_node("Slice", [data] + names, ["y"]))
    return U.model(nodes, inputs, [("y", dtype, out_decl)], inits=inits, opset=opset)


def _np_slice(arr, starts, ends, axes, steps):
    sl = [slice(None)] * arr.ndim
    for s, e, a, st in zip(starts, ends, axes, steps):
        sl[a] = slice(s, e, st)
    return arr[tuple(sl)]


def family(ctx):
    from onnx import helper
    from onnxscript.rewriter.rules.common import _basic_rules as br
    from onnxscript.rewriter.rules.common import _collapse_slices as mod

    rng = ctx.rng
    # ---------------------------------------------------------------- collapse_slice_rule
    shapes = [[4], [0], [1], [2, 3], [3, 1, 2], [2, 0, 3]]
    insts = []
    for sh in shapes:
        r = len(sh)
        for ax in range(-r, r):
            d = sh[ax]
            for s, e, st in itertools.product([0, 1, -d if d else -1], [d - 1, d, d + 1, INT64_MAX, -1, 0], [1, 2, -1]):
                insts.append((sh, s, e, ax, st))
    if ctx.tier == "quick":
        rng.shuffle(insts)
        keep = [x for x in insts if x[1] == 0 and x[4] == 1][:70]      # where exactly the end-vs-dim conjunct decides
        insts = keep + insts[:110]
    cases, meta = [], []
    fired_n = 0
    for i, (sh, s, e, ax, st) in enumerate(insts):
        r = len(sh)
        axn = ax % r
        kind = ("static", "static", "dyn-axis", "dyn-other", "unknown")[i % 5]
        decl = list(sh)
        if kind == "dyn-axis":
            decl[axn] = "N"
        elif kind == "dyn-other" and r > 1:
            decl[(axn + 1) % r] = "M"
        elif kind == "dyn-other":
            kind = "static"
        dtype = ("float32", "int64")[i % 2]
        x = U.int_data(sh, dtype, 0)
        want = _np_slice(x, [s], [e], [axn], [st])
        out_decl = [w if isinstance(dd, int) else (dd if j != axn else None) for j, (w, dd) in enumerate(zip(want.shape, decl))]
        if kind == "dyn-axis":
            out_decl[axn] = None
        host = _slice_host(sh, decl, [s], [e], [ax], [st], dtype, out_decl, unknown_data=(kind == "unknown"))
        new = U.apply_rule(host, [mod.collapse_slice_rule])
        ops = [o for o in U.ops(new)]
        fired = "Slice" not in ops
        ds = None if kind == "unknown" else [d if isinstance(d, int) else None for d in decl]
        cases.append(f"({copt(ds, lambda l: clist([copt(d, cz) for d in l]))}, ({cz(s)}, {cz(e)}, {cz(ax)}, {cz(st)}), {common.cbool(fired)})")
        meta.append((sh, decl, kind, s, e, ax, st, fired))
        ctx.case(("collapse1", r, kind, s == 0, st, "max" if e == INT64_MAX else ("ge" if e >= sh[axn] else ("neg" if e < 0 else "lt")), ax < 0, sh[axn]))
        if fired:
            fired_n += 1
            feeds = [{"x": U.int_data(sh, dtype, k)} for k in range(3)]
            if kind == "dyn-other" or (kind == "dyn-axis" and e == INT64_MAX):
                sh2 = list(sh)
                sh2[(axn + 1) % r if kind == "dyn-other" else axn] = 0
                feeds.append({"x": U.int_data(sh2, dtype, 0)})
            U.oracle(ctx, "C05:collapse-slice:differs", f"Slice(x{decl}, [{s}], [{e}], [{ax}], [{st}])", host, new, feeds,
                     {"family": "slices", "rule": "collapse_slice_rule", "x_shape": decl, "start": s, "end": e, "axis": ax, "step": st})
    ok, vals_, raw = ctx.coq_eval(["OV.Rules.SliceCollapse"], f"Definition cases : list case := {clist(cases)}.\nEval vm_compute in (disagreeing 0 cases).", name="slices")
    if not ok:
        ctx.tie_broken("correspondence", "slices:model-evaluation", raw[-800:])
        return
    bad = common.parse_nat_list(vals_[0])
    for i in bad[:5]:
        ctx.tie_broken("correspondence", "slices:collapse_slice_rule", f"{meta[i]}: fired differs from SliceCollapse.check1")
    ctx.obligation("correspondence slices: collapse_slice_rule fires only where Rules/SliceCollapse.v `check1` holds", not bad)
    U.guard(ctx, "slices:collapse_slice_rule", fired_n, 10)

    # near misses: a non-constant parameter; steps input absent (pattern needs 5 inputs)
    nm = 0
    for which in ("starts", "ends", "axes", "steps"):
        host = _slice_host([4], [4], [0], [9], [0], [1], "float32", [None], nonconst=which)
        new = U.apply_rule(host, list(mod.rules))
        ctx.case(("collapse-near-miss", which))
        nm += 1
        if "Slice" not in U.ops(new):
            ctx.violation(f"C05:collapse-slice:near-miss:non-constant-{which}", f"collapse rules fired although `{which}` is a graph input",
                          {"family": "slices", "non_constant": which})
    host = _slice_host([4], [4], [0], [9], [0], None, "float32", [4])
    new = U.apply_rule(host, list(mod.rules))
    ctx.case(("collapse-near-miss", "no-steps-input", "Slice" in U.ops(new)))
    if "Slice" not in U.ops(new):
        U.oracle(ctx, "C05:collapse-slice:no-steps-input", "Slice without steps input rewritten", host, new, [{"x": U.int_data([4], "float32", k)} for k in range(3)],
                 {"family": "slices", "rule": "collapse", "steps": None})

    host = U.model([helper.make_node("Slice", ["x", "starts", "ends", "axes", "steps"], ["y"])],
                   [("x", "float32", [4]), ("ends", "int64", [1])], [("y", "float32", [None])],
                   inits=[U.const_arr("starts", np.array([0], np.int64)), U.const_arr("ends", np.array([9], np.int64)),
                          U.const_arr("axes", np.array([0], np.int64)), U.const_arr("steps", np.array([1], np.int64))])
    xs = U.int_data([4], "float32", 0)
    U.overridable_probe(ctx, "collapse-slice", "Slice(x, [0], ends, [0], [1]) (ends defaults to [9])", host, list(mod.rules),
                        [{"x": xs}, {"x": xs, "ends": np.array([2], np.int64)}, {"x": xs, "ends": np.array([0], np.int64)}])

    # ---------------------------------------------------------------- collapse_slice2_rule (several axes, declared output shape)
    insts2 = [
        ([2, 3], [2, 3], [0, 0], [5, 5], [0, 1], [1, 1], True),
        ([2, 3], [2, 3], [0, 0], [5, INT64_MAX], [0, -1], [1, 1], True),
        ([2, 3], [2, 3], [1, 0], [5, 5], [0, 1], [1, 1], False),
        ([2, 3], [2, 3], [0, 0], [5, 2], [0, 1], [1, 1], False),
        ([1, 3], [1, 3], [0, 0], [5, 5], [0, 1], [2, 1], None),        # step 2 on a size-1 axis keeps the shape; steps != 1 => must not fire
        ([2, 3], ["N", 3], [0, 0], [INT64_MAX, 5], [0, 1], [1, 1], None),  # symbolic dim with the same name on both sides
        ([0, 3], [0, 3], [0, 0], [5, 5], [0, 1], [1, 1], True),
        ([2, 3, 2], [2, 3, 2], [-9, 0], [9, 9], [2, 0], [1, 1], True),
        ([2, 3, 2], [2, 3, 2], [-1], [9], [2], [1], False),
        ([4], [4], [-4], [4], [0], [1], True),
        ([4], [4], [-3], [4], [0], [1], False),
        ([4], [4], [-1], [-INT64_MAX], [0], [-1], False),                  # reversal: same shape, different tensor
        ([2, 3], [2, 3], [0, -1], [5, -INT64_MAX], [0, 1], [1, -1], False),  # one step 1, one step -1
    ]
    # unknown (unnamed) dynamic dims: two unknown dims are not known to be equal, so a slice that really drops elements along
    # such an axis must stay (ir.Shape.__eq__ holds for two unnamed dims; _ir_utils.same_shape must be what decides).
    # 8th field: the declared output shape when it is not derived from the data declaration.
    for sh, decl, s, e, ax, out in [
        ([3, 4], [None, 4], [1], [INT64_MAX], [0], [None, 4]),
        ([3, 4], [None, 4], [0], [2], [0], [None, 4]),
        ([3, 4], [3, None], [1], [INT64_MAX], [1], [3, None]),
        ([3, 4], [None, None], [1, 0], [INT64_MAX, INT64_MAX], [0, 1], [None, None]),
        ([3, 4], ["N", 4], [1], [INT64_MAX], [0], [None, 4]),          # named in, unnamed out
        ([3, 4], [None, 4], [1], [INT64_MAX], [0], ["M", 4]),          # unnamed in, named out
        ([3, 4], ["N", 4], [1], [INT64_MAX], [0], ["M", 4]),           # two different names
        ([2, 3, 4], [2, None, 4], [-2], [INT64_MAX], [1], [2, None, 4]),
    ]:
        insts2.append((sh, decl, s, e, ax, [1] * len(ax), False, out))
    # generated multi-axis instances: 1-3 sliced axes of a rank 1-4 tensor, starts/ends drawn around the extents, a few with
    # a step other than 1, dims static / named / unnamed (named dims carry the same name on both sides only when the slice keeps the extent)
    for _ in range(40 if ctx.tier == "quick" else 400):
        r = rng.randrange(1, 5)
        sh = [rng.randrange(0, 4) if rng.random() < 0.15 else rng.randrange(1, 4) for _ in range(r)]
        k = rng.randrange(1, min(3, r) + 1)
        axn = rng.sample(range(r), k)
        full = rng.random() < 0.55
        ss, ee, st = [], [], []
        for a in axn:
            d = sh[a]
            if full:
                ss.append(rng.choice([0, -d, -d - 3]) if d else 0)
                ee.append(rng.choice([d, d + 2, INT64_MAX]))
            else:
                ss.append(rng.choice([0, 0, 1, -1]))
                ee.append(rng.choice([d, d - 1, INT64_MAX, -1]))
            st.append(1 if rng.random() < 0.9 else 2)
        ax = [a if rng.random() < 0.5 else a - r for a in axn]
        decl = list(sh)
        for j in range(r):
            u = rng.random()
            if u < 0.2:
                decl[j] = f"D{j}"
            elif u < 0.3:
                decl[j] = None
        x = U.int_data(sh, "float32", 0)
        want = _np_slice(x, ss, ee, axn, st)
        out = [dd if (not isinstance(dd, int) and w == n) else (w if isinstance(dd, int) else None) for w, n, dd in zip(want.shape, sh, decl)]
        insts2.append((sh, decl, ss, ee, ax, st, None, out))
    fired2 = 0
    cases2, meta2 = [], []

    def _sd(d, names={}):
        if isinstance(d, int):
            return f"(DSt {cz(d)})"
        if d is None:
            return "DUn"
        return f"(DSy {common.cnat(names.setdefault(d, len(names)))})"
    for i, inst in enumerate(insts2):
        sh, decl, s, e, ax, st, expect = inst[:7]
        dtype = ("float32", "int64")[i % 2]
        x = U.int_data(sh, dtype, 0)
        want = _np_slice(x, s, e, [a % len(sh) for a in ax], st)
        out_decl = inst[7] if len(inst) > 7 else [w if isinstance(dd, int) else dd for w, dd in zip(want.shape, decl)]
        host = _slice_host(sh, decl, s, e, ax, st, dtype, out_decl)
        new = U.apply_rule(host, [mod.collapse_slice2_rule])
        fired = "Slice" not in U.ops(new)
        ctx.case(("collapse2", len(sh), len(ax), tuple(st), fired, tuple("int" if isinstance(d, int) else ("unnamed" if d is None else "named") for d in decl),
                  tuple("int" if isinstance(d, int) else ("unnamed" if d is None else "named") for d in out_decl)))
        cases2.append(f"(Some {clist([_sd(d) for d in decl])}, Some {clist([_sd(d) for d in out_decl])}, Some {clist([cz(v) for v in st])}, {common.cbool(fired)})")
        meta2.append((sh, decl, s, e, ax, st, out_decl, fired))
        same = list(want.shape) == list(sh) and all(v == 1 for v in st)
        if fired and not same:
            pass   # judged by the oracle
        if expect is True and not fired:
            ctx.tie_broken("correspondence", "slices:collapse_slice2_rule", f"expected to fire on x{decl} {s} {e} {ax} {st}")
        if fired:
            fired2 += 1
            feeds = [{"x": U.int_data(sh, dtype, k)} for k in range(3)]
            if "N" in decl and decl[0] == "N" and len(inst) == 7:
                feeds.append({"x": U.int_data([0] + sh[1:], dtype, 0)})
            good, _ = U.oracle(ctx, "C05:collapse-slice2:differs", f"Slice(x{decl}, {s}, {e}, {ax}, {st})", host, new, feeds,
                               {"family": "slices", "rule": "collapse_slice2_rule", "x_shape": decl, "starts": s, "ends": e, "axes": ax, "steps": st})
            if good and not all(v == 1 for v in st):
                ctx.tie_broken("correspondence", "slices:collapse_slice2_rule", f"fired with steps {st}: the model's side condition (all steps 1) is false")

    ok2, vals2, raw2 = ctx.coq_eval(["OV.Rules.SliceCollapse"], f"Definition cases2 : list case2 := {clist(cases2)}.\nEval vm_compute in (disagreeing2 0 cases2).", name="slices2")
    if not ok2:
        ctx.tie_broken("correspondence", "slices:collapse2-model-evaluation", raw2[-800:])
        return
    bad2 = common.parse_nat_list(vals2[0])
    for i in bad2[:5]:
        ctx.tie_broken("correspondence", "slices:collapse_slice2_rule", f"(shape, decl, starts, ends, axes, steps, out decl, fired) = {meta2[i]}: fired although SliceCollapse.check2 is false")
    ctx.obligation("correspondence slices: collapse_slice2_rule fires only where Rules/SliceCollapse.v `check2` holds (theorem C05_collapse_slice2_rule)", not bad2)
    U.guard(ctx, "slices:collapse_slice2_rule", fired2, 8)

    # ---------------------------------------------------------------- SlicesSplit
    # The two-output pattern binds both pattern nodes to ONE graph Slice (observed), so the rule can only fire on a single
    # Slice(x, [0], [0], [last]) over a last dimension of size 0.  Everything else must stay untouched.
    fired3 = 0
    for d, opset, two_nodes in [(4, 18, True), (5, 18, True), (6, 13, True), (0, 18, True), (0, 13, True), (0, 18, False), (1, 18, True), (2, 18, False)]:
        inits = [U.const_arr("b0", np.array([0], np.int64)), U.const_arr("e0", np.array([d // 2], np.int64)),
                 U.const_arr("b1", np.array([d // 2], np.int64)), U.const_arr("e1", np.array([d], np.int64)), U.const_arr("ax", np.array([-1], np.int64))]
        nodes = [helper.make_node("Slice", ["x", "b0", "e0", "ax"], ["y0"])]
        outs = [("y0", "float32", [2, d // 2])]
        if two_nodes:
            nodes.append(helper.make_node("Slice", ["x", "b1", "e1", "ax"], ["y1"]))
            outs.append(("y1", "float32", [2, d - d // 2]))
        host = U.model(nodes, [("x", "float32", [2, d])], outs, inits=inits, opset=opset)
        new = U.apply_rule(host, [br.slice_split_rule])
        fired = "Split" in U.ops(new)
        ctx.case(("slicesplit", d, opset, two_nodes, fired))
        if fired:
            fired3 += 1
            key = "C05:slicesplit:zero-size-last-dim" if d == 0 else ("C05:slicesplit:odd-last-dim" if d % 2 else "C05:slicesplit:differs")
            U.oracle(ctx, key, f"Slice halves of x[2,{d}] (opset {opset}) -> Split(num_outputs=2)", host, new,
                     [{"x": U.int_data([2, d], "float32", k)} for k in range(3)],
                     {"family": "slices", "rule": "SlicesSplit", "last_dim": d, "opset": opset, "two_slice_nodes": two_nodes})
    ctx.cover(collapse1_instances=len(cases), collapse1_fired=fired_n, collapse1_model_disagreements=len(bad), collapse_near_misses=nm,
              collapse2_instances=len(insts2), collapse2_fired=fired2, slicesplit_fired=fired3)
    ctx.sample({"family": "slices", "case": [str(x) for x in meta[len(meta) // 2]]})
    ctx.assume("SlicesSplit's split semantics on zero-size dims are observed by the oracle only; annotations (value_info shapes) of the host are truthful; "
               "ONNX Slice with several axes (steps 1) slices the listed axes one after another")
