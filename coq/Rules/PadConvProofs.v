(* Proofs about coq/Rules/PadConv.v (C05, _fuse_pad_into_conv.py). *)
From Coq Require Import ZArith List Bool Lia ZifyBool.
Require Import OV.Rules.PadConv.
Import ListNotations.
Local Open Scope Z_scope.

(* ---------------------------------------------------------------- upd / fill_pads_with_axes *)

Lemma upd_length : forall l i v, length (upd l i v) = length l.
Proof. induction l; destruct i; simpl; auto. Qed.

Lemma upd_nth_same : forall l i v d, (i < length l)%nat -> nth i (upd l i v) d = v.
Proof. induction l; destruct i; simpl; intros; try lia; auto. apply IHl; lia. Qed.

Lemma upd_nth_other : forall l i v j d, j <> i -> nth j (upd l i v) d = nth j l d.
Proof.
  induction l; destruct i; destruct j; simpl; intros; try congruence; auto.
Qed.

Lemma fill_loop_length : forall axes new pads i N rank,
  length (fill_loop new pads axes i N rank) = length new.
Proof.
  induction axes; simpl; intros; auto. rewrite IHaxes, !upd_length. reflexivity.
Qed.

Lemma fill_loop_untouched : forall axes new pads i N rank j,
  (forall a, In a axes -> a <> j /\ (a + rank)%nat <> j) ->
  nth j (fill_loop new pads axes i N rank) 0 = nth j new 0.
Proof.
  induction axes; simpl; intros; auto.
  rewrite IHaxes by (intros; apply H; auto).
  destruct (H a (or_introl eq_refl)).
  rewrite !upd_nth_other by congruence. reflexivity.
Qed.

(* ONNX Pad with `axes`: axis axes[t] receives begin = pads[t] and end = pads[t + N]; nothing else is written *)
Lemma fill_loop_written : forall axes new pads i N rank t,
  NoDup axes -> (forall a, In a axes -> (a < rank)%nat) -> (2 * rank <= length new)%nat ->
  (t < length axes)%nat ->
  nth (nth t axes O) (fill_loop new pads axes i N rank) 0 = nth (i + t) pads 0 /\
  nth (nth t axes O + rank) (fill_loop new pads axes i N rank) 0 = nth (i + t + N) pads 0.
Proof.
  induction axes as [|a axes IH]; simpl; intros new pads i N rank t ND RG LEN LT; [lia|].
  inversion ND; subst.
  assert (Ha : (a < rank)%nat) by (apply RG; auto).
  destruct t.
  - rewrite !fill_loop_untouched.
    + rewrite !Nat.add_0_r. split.
      * rewrite upd_nth_other by lia. apply upd_nth_same. lia.
      * apply upd_nth_same. rewrite upd_length. lia.
    + intros b Hb. assert (b < rank)%nat by (apply RG; auto).
      split; intro E; try lia; assert (b = a) by lia; subst; contradiction.
    + intros b Hb. assert (b < rank)%nat by (apply RG; auto).
      split; intro E; try lia; assert (b = a) by lia; subst; contradiction.
  - specialize (IH (upd (upd new a (nth i pads 0)) (a + rank) (nth (i + N) pads 0)) pads (S i) N rank t).
    rewrite !upd_length in IH.
    destruct IH as [E1 E2]; auto; try lia.
    replace (i + S t)%nat with (S i + t)%nat by lia. split; [exact E1|].
    replace (S i + t + N)%nat with (S i + t + N)%nat by lia. exact E2.
Qed.

Theorem fill_pads_spec : forall pads axes rank,
  NoDup axes -> (forall a, In a axes -> (a < rank)%nat) ->
  let f := fill_pads_with_axes pads axes rank in
  length f = (2 * rank)%nat /\
  (forall t, (t < length axes)%nat ->
     nth (nth t axes O) f 0 = nth t pads 0 /\ nth (nth t axes O + rank) f 0 = nth (t + length axes) pads 0) /\
  (forall j, (forall a, In a axes -> a <> j /\ (a + rank)%nat <> j) -> nth j f 0 = 0).
Proof.
  intros pads axes rank ND RG f. unfold f, fill_pads_with_axes. repeat split.
  - rewrite fill_loop_length, repeat_length. reflexivity.
  - destruct (fill_loop_written axes (repeat 0 (2 * rank)) pads 0 (length axes) rank t ND RG) as [E _]; auto.
    rewrite repeat_length; lia.
  - destruct (fill_loop_written axes (repeat 0 (2 * rank)) pads 0 (length axes) rank t ND RG) as [_ E]; auto.
    rewrite repeat_length; lia.
  - intros j Hj. rewrite fill_loop_untouched by exact Hj.
    destruct (Nat.lt_ge_cases j (2 * rank)) as [L|L].
    + apply nth_repeat.
    + apply nth_overflow. rewrite repeat_length. lia.
Qed.

(* default axes (axes input absent): the filled list is the pads input itself *)
Theorem fill_pads_default_axes : forall pads rank,
  length pads = (2 * rank)%nat -> fill_pads_with_axes pads (seq 0 rank) rank = pads.
Proof.
  intros pads rank L.
  destruct (fill_pads_spec pads (seq 0 rank) rank) as (LEN & W & _).
  - apply seq_NoDup.
  - intros a Ha. apply in_seq in Ha. lia.
  - apply nth_ext with (d := 0) (d' := 0); [lia|].
    intros j Hj. rewrite LEN in Hj. rewrite seq_length in W.
    destruct (Nat.lt_ge_cases j rank) as [C|C].
    + destruct (W j C) as [E _]. rewrite seq_nth in E by lia. simpl in E. exact E.
    + destruct (W (j - rank)%nat) as [_ E]; [lia|].
      rewrite seq_nth in E by lia. simpl in E.
      replace (j - rank + rank)%nat with j in E by lia. exact E.
Qed.

(* ---------------------------------------------------------------- check: what pads_ok guarantees *)

Lemma forallb_nth : forall (f : Z -> bool) l j, forallb f l = true -> (j < length l)%nat -> f (nth j l 0) = true.
Proof. intros f l j H L. rewrite forallb_forall in H. apply H. apply nth_In. exact L. Qed.

Theorem pads_ok_nonneg : forall filled rank j, pads_ok filled rank = true -> 0 <= nth j filled 0.
Proof.
  intros filled rank j H. unfold pads_ok in H. apply andb_prop in H. destruct H as [_ H].
  destruct (Nat.lt_ge_cases j (length filled)) as [L|L].
  - apply (forallb_nth _ _ _ H) in L. lia.
  - rewrite nth_overflow by lia. lia.
Qed.

Theorem pads_ok_batch_channel_zero : forall filled rank j, pads_ok filled rank = true -> (j < 2)%nat ->
  nth j filled 0 = 0 /\ nth (rank + j) filled 0 = 0.
Proof.
  intros filled rank j H J. unfold pads_ok, nonspatial in H. apply andb_prop in H. destruct H as [H _].
  rewrite forallb_app in H. apply andb_prop in H. destruct H as [H1 H2]. split.
  - destruct (Nat.lt_ge_cases j (length filled)) as [L|L]; [|apply nth_overflow; lia].
    assert (E : nth j (firstn 2 filled) 0 = nth j filled 0).
    { rewrite <- (firstn_skipn 2 filled) at 2. rewrite app_nth1; [reflexivity|]. rewrite firstn_length. lia. }
    rewrite <- E. assert (Q : (j < length (firstn 2 filled))%nat) by (rewrite firstn_length; lia).
    apply (forallb_nth _ _ _ H1) in Q. lia.
  - destruct (Nat.lt_ge_cases (rank + j) (length filled)) as [L|L]; [|apply nth_overflow; lia].
    assert (E : nth j (firstn 2 (skipn rank filled)) 0 = nth (rank + j) filled 0).
    { rewrite <- (firstn_skipn rank filled) at 2.
      rewrite app_nth2 by (rewrite firstn_length; lia).
      rewrite firstn_length. replace (rank + j - Nat.min rank (length filled))%nat with j by lia.
      rewrite <- (firstn_skipn 2 (skipn rank filled)) at 2. rewrite app_nth1; [reflexivity|].
      rewrite firstn_length, skipn_length. lia. }
    rewrite <- E.
    assert (Q : (j < length (firstn 2 (skipn rank filled)))%nat) by (rewrite firstn_length, skipn_length; lia).
    apply (forallb_nth _ _ _ H2) in Q. lia.
Qed.

Lemma nth_skipn' : forall (l : list Z) n j d, nth j (skipn n l) d = nth (n + j) l d.
Proof.
  induction l; destruct n; simpl; intros; auto. destruct j; reflexivity.
Qed.

(* the emitted list is [begin of spatial axes ...] ++ [end of spatial axes ...] *)
Theorem spatial_spec : forall l rank, length l = (2 * rank)%nat -> (2 <= rank)%nat ->
  length (spatial l rank) = (2 * (rank - 2))%nat /\
  forall j, (j < rank - 2)%nat ->
    nth j (spatial l rank) 0 = nth (j + 2) l 0 /\
    nth (j + (rank - 2)) (spatial l rank) 0 = nth (rank + (j + 2)) l 0.
Proof.
  intros l rank L R. unfold spatial.
  assert (L1 : length (skipn 2 (firstn rank l)) = (rank - 2)%nat) by (rewrite skipn_length, firstn_length; lia).
  split.
  - rewrite app_length, L1, skipn_length. lia.
  - intros j J. split.
    + rewrite app_nth1 by lia.
      rewrite nth_skipn'. rewrite <- (firstn_skipn rank l) at 2.
      rewrite app_nth1 by (rewrite firstn_length; lia). f_equal. lia.
    + rewrite app_nth2 by lia. rewrite L1. replace (j + (rank - 2) - (rank - 2))%nat with j by lia.
      rewrite nth_skipn'. f_equal. lia.
Qed.

Lemma zipadd_nth : forall a b j, (j < length a)%nat -> (j < length b)%nat ->
  nth j (zipadd a b) 0 = nth j a 0 + nth j b 0.
Proof.
  induction a; destruct b; simpl; intros; try lia.
  destruct j; auto. apply IHa; lia.
Qed.

(* ---------------------------------------------------------------- what the fusion means (1-D) *)

Lemma dot_ext : forall w k f g, (forall t, 0 <= t < Z.of_nat k -> f t = g t) -> dot w k f = dot w k g.
Proof.
  induction k; simpl; intros; auto.
  rewrite (IHk f g) by (intros; apply H; lia). rewrite H by lia. reflexivity.
Qed.

(* Pad(Pad(x, b1, e1), b2, e2) = Pad(x, b1+b2, e1+e2) for zero padding when the inner pads are non-negative *)
Lemma pad0_pad0 : forall b1 e1 b2 e2 x i, 0 <= b1 -> 0 <= e1 ->
  at_ (pad0 b2 e2 (pad0 b1 e1 x)) i = at_ (pad0 (b1 + b2) (e1 + e2) x) i.
Proof.
  intros. unfold pad0, padc; cbn [at_ len].
  destruct ((b2 <=? i) && (i <? b2 + (len x + b1 + e1))) eqn:A;
  destruct ((b1 <=? i - b2) && (i - b2 <? b1 + len x)) eqn:B;
  destruct ((b1 + b2 <=? i) && (i <? b1 + b2 + len x)) eqn:C; try lia; try reflexivity.
  f_equal. lia.
Qed.

(* the FuseConvPad rewrite: Conv(Pad(x; b1,e1); pads b2,e2) = Conv(x; pads b1+b2, e1+e2), any kernel, stride, dilation *)
Theorem fuse_pad_conv_sound : forall w k s d b1 e1 b2 e2 x, 0 <= b1 -> 0 <= e1 ->
  conv_pads_len k s d b2 e2 (pad0 b1 e1 x) = conv_pads_len k s d (b1 + b2) (e1 + e2) x /\
  forall j, conv_pads_at w k s d b2 e2 (pad0 b1 e1 x) j = conv_pads_at w k s d (b1 + b2) (e1 + e2) x j.
Proof.
  intros. split.
  - unfold conv_pads_len, conv_out_len, pad0, padc; cbn [len]. f_equal. f_equal. lia.
  - intro j. unfold conv_pads_at, conv_at. apply dot_ext. intros. apply pad0_pad0; assumption.
Qed.

(* without the non-negativity test of `check` the merge would be wrong (Pad with negative pads crops) *)
Theorem fuse_pad_conv_negative_refuted : exists w k s d b1 e1 b2 e2 x j,
  conv_pads_at w k s d b2 e2 (pad0 b1 e1 x) j <> conv_pads_at w k s d (b1 + b2) (e1 + e2) x j.
Proof.
  exists (fun _ => 1), 1%nat, 1, 1, (-1), 0, 1, 0, {| len := 2; at_ := fun i => 7 |}, 0.
  vm_compute. discriminate.
Qed.

(* a non-zero constant_value cannot be folded into Conv pads *)
Theorem fuse_pad_conv_nonzero_value_refuted : exists c w k s d b1 e1 x j,
  conv_pads_at w k s d 0 0 (padc c b1 e1 x) j <> conv_pads_at w k s d b1 e1 x j.
Proof.
  exists 3, (fun _ => 1), 1%nat, 1, 1, 1, 0, {| len := 1; at_ := fun i => 7 |}, 0.
  vm_compute. discriminate.
Qed.

(* ConvInteger: Pad inserts the value 0, ConvInteger's own padding inserts x_zero_point.  Host: the zero point is
   subtracted from the padded data. *)
Definition convint_host_at w k s d b1 e1 b2 e2 zp x j := conv_at w k s d (pad0 b2 e2 (shift zp (pad0 b1 e1 x))) j.

Theorem fuse_pad_convinteger_sound_zero_point_0 : forall w k s d b1 e1 b2 e2 x j, 0 <= b1 -> 0 <= e1 ->
  convint_host_at w k s d b1 e1 b2 e2 0 x j = convint_pads_at w k s d (b1 + b2) (e1 + e2) 0 x j.
Proof.
  intros. unfold convint_host_at, convint_pads_at, conv_at. apply dot_ext. intros t Ht.
  set (i := j * s + t * d).
  transitivity (at_ (pad0 b2 e2 (pad0 b1 e1 x)) i).
  - unfold pad0, padc, shift; cbn [at_ len].
    destruct ((b2 <=? i) && (i <? b2 + (len x + b1 + e1))); [|reflexivity].
    destruct ((b1 <=? i - b2) && (i - b2 <? b1 + len x)); lia.
  - rewrite pad0_pad0 by assumption. unfold pad0, padc, shift; cbn [at_ len].
    destruct ((b1 + b2 <=? i) && (i <? b1 + b2 + len x)); lia.
Qed.

Theorem fuse_pad_convinteger_zero_point_refuted : exists w k s d b1 e1 zp x j,
  convint_host_at w k s d b1 e1 0 0 zp x j <> convint_pads_at w k s d b1 e1 zp x j.
Proof.
  exists (fun _ => 1), 1%nat, 1, 1, 1, 0, 5, {| len := 1; at_ := fun i => 9 |}, 0.
  vm_compute. discriminate.
Qed.

(* ---------------------------------------------------------------- the model's check implies the hypotheses used above *)

Lemma norm_axis_range : forall rank a n, norm_axis rank a = Some n -> (n < rank)%nat.
Proof.
  unfold norm_axis. intros rank a n H.
  destruct (0 <=? a) eqn:E;
  match type of H with (if ?c then _ else _) = _ => destruct c eqn:C; [|discriminate] end;
  inversion H; subst; lia.
Qed.

(* whenever the modelled rule fires on a Conv, every filled pad is >= 0 and batch/channel pads are 0 *)
Theorem fuse_impl_fires_side_conditions : forall p out, fuse_impl p = Some out ->
  fp_mode_constant p = true /\ fp_cval_zero p = true /\ fp_auto_pad_notset p = true /\
  exists axes,
    (match fp_axes p with Some a => norm_axes (fp_rank p) a | None => Some (seq 0 (fp_rank p)) end) = Some axes /\
    let filled := fill_pads_with_axes (fp_pads p) axes (fp_rank p) in
    (forall j, 0 <= nth j filled 0) /\
    (forall j, (j < 2)%nat -> nth j filled 0 = 0 /\ nth (fp_rank p + j) filled 0 = 0) /\
    out = match fp_conv_pads p with Some cp => zipadd cp (spatial filled (fp_rank p)) | None => spatial filled (fp_rank p) end.
Proof.
  intros p out H. unfold fuse_impl in H.
  destruct (fp_mode_constant p); [|discriminate].
  destruct (fp_cval_zero p); [|discriminate].
  destruct (fp_auto_pad_notset p); [|discriminate]. cbn [negb orb] in H.
  repeat split; auto.
  destruct (match fp_axes p with Some a => norm_axes (fp_rank p) a | None => Some (seq 0 (fp_rank p)) end) as [axes|]; [|discriminate].
  exists axes. split; [reflexivity|].
  destruct (pads_ok (fill_pads_with_axes (fp_pads p) axes (fp_rank p)) (fp_rank p)) eqn:OK; [|discriminate].
  cbv zeta. repeat split.
  - intro j. eapply pads_ok_nonneg; eauto.
  - eapply pads_ok_batch_channel_zero; eauto.
  - eapply pads_ok_batch_channel_zero; eauto.
  - inversion H; reflexivity.
Qed.

Theorem fuse_fixed_refines_impl : forall p out, fuse_fixed p = Some out ->
  fuse_impl p = Some out /\ (fp_integer p = true -> fp_xzp_zero p = true).
Proof.
  unfold fuse_fixed. intros p out H.
  destruct (fp_integer p); destruct (fp_xzp_zero p); cbn in H; try discriminate; auto.
Qed.

(* ---------------------------------------------------------------- auto_pad normalisation *)

Ltac Zify.zify_post_hook ::= Z.to_euclidean_division_equations.

(* without dilation and with a truthful output annotation the emitted pads are the ONNX SAME_* pads *)
Theorem compute_pads_no_dilation : forall x k s, 0 < s ->
  total_impl x (cdiv x s) k s = total_spec x k s 1.
Proof. intros. unfold total_impl, total_spec, keff. f_equal. lia. Qed.

(* the repaired formula agrees with the ONNX one for every dilation *)
Theorem compute_pads_fixed_sound : forall x k s d, 0 < s ->
  total_fixed x (cdiv x s) k s d = total_spec x k s d.
Proof. intros. reflexivity. Qed.

(* what "SAME" means: explicit pads of that total give output ceil(x / s) *)
Theorem same_pads_output_len : forall x k s d upper, 0 < x -> 0 < s -> 0 < k -> 0 < d ->
  let '(b, e) := split_pads upper (total_spec x k s d) in
  0 <= b /\ 0 <= e /\ b + e = total_spec x k s d /\ conv_out_len x k s d b e = cdiv x s.
Proof.
  intros x k s d upper Hx Hs Hk Hd.
  assert (K : 1 <= keff k d) by (unfold keff; nia).
  unfold split_pads.
  set (T := total_spec x k s d).
  assert (T0 : 0 <= T) by (unfold T, total_spec; lia).
  assert (G : conv_out_len x k s d (T / 2) (T - T / 2) = cdiv x s).
  { unfold conv_out_len. replace (x + T / 2 + (T - T / 2) - keff k d) with (x + T - keff k d) by lia.
    unfold T, total_spec, cdiv in *. set (ke := keff k d) in *.
    set (q := (x + s - 1) / s).
    assert (Q1 : s * q <= x + s - 1 < s * q + s) by (unfold q; split; [apply Z.mul_div_le; lia| ];
      pose proof (Z.mod_pos_bound (x + s - 1) s Hs); pose proof (Z.div_mod (x + s - 1) s); lia).
    destruct (Z.max_spec 0 ((q - 1) * s + ke - x)) as [[A ->]|[A ->]].
    - replace (x + ((q - 1) * s + ke - x) - ke) with ((q - 1) * s) by lia.
      rewrite Z.div_mul by lia. lia.
    - assert (E : (x + 0 - ke) / s = q - 1).
      { symmetry. apply Z.div_unique with (r := x + 0 - ke - s * (q - 1)); nia. }
      rewrite E. lia. }
  assert (H2a : 0 <= T / 2) by (apply Z.div_pos; lia).
  assert (H2b : T / 2 <= T) by (apply Z.div_le_upper_bound; lia).
  destruct upper; repeat split; try lia; try exact G.
  rewrite <- G. unfold conv_out_len. f_equal. f_equal. lia.
Qed.

(* as read (dilations ignored) the rule is wrong: x=7, k=3, s=1, d=2 -> total 2 instead of 4, output 5 instead of 7 *)
Theorem compute_pads_dilation_refuted : exists x k s d,
  0 < x /\ 0 < s /\ 0 < k /\ 0 < d /\
  total_impl x (cdiv x s) k s <> total_spec x k s d /\
  let '(b, e) := split_pads true (total_impl x (cdiv x s) k s) in conv_out_len x k s d b e <> cdiv x s.
Proof. exists 7, 3, 1, 2. vm_compute. repeat split; discriminate. Qed.

(* the as-read formula is right exactly when the dilation does not matter *)
Theorem compute_pads_impl_ok_iff : forall x k s d, 0 < s ->
  0 < (cdiv x s - 1) * s + keff k d - x ->
  (total_impl x (cdiv x s) k s = total_spec x k s d <-> (d = 1 \/ k = 1)).
Proof.
  intros x k s d Hs P. unfold total_impl, total_spec, keff in *. split.
  - intro E. destruct (Z.eq_dec k 1); [auto|]. left.
    assert ((cdiv x s - 1) * s + k - x = (cdiv x s - 1) * s + ((k - 1) * d + 1) - x) by lia. nia.
  - intros [-> | ->]; f_equal; lia.
Qed.

(* list level: every axis of the emitted lists is the per-axis split *)
Theorem same_pads_list_nth : forall fixed upper xs ys ks ss ds j,
  (j < length xs)%nat -> length ys = length xs -> length ks = length xs -> length ss = length xs ->
  nth j (same_pads_list fixed upper xs ys ks ss ds) (0, 0) =
  split_pads upper (if fixed then total_fixed (nth j xs 0) (nth j ys 0) (nth j ks 0) (nth j ss 0) (nth j ds 1)
                    else total_impl (nth j xs 0) (nth j ys 0) (nth j ks 0) (nth j ss 0)).
Proof.
  intros fixed upper xs. induction xs as [|x xs IH]; intros ys ks ss ds j J L1 L2 L3; simpl in J; [lia|].
  destruct ys as [|y ys]; [discriminate|]. destruct ks as [|k ks]; [discriminate|]. destruct ss as [|s ss]; [discriminate|].
  simpl in L1, L2, L3. cbn [same_pads_list].
  destruct j.
  - destruct ds; reflexivity.
  - cbn [nth]. rewrite IH by lia. destruct ds as [|d0 ds]; cbn [tl nth]; [destruct j|]; reflexivity.
Qed.

(* non-vacuity *)
Example fuse_example :
  fuse_impl {| fp_rank := 4; fp_pads := [1; 2; 3; 4]; fp_axes := Some [3; -2]; fp_mode_constant := true; fp_cval_zero := true;
               fp_auto_pad_notset := true; fp_conv_pads := Some [1; 0; 2; 0]; fp_integer := false; fp_xzp_zero := true |}
  = Some [3; 1; 6; 3].
Proof. reflexivity. Qed.

Example same_example : split_pads true (total_spec 7 3 2 2) = (2, 2) /\ split_pads false (total_spec 7 2 3 1) = (1, 0).
Proof. split; reflexivity. Qed.
