(* C13 (session 6): the text printed for a node under use_operators is read back by Python's grammar as the expression
   Export/EmitCF.v emit_operator gives -- with the parentheses of C13_11 that is `a <op> b` with both operands intact, for
   every symbol of the table and every operand text; without them it is -(|a| ** b) for a negative left operand of `**`
   and `a <op> b` in every other case (unary minus binds tighter than every other binary operator of the table). *)
From Coq Require Import List String Bool Arith ZArith Lia.
Require Import OV.Export.Cleanup.
Require Import OV.Graph.Syntax OV.Script.Syntax OV.Script.Translate OV.Gen.ExportTables OV.Export.Emit OV.Export.EmitCF OV.Export.OpText.
Import ListNotations.
Local Open Scope string_scope.

Lemma lookup_assoc_in : forall A k (l : list (string * A)) v, lookup_assoc k l = Some v -> In (k, v) l.
Proof.
  intros A k l v. unfold lookup_assoc. induction l as [|[k0 v0] t IH]; intros H; [discriminate H|].
  destruct (String.eqb k0 k) eqn:E.
  - apply String.eqb_eq in E. inversion H; subst. left. reflexivity.
  - right. apply IH. exact H.
Qed.

Inductive operand_case (paren : bool) (a : expr) (ta : list tok) : Prop :=
| OCVar (s : string) (E : a = EVar s) (T : ta = [TName s])
| OCInt (z : Z) (E : a = ELit (LInt z)) (S : Z.ltb z 0 = false) (T : ta = [TInt z])
| OCNegInt (z : Z) (E : a = ELit (LInt z)) (S : Z.ltb z 0 = true) (T : ta = wrap paren [TSym "-"; TInt (- z)])
| OCFloat (b : Z) (E : a = ELit (LFloat b)) (S : Z.leb 2147483648 b = false) (T : ta = [TFloat b])
| OCNegFloat (b : Z) (E : a = ELit (LFloat b)) (S : Z.leb 2147483648 b = true) (T : ta = wrap paren [TSym "-"; TFloat (b - 2147483648)])
| OCInts (zs : list Z) (E : a = ELit (LInts zs)) (T : ta = [TList a])
| OCList (args : list (option expr)) (kws : list (string * kwarg)) (E : a = ECall (CFun "[]") args kws) (T : ta = [TList a])
| OCNegVar (s : string) (E : a = EUn "USub" (EVar s)) (T : ta = wrap paren [TSym "-"; TName s]).

Lemma operand_cases : forall paren a ta, operand_toks paren a = Some ta -> operand_case paren a ta.
Proof.
  intros paren a ta H. destruct a as [s|[z|b|bb|zs]|op a1|op a1 a2|op a1 a2|[n|n] args kws]; cbn [operand_toks] in H; try discriminate H.
  - inversion H. eapply OCVar; reflexivity.
  - destruct (Z.ltb z 0) eqn:S; inversion H; [eapply OCNegInt | eapply OCInt]; try reflexivity; exact S.
  - destruct (Z.leb 2147483648 b) eqn:S; inversion H; [eapply OCNegFloat | eapply OCFloat]; try reflexivity; exact S.
  - inversion H. eapply OCInts; reflexivity.
  - destruct a1 as [s| | | | |]; try discriminate H. destruct (String.eqb op "USub") eqn:E; [|discriminate H].
    apply String.eqb_eq in E. subst op. inversion H. eapply OCNegVar; reflexivity.
  - destruct (String.eqb n "[]") eqn:E; [|discriminate H]. apply String.eqb_eq in E. subst n. inversion H. eapply OCList; reflexivity.
Qed.

Ltac crunch :=
  unfold parse_text, parse_raw, wrap, neg_operand;
  repeat match goal with S : Z.ltb _ _ = _ |- _ => rewrite ?S; clear S | S : Z.leb _ _ = _ |- _ => rewrite ?S; clear S end;
  lazy -[Z.opp Z.add Z.sub Z.ltb Z.leb];
  rewrite ?Z.opp_involutive, ?Z.sub_add; reflexivity.

Theorem op_text_parses : forall paren sym a b ts e,
  op_text paren sym a b = Some ts -> operator_expr paren sym a b = Some e -> parse_text ts = Some e.
Proof.
  intros paren sym a b ts e Ht He. unfold op_text in Ht.
  destruct (operand_toks paren a) as [ta|] eqn:Ea; [|discriminate Ht].
  destruct (operand_toks paren b) as [tb|] eqn:Eb; [|discriminate Ht].
  inversion Ht; subst ts. clear Ht.
  apply operand_cases in Ea. apply operand_cases in Eb.
  unfold operator_expr in He. destruct (pyop sym) as [[cmp cls]|] eqn:Ep; [|discriminate He].
  inversion He; subst e. clear He.
  unfold pyop in Ep. apply lookup_assoc_in in Ep. cbn [In] in Ep.
  repeat (destruct Ep as [Ep|Ep]; [inversion Ep; subst sym cmp cls; clear Ep;
                                   destruct paren; destruct Ea; destruct Eb; subst; crunch|]).
  contradiction.
Qed.

(* emit_operator of Export/EmitCF.v is operator_expr of the two references *)
Theorem emit_operator_expr : forall rename paren rm consts sym a b o os,
  emit_operator rename (Some paren) rm consts sym [a; b] (o :: os) =
  option_map (fun e => [SAssign (tv rename rm o) e]) (operator_expr paren sym (ref_e rename rm consts a) (ref_e rename rm consts b)).
Proof.
  intros. unfold emit_operator, operator_expr. destruct (pyop sym) as [[cmp cls]|]; [|reflexivity].
  destruct paren; cbn [negb andb option_map]; [rewrite andb_false_r|rewrite andb_true_r]; reflexivity.
Qed.

(* the line printed for a two-input node under use_operators is read back as the statement the emission model gives *)
Theorem operator_line_parses : forall rename paren rm consts sym a b o os x e ts,
  emit_operator rename (Some paren) rm consts sym [a; b] (o :: os) = Some [SAssign x e] ->
  op_text paren sym (ref_e rename rm consts a) (ref_e rename rm consts b) = Some ts ->
  parse_text ts = Some e.
Proof.
  intros rename paren rm consts sym a b o os x e ts He Ht. rewrite emit_operator_expr in He.
  destruct (operator_expr paren sym (ref_e rename rm consts a) (ref_e rename rm consts b)) as [e0|] eqn:Eo; [|discriminate He].
  cbn [option_map] in He. inversion He; subst e0. eapply op_text_parses; eassumption.
Qed.

(* with the parentheses both operands stay operands, for every symbol and every operand text *)
Theorem op_text_parenthesized_exact : forall sym cmp cls a b ts,
  pyop sym = Some (cmp, cls) -> op_text true sym a b = Some ts ->
  parse_text ts = Some ((if cmp then ECmp else EBin) cls a b).
Proof.
  intros sym cmp cls a b ts Hp Ht. apply (op_text_parses true sym a b ts); [exact Ht|].
  unfold operator_expr. rewrite Hp. cbn [negb]. rewrite andb_false_r. reflexivity.
Qed.

(* without them: exact for every symbol but `**`, and for `**` when the left operand text does not start with a minus sign *)
Theorem op_text_unparenthesized_exact : forall sym cmp cls a b ts,
  pyop sym = Some (cmp, cls) -> op_text false sym a b = Some ts ->
  String.eqb sym "**" = false \/ neg_operand a = None ->
  parse_text ts = Some ((if cmp then ECmp else EBin) cls a b).
Proof.
  intros sym cmp cls a b ts Hp Ht Hc. apply (op_text_parses false sym a b ts); [exact Ht|].
  unfold operator_expr. rewrite Hp. cbn [negb]. rewrite andb_true_r.
  destruct Hc as [Hc|Hc]; [rewrite Hc; reflexivity|]. rewrite Hc. destruct (String.eqb sym "**"); reflexivity.
Qed.

(* ... and a power whose base text starts with a minus sign is the NEGATED power of the absolute base *)
Theorem pow_text_unparenthesized_negates : forall a pa b ts,
  neg_operand a = Some pa -> op_text false "**" a b = Some ts -> parse_text ts = Some (EUn "USub" (EBin "Pow" pa b)).
Proof.
  intros a pa b ts Hn Ht. apply (op_text_parses false "**" a b ts); [exact Ht|].
  unfold operator_expr. cbn [pyop]. change (pyop "**") with (Some (false, "Pow")). cbn [negb andb String.eqb Ascii.eqb Bool.eqb]. rewrite Hn. reflexivity.
Qed.

Theorem pow_text_as_read_refuted :
  exists a b ts, op_text false "**" a b = Some ts /\ parse_text ts = Some (EUn "USub" (EBin "Pow" (ELit (LInt 2)) b)) /\ a = ELit (LInt (-2)) /\
                 op_text true "**" a b = Some [TSym "("; TSym "-"; TInt 2; TSym ")"; TSym "**"; TName "x"] /\
                 parse_text [TSym "("; TSym "-"; TInt 2; TSym ")"; TSym "**"; TName "x"] = Some (EBin "Pow" a b).
Proof. exists (ELit (LInt (-2))), (EVar "x"). eexists. repeat split; vm_compute; reflexivity. Qed.

(* the operator table: no operator and no symbol twice (so the printed symbol determines the operator and conversely) *)
Definition table_injectiveb (t : list (string * string)) : bool := nodupb (map fst t) && nodupb (map snd t).
Theorem operator_table_injective : table_injectiveb use_operators_table = true.
Proof. vm_compute. reflexivity. Qed.

(* every symbol of the table is a binary operator of the grammar with the class Export/EmitCF.v pyop gives it *)
Definition sym_in_grammarb (e : string * string) : bool :=
  match pyop (snd e), binop_info (snd e) with
  | Some (cmp, cls), Some (_, cmp', cls') => Bool.eqb cmp cmp' && String.eqb cls cls'
  | Some (false, "Pow"), None => String.eqb (snd e) "**"
  | _, _ => false
  end.
Theorem operator_table_in_grammar : forallb sym_in_grammarb use_operators_table = true.
Proof. vm_compute. reflexivity. Qed.

(* precedence and associativity of the reader on nested texts (non-vacuity of the grammar; compared with ast.parse by the harness) *)
Example parse_examples :
  parse_text [TName "a"; TSym "-"; TName "b"; TSym "-"; TName "c"] = Some (EBin "Sub" (EBin "Sub" (EVar "a") (EVar "b")) (EVar "c")) /\
  parse_text [TName "a"; TSym "+"; TName "b"; TSym "*"; TName "c"] = Some (EBin "Add" (EVar "a") (EBin "Mult" (EVar "b") (EVar "c"))) /\
  parse_text [TName "a"; TSym "**"; TName "b"; TSym "**"; TName "c"] = Some (EBin "Pow" (EVar "a") (EBin "Pow" (EVar "b") (EVar "c"))) /\
  parse_text [TSym "-"; TName "a"; TSym "**"; TSym "-"; TInt 2] = Some (EUn "USub" (EBin "Pow" (EVar "a") (ELit (LInt (-2))))) /\
  parse_text [TName "a"; TSym "&"; TName "b"; TSym ">"; TName "c"; TSym "|"; TName "d"] =
    Some (ECmp "Gt" (EBin "BitAnd" (EVar "a") (EVar "b")) (EBin "BitOr" (EVar "c") (EVar "d"))) /\
  parse_text [TName "a"; TSym "<"; TName "b"; TSym "<"; TName "c"] = None /\
  parse_text [TSym "("; TName "a"; TSym "+"; TName "b"; TSym ")"; TSym "*"; TSym "-"; TFloat 1065353216] =
    Some (EBin "Mult" (EBin "Add" (EVar "a") (EVar "b")) (ELit (LFloat 3212836864))).
Proof. vm_compute. repeat split. Qed.
