(* Model of UnsqueezeUnsqueeze (_basic_rules.py) (C05).
   ONNX Unsqueeze-13(data, axes): output rank r = rank(data) + len(axes); output dim i is 1 for i in axes, the remaining
   positions take data's dims in order; the flat (row-major) data is unchanged.  No proofs in this file. *)
From Coq Require Import ZArith List Arith Bool.
Import ListNotations.

(* specification-level shape function: walk the n output positions starting at position i *)
Fixpoint build (n i : nat) (axes : list nat) (sh : list Z) : list Z :=
  match n with
  | 0 => []
  | S n' =>
      if existsb (Nat.eqb i) axes then 1%Z :: build n' (S i) axes sh
      else match sh with
           | [] => []
           | d :: t => d :: build n' (S i) axes t
           end
  end.
Definition unsq (axes : list nat) (sh : list Z) : list Z := build (length sh + length axes) 0 axes sh.

Definition tensor := (list Z * list Z)%type.        (* shape, row-major data *)
Definition unsqueeze (axes : list nat) (t : tensor) : tensor := (unsq axes (fst t), snd t).

(* check: both axes are single-element constants (ir_utils.get_singleton_value) and non-negative *)
Definition check (v1 v2 : option Z) : bool :=
  match v1, v2 with Some a, Some b => (0 <=? a)%Z && (0 <=? b)%Z | _, _ => false end.
(* rewrite: axes = [v1, v2] if v1 < v2 else [v2, v1 + 1] *)
Definition merged (v1 v2 : nat) : list nat := if v1 <? v2 then [v1; v2] else [v2; S v1].

(* host_ok: each Unsqueeze is valid, i.e. its axis lies within the rank of its own output *)
Definition host_ok (sh : list Z) (v1 v2 : nat) : Prop := v1 <= length sh /\ v2 <= S (length sh).

(* correspondence *)
Definition nl_eqb (a b : list nat) : bool :=
  Nat.eqb (length a) (length b) && forallb (fun q => Nat.eqb (fst q) (snd q)) (combine a b).
Definition case := (option Z * option Z * option (list nat))%type.   (* axes values, observed merged axes (None = not fired) *)
Definition model (v1 v2 : option Z) : option (list nat) :=
  if check v1 v2 then match v1, v2 with Some a, Some b => Some (merged (Z.to_nat a) (Z.to_nat b)) | _, _ => None end else None.
Definition agrees (c : case) : bool :=
  let '(v1, v2, o) := c in
  match model v1 v2, o with _, None => true | Some x, Some y => nl_eqb x y | None, Some _ => false end.
Fixpoint disagreeing (i : nat) (l : list case) : list nat :=
  match l with [] => [] | c :: t => (if agrees c then [] else [i]) ++ disagreeing (S i) t end.
