"""C14 operation catalogue -- imported ONLY inside the implementation subprocess (harness/c14_runner.py).

Every operation is `op_<id>() -> dict` and represents one translate / optimize / rewrite / convert call on the
real implementation; its result is the deterministic serialization of what the call produced (or the
exception class).  The same operations serve as targets and as history.
Script functions are decorated *inside* the operation so that every call goes through the converter again.
"""
from __future__ import annotations

import numpy as np
import onnx
from onnx import TensorProto, helper, numpy_helper

import onnxscript
from onnxscript import BOOL, FLOAT, INT64, script
from onnxscript import opset18 as op

ALPHA = 2.0           # script-time constants (module globals referenced by scripts)
SHIFT = 3
TABLE = [1.0, 2.0, 3.0]


def _ser(p):
    return p.SerializeToString(deterministic=True)


def _script_result(f, model=True):
    out = {"function": _ser(f.to_function_proto())}
    if model:
        out["model"] = _ser(f.to_model_proto())
    return out


# ------------------------------------------------------------------------------------------ scripts

def op_s_if3():
    @script(default_opset=op)
    def if3(x: FLOAT[None], c: BOOL) -> FLOAT[None]:
        if c:
            alpha = x + 1.0
            beta = x * 2.0
            gamma = x - 3.0
        else:
            alpha = x - 1.0
            beta = x * 3.0
            gamma = x + 3.0
        return alpha + beta + gamma

    return _script_result(if3)


def op_s_if_nested():
    @script(default_opset=op)
    def if_nested(x: FLOAT[None], c: BOOL, d: BOOL) -> FLOAT[None]:
        if c:
            if d:
                left = x + 1.0
                right = x + 2.0
            else:
                left = x + 3.0
                right = x + 4.0
            total = left * right
            extra = left - right
        else:
            total = x
            extra = x * x
        return total + extra

    return _script_result(if_nested)


def op_s_if1():
    @script(default_opset=op)
    def if1(x: FLOAT[None], c: BOOL) -> FLOAT[None]:
        if c:
            y = x + 1.0
        else:
            y = x - 1.0
        return y

    return _script_result(if1)


def op_s_loop3():
    @script(default_opset=op)
    def loop3(x: FLOAT[None], n: INT64) -> FLOAT[None]:
        acc = x
        prod = x
        third = x
        for i in range(n):
            acc = acc + x
            prod = prod * x
            third = third - x
        return acc + prod + third

    return _script_result(loop3)


def op_s_loop1():
    @script(default_opset=op)
    def loop1(x: FLOAT[None], n: INT64) -> FLOAT[None]:
        acc = x
        for i in range(n):
            acc = acc + x
        return acc

    return _script_result(loop1)


def op_s_while2():
    @script(default_opset=op)
    def while2(x: FLOAT[None]) -> FLOAT[None]:
        total = x
        count = op.Constant(value_float=0.0)
        cond = op.ReduceSum(total) < 100.0
        while cond:
            total = total + total
            count = count + 1.0
            cond = op.ReduceSum(total) < 100.0
        return total + count

    return _script_result(while2)


def op_s_loop_if():
    @script(default_opset=op)
    def loop_if(x: FLOAT[None], n: INT64, c: BOOL) -> FLOAT[None]:
        acc = x
        for i in range(n):
            if c:
                u = acc + 1.0
                v = acc + 2.0
            else:
                u = acc - 1.0
                v = acc - 2.0
            acc = u * v
        return acc

    return _script_result(loop_if)


def op_s_consts():
    @script(default_opset=op)
    def consts(x: FLOAT[None], k: int = 2) -> FLOAT[None]:
        t = op.Constant(value_floats=TABLE)
        y = x * ALPHA + t
        s = op.Constant(value_int=SHIFT)
        z = y + op.CastLike(s, y)
        return op.Gather(z, op.Constant(value_int=k))

    return _script_result(consts, model=False)


def op_s_plain():
    @script(default_opset=op)
    def plain(x: FLOAT[None], y: FLOAT[None]) -> FLOAT[None]:
        a = op.MatMul(op.Unsqueeze(x, [0]), op.Unsqueeze(y, [1]))
        b = op.Relu(a - 1.5)
        return op.Squeeze(b)

    return _script_result(plain)


def op_s_calls():
    @script()
    def helper_fn(x: FLOAT[None]) -> FLOAT[None]:
        return op.Sigmoid(x) * ALPHA

    @script(default_opset=op)
    def caller(x: FLOAT[None]) -> FLOAT[None]:
        return helper_fn(x) + helper_fn(x * 2.0)

    return _script_result(caller)


def op_s_global_mutated():
    """Decorate, then mutate every global the script refers to (and restore): protos must be those of s_consts."""
    global ALPHA, SHIFT, TABLE

    @script(default_opset=op)
    def consts(x: FLOAT[None], k: int = 2) -> FLOAT[None]:
        t = op.Constant(value_floats=TABLE)
        y = x * ALPHA + t
        s = op.Constant(value_int=SHIFT)
        z = y + op.CastLike(s, y)
        return op.Gather(z, op.Constant(value_int=k))

    saved = (ALPHA, SHIFT, TABLE)
    try:
        ALPHA, SHIFT, TABLE = 99.0, 4, [7.0]
        return _script_result(consts, model=False)
    finally:
        ALPHA, SHIFT, TABLE = saved


def op_s_global_mutated_callee():
    """The callee's constants are fixed at *its* decoration: decorating the caller after the mutation still
    embeds the callee as it was."""
    global ALPHA

    @script()
    def helper_fn(x: FLOAT[None]) -> FLOAT[None]:
        return op.Sigmoid(x) * ALPHA

    saved = ALPHA
    try:
        ALPHA = -1.0

        @script(default_opset=op)
        def caller(x: FLOAT[None]) -> FLOAT[None]:
            return helper_fn(x) + helper_fn(x * 2.0)

        res = _script_result(caller)
    finally:
        ALPHA = saved
    return res


def op_s_repeat():
    """to_model_proto / to_function_proto called repeatedly: identical results, function not modified."""
    @script()
    def rep_helper(x: FLOAT[None]) -> FLOAT[None]:
        return op.Relu(x) * ALPHA

    @script(default_opset=op)
    def rep(x: FLOAT[None], c: BOOL) -> FLOAT[None]:
        if c:
            y = rep_helper(x) + ALPHA
        else:
            y = x - ALPHA
        return y * 2.0

    g0 = _ser(rep.function_ir.to_graph_proto())
    f_before = _ser(rep.to_function_proto())
    ms = [_ser(rep.to_model_proto()) for _ in range(3)]
    fs = [_ser(rep.to_function_proto()) for _ in range(3)]
    ms.append(_ser(rep.to_model_proto()))
    ms.append(_ser(rep.to_model_proto(io_types=FLOAT[None])) and _ser(rep.to_model_proto()))
    g1 = _ser(rep.function_ir.to_graph_proto())
    same = len(set(ms)) == 1 and len(set(fs)) == 1 and g0 == g1 and f_before == fs[0]
    return {"function": fs[0], "model": ms[0], "flag": b"repeat-identical" if same else b"REPEAT-DIFFERS"}


# ------------------------------------------------------------------------------------------ later calls
# "mutating globals afterwards changes neither the generated protos nor later calls": the script function is
# decorated, called eagerly and its ModelProto run on onnxruntime; then the global it refers to is rebound /
# mutated in place; then both are done again.  Everything observed is returned (harness/c14.py compares).

G_FLOAT = 2.0
G_LIST = [1.0, 2.0, 3.0]
G_LIST2 = [1.0, 2.0, 3.0]
G_AXIS = 0
G_FLAG = True
G_TRIPS = 3
G_STEP = 1.5
G_ARRAY = np.array([1.0, 2.0, 3.0], dtype=np.float32)


def _ort_run(model_proto, args):
    import onnxruntime as ort
    so = ort.SessionOptions()
    so.graph_optimization_level = ort.GraphOptimizationLevel.ORT_DISABLE_ALL
    so.log_severity_level = 4
    sess = ort.InferenceSession(model_proto.SerializeToString(), so, providers=["CPUExecutionProvider"])
    return sess.run(None, {i.name: a for i, a in zip(sess.get_inputs(), args)})[0]


def _obs(thunk):
    try:
        r = np.asarray(thunk())
        return (str(r.dtype) + str(r.shape) + repr(r.tolist())).encode()
    except Exception as e:  # noqa: BLE001
        return ("ERR " + type(e).__name__).encode()


def _later_calls(f, args, mutate, restore):
    out = {"function": _ser(f.to_function_proto()), "model": _ser(f.to_model_proto())}
    out["eager_before"] = _obs(lambda: f(*args))
    out["proto_before"] = _obs(lambda: _ort_run(f.to_model_proto(), args))
    try:
        mutate()
        out["eager_after"] = _obs(lambda: f(*args))
        out["proto_after"] = _obs(lambda: _ort_run(f.to_model_proto(), args))
        out["function_after"] = _ser(f.to_function_proto())
        out["eager_again"] = _obs(lambda: f(*args))
    finally:
        restore()
    return out


_X3 = np.array([1.0, 2.0, 3.0], dtype=np.float32)
_X23 = np.arange(6, dtype=np.float32).reshape(2, 3)


def op_s_later_float():
    """a float global used as a tensor constant; rebound after decoration"""
    global G_FLOAT

    @script(default_opset=op)
    def later_float(x: FLOAT[None]) -> FLOAT[None]:
        return x * G_FLOAT

    def mutate():
        global G_FLOAT
        G_FLOAT = 99.0

    def restore():
        global G_FLOAT
        G_FLOAT = 2.0

    return _later_calls(later_float, (_X3,), mutate, restore)


def op_s_later_list_rebound():
    """a list global used as a tensor constant; the name is rebound to another list"""
    @script(default_opset=op)
    def later_list(x: FLOAT[None]) -> FLOAT[None]:
        return x + op.Constant(value_floats=G_LIST)

    def mutate():
        global G_LIST
        G_LIST = [5.0, 5.0, 5.0]

    def restore():
        global G_LIST
        G_LIST = [1.0, 2.0, 3.0]

    return _later_calls(later_list, (_X3,), mutate, restore)


def op_s_later_list_inplace():
    """a list global used as a tensor constant; the list object is mutated in place"""
    @script(default_opset=op)
    def later_list2(x: FLOAT[None]) -> FLOAT[None]:
        return x + op.Constant(value_floats=G_LIST2)

    def mutate():
        G_LIST2[0] = 41.0

    def restore():
        G_LIST2[0] = 1.0

    return _later_calls(later_list2, (_X3,), mutate, restore)


def op_s_later_int_attr():
    """an int global used as an attribute value"""
    @script(default_opset=op)
    def later_attr(x: FLOAT[None, None]) -> FLOAT[None, None]:
        return op.Concat(x, x, axis=G_AXIS)

    def mutate():
        global G_AXIS
        G_AXIS = 1

    def restore():
        global G_AXIS
        G_AXIS = 0

    return _later_calls(later_attr, (_X23,), mutate, restore)


def op_s_later_callee():
    """another script function referenced by name; the name is rebound to a different script function"""
    g = globals()

    @script(default_opset=op)
    def later_helper_a(x: FLOAT[None]) -> FLOAT[None]:
        return x * 10.0

    @script(default_opset=op)
    def later_helper_b(x: FLOAT[None]) -> FLOAT[None]:
        return x - 5.0

    g["G_CALLEE"] = later_helper_a
    try:
        @script(default_opset=op)
        def later_caller(x: FLOAT[None]) -> FLOAT[None]:
            return G_CALLEE(x) + 1.0  # noqa: F821

        def mutate():
            g["G_CALLEE"] = later_helper_b

        def restore():
            g["G_CALLEE"] = later_helper_a

        return _later_calls(later_caller, (_X3,), mutate, restore)
    finally:
        g.pop("G_CALLEE", None)


def op_s_later_if_cond():
    """a bool global used as the condition of an if statement (a constant at decoration time)"""
    @script(default_opset=op)
    def later_if(x: FLOAT[None]) -> FLOAT[None]:
        if G_FLAG:
            y = x + 1.0
        else:
            y = x - 1.0
        return y

    def mutate():
        global G_FLAG
        G_FLAG = False

    def restore():
        global G_FLAG
        G_FLAG = True

    return _later_calls(later_if, (_X3,), mutate, restore)


def op_s_later_loop():
    """globals used as the trip count of a for loop and inside its body"""
    @script(default_opset=op)
    def later_loop(x: FLOAT[None]) -> FLOAT[None]:
        acc = x
        for i in range(G_TRIPS):
            acc = acc + G_STEP
        return acc

    def mutate():
        global G_TRIPS, G_STEP
        G_TRIPS, G_STEP = 1, 100.0

    def restore():
        global G_TRIPS, G_STEP
        G_TRIPS, G_STEP = 3, 1.5

    return _later_calls(later_loop, (_X3,), mutate, restore)


def op_s_later_nonlocal():
    """a variable of the enclosing python function (closure cell), rebound after decoration"""
    scale = 3.0

    @script(default_opset=op)
    def later_nonlocal(x: FLOAT[None]) -> FLOAT[None]:
        return x * scale

    def mutate():
        nonlocal scale
        scale = -7.0

    def restore():
        nonlocal scale
        scale = 3.0

    return _later_calls(later_nonlocal, (_X3,), mutate, restore)


def op_s_later_array_inplace():
    """a numpy array global used as a tensor constant, mutated in place"""
    @script(default_opset=op)
    def later_array(x: FLOAT[None]) -> FLOAT[None]:
        return x + op.Constant(value=G_ARRAY)

    def mutate():
        G_ARRAY[1] = -50.0

    def restore():
        G_ARRAY[1] = 2.0

    return _later_calls(later_array, (_X3,), mutate, restore)


G_ARRAY2 = np.array([1.0, 2.0, 3.0], dtype=np.float32)


def op_s_later_array_expr():
    """a numpy array global used directly as an operand, mutated in place"""
    @script(default_opset=op)
    def later_array2(x: FLOAT[None]) -> FLOAT[None]:
        return x + G_ARRAY2

    def mutate():
        G_ARRAY2[2] = 77.0

    def restore():
        G_ARRAY2[2] = 3.0

    return _later_calls(later_array2, (_X3,), mutate, restore)


# ------------------------------------------------------------------------------------------ later calls: shared memory
# The script refers to an object V that shares memory with a mutable base B held by someone else (coq/Determinism/Alias.v:
# the aliasing relation (value, base)); after decoration B is written in place -- V itself is never touched and may be read-only.

def _seen(v):
    try:
        if isinstance(v, onnx.TensorProto):
            v = numpy_helper.to_array(v)
        elif hasattr(v, "numpy") and not isinstance(v, np.ndarray):
            v = v.numpy()
        return repr(np.asarray(v).tolist()).encode()
    except Exception as e:  # noqa: BLE001
        return ("ERR " + type(e).__name__).encode()


def _alias_later(make, use):
    g = globals()
    value, base, mutate, restore = make()
    g["G_ALIAS"] = value
    extra = {}
    try:
        if use == "expr":
            @script(default_opset=op)
            def alias_expr(x: FLOAT[None]) -> FLOAT[...]:
                return x + G_ALIAS  # noqa: F821
            f = alias_expr
        elif use == "attr":
            @script(default_opset=op)
            def alias_attr(x: FLOAT[None]) -> FLOAT[...]:
                return x + op.Constant(value=G_ALIAS)  # noqa: F821
            f = alias_attr
        else:
            @script(default_opset=op)
            def alias_sub(x: FLOAT[None]) -> FLOAT[...]:
                return x + G_ALIAS[0]  # noqa: F821
            f = alias_sub
        arrs = [a for a in (value if isinstance(value, (tuple, list)) else [value]) if isinstance(a, np.ndarray)]
        extra["obs_writeable"] = repr(all(a.flags.writeable for a in arrs) if arrs else None).encode()
        extra["obs_shares"] = repr(any(np.shares_memory(a, base) for a in arrs) if arrs and isinstance(base, np.ndarray) else None).encode()
        extra["obs_seen_before"] = _seen(value)

        def mutate2():
            mutate()
            extra["obs_seen_after"] = _seen(value)

        out = _later_calls(f, (_X3,), mutate2, restore)
    finally:
        g.pop("G_ALIAS", None)
    out.update(extra)
    return out


def _af32(*xs):
    return np.array(xs, dtype=np.float32)


def op_s_alias_ro_view():
    """a read-only view (writeable=False) of an array its owner keeps writable; the owner writes the base"""
    def make():
        b = _af32(1, 2, 3)
        v = b.view()
        v.flags.writeable = False
        return v, b, lambda: b.__setitem__(0, 100.0), lambda: None
    return _alias_later(make, "expr")


def op_s_alias_ro_view_attr():
    """the same read-only view used as Constant(value=G)"""
    def make():
        b = _af32(1, 2, 3)
        v = b.view()
        v.flags.writeable = False
        return v, b, lambda: b.__setitem__(2, -9.0), lambda: None
    return _alias_later(make, "attr")


def op_s_alias_broadcast():
    """np.broadcast_to(base, (3,)): a read-only view with stride 0"""
    def make():
        b = _af32(1.5)
        return np.broadcast_to(b, (3,)), b, lambda: b.__setitem__(0, 64.0), lambda: None
    return _alias_later(make, "expr")


def op_s_alias_frombuffer():
    """np.frombuffer(bytearray): the array is a window on the bytearray, which is written"""
    def make():
        ba = bytearray(_af32(1, 2, 3).tobytes())
        v = np.frombuffer(ba, dtype=np.float32)

        def mutate():
            ba[0:4] = np.float32(100.0).tobytes()
        return v, np.frombuffer(ba, dtype=np.float32), mutate, lambda: None
    return _alias_later(make, "expr")


def op_s_alias_frombuffer_ro():
    """np.frombuffer(read-only memoryview of a bytearray): read-only array, writable storage"""
    def make():
        ba = bytearray(_af32(1, 2, 3).tobytes())
        v = np.frombuffer(memoryview(ba).toreadonly(), dtype=np.float32)

        def mutate():
            ba[4:8] = np.float32(-31.0).tobytes()
        return v, np.frombuffer(ba, dtype=np.float32), mutate, lambda: None
    return _alias_later(make, "expr")


def op_s_alias_slice():
    """a slice view base[1:4] (writable itself); the base is written"""
    def make():
        b = _af32(9, 1, 2, 3, 9)
        return b[1:4], b, lambda: b.__setitem__(1, 100.0), lambda: None
    return _alias_later(make, "expr")


def op_s_alias_transposed():
    """a transposed (non-contiguous) view of a 2-d base"""
    def make():
        b = np.array([[1.0, 7.0], [2.0, 8.0], [3.0, 9.0]], dtype=np.float32)
        return b.T, b, lambda: b.__setitem__((2, 0), 55.0), lambda: None
    return _alias_later(make, "expr")


def op_s_alias_0d():
    """a 0-d view of a one-element base"""
    def make():
        b = _af32(5)
        return b.reshape(()), b, lambda: b.__setitem__(0, 100.0), lambda: None
    return _alias_later(make, "expr")


def op_s_alias_in_list():
    """a list global holding an array (Constant(value=[a])); the array inside is written"""
    def make():
        b = _af32(1, 2, 3)
        return [b], b, lambda: b.__setitem__(1, 100.0), lambda: None
    return _alias_later(make, "attr")


def op_s_alias_in_tuple():
    """a tuple global holding an array, used as an operand; the array inside is written (the tuple cannot be)"""
    def make():
        b = _af32(1, 2, 3)
        return (b,), b, lambda: b.__setitem__(0, 100.0), lambda: None
    return _alias_later(make, "expr")


def op_s_alias_in_tuple_sub():
    """a tuple global holding an array, G[0] used as an operand"""
    def make():
        b = _af32(1, 2, 3)
        return (b, b), b, lambda: b.__setitem__(2, 100.0), lambda: None
    return _alias_later(make, "sub")


def op_s_alias_memmap():
    """a read-only memory map of a file that another (r+) map of the same file writes"""
    import tempfile
    holder = {}

    def make():
        d = tempfile.mkdtemp(prefix="c14mm")
        fn = __import__("os").path.join(d, "t.bin")
        _af32(1, 2, 3).tofile(fn)
        w = np.memmap(fn, dtype=np.float32, mode="r+")
        v = np.memmap(fn, dtype=np.float32, mode="r")
        holder["d"] = d

        def mutate():
            w[0] = 100.0
            w.flush()
        return v, w, mutate, lambda: None
    try:
        return _alias_later(make, "expr")
    finally:
        __import__("shutil").rmtree(holder.get("d", ""), ignore_errors=True)


def op_s_alias_ro_owner():
    """an array whose owner switched writeable off while the decorator ran, switches it on again later and writes"""
    def make():
        b = _af32(1, 2, 3)
        b.flags.writeable = False

        def mutate():
            b.flags.writeable = True
            b[1] = 100.0
        return b, b, mutate, lambda: None
    return _alias_later(make, "expr")


def op_s_alias_tensorproto_attr():
    """a TensorProto global used as Constant(value=G); its raw_data is replaced afterwards"""
    def make():
        tp = numpy_helper.from_array(_af32(1, 2, 3))

        def mutate():
            tp.raw_data = _af32(100, 2, 3).tobytes()
        return tp, None, mutate, lambda: None
    return _alias_later(make, "attr")


def op_s_alias_irtensor_attr():
    """an onnx_ir.Tensor global wrapping an array, used as Constant(value=G); the array is written afterwards"""
    def make():
        import onnx_ir
        b = _af32(1, 2, 3)
        return onnx_ir.tensor(b), b, lambda: b.__setitem__(0, 100.0), lambda: None
    return _alias_later(make, "attr")


def op_s_repeat_lib():
    """to_model_proto / to_function_proto on a small library: a thin wrapper in a custom domain that uses no standard operator
    itself, a function with attribute parameters (bound to their defaults in the model); exporting one function must not
    modify it nor any other."""
    from onnxscript.values import Opset
    lib = Opset("c14.lib", 1)

    @script(lib)
    def lib_h(x):
        return op.Relu(x)

    @script(lib, default_opset=op)
    def lib_g(x):
        return lib_h(x)

    @script()
    def lib_f(x: FLOAT["N"]) -> FLOAT["N"]:
        return lib_g(op.Abs(x))

    @script(default_opset=op)
    def lib_k(x: FLOAT["N"], alpha: float = 0.5, axis: int = 0) -> FLOAT["N"]:
        return op.Softmax(op.LeakyRelu(x, alpha=alpha), axis=axis)

    fns = [lib_h, lib_g, lib_f, lib_k]
    before = [_ser(f.to_function_proto()) for f in fns]
    graphs = [_ser(f.function_ir.to_graph_proto()) for f in fns]
    models = {}
    same = True
    for rnd in range(3):
        for i in (1, 3, 2, 0, 3, 1):
            try:
                b = _ser(fns[i].to_model_proto())
            except Exception as e:  # noqa: BLE001
                b = ("ERR " + type(e).__name__).encode()
            if models.setdefault(i, b) != b:
                same = False
            if [_ser(f.to_function_proto()) for f in fns] != before or [_ser(f.function_ir.to_graph_proto()) for f in fns] != graphs:
                same = False
    return {"function": before[2], "model": models[2], "obs_k_model": __import__("hashlib").sha256(models[3]).hexdigest().encode(),
            "flag": b"repeat-identical" if same else b"REPEAT-DIFFERS"}


# failing decorations
def op_x_bad_script_stmt():
    @script(default_opset=op)
    def bad(x: FLOAT[None], c: BOOL) -> FLOAT[None]:
        if c:
            alpha = x + 1.0
            beta = x * 2.0
        else:
            alpha = x - 1.0
            beta = x * 3.0
        try:                      # unsupported statement, reached after an If was translated
            y = alpha + beta
        finally:
            pass
        return y

    return _script_result(bad)


def op_x_bad_script_unbound():
    @script(default_opset=op)
    def bad2(x: FLOAT[None], n: INT64) -> FLOAT[None]:
        acc = x
        for i in range(n):
            acc = acc + undefined_name_xyz  # noqa: F821
        return acc

    return _script_result(bad2)


# ------------------------------------------------------------------------------------------ models

def _model(nodes, inputs, outputs, inits=(), vi=(), opset=18, ir_version=9):
    g = helper.make_graph(list(nodes), "g", list(inputs), list(outputs), initializer=list(inits), value_info=list(vi))
    return helper.make_model(g, opset_imports=[helper.make_opsetid("", opset)], ir_version=ir_version)


def _vi(name, shape, t=TensorProto.FLOAT):
    return helper.make_tensor_value_info(name, t, shape)


def _init(name, arr, dtype=np.int64):
    return numpy_helper.from_array(np.array(arr, dtype=dtype), name)


def _rewrite(model, rules):
    from onnxscript import rewriter
    return {"model": _ser(rewriter.rewrite(model, pattern_rewrite_rules=rules))}


def _reshape_reshape_model(shape2, out_shape, allowzero=0, in_shape=(2, 3, 4)):
    nodes = [helper.make_node("Reshape", ["x", "s1"], ["t"]),
             helper.make_node("Reshape", ["t", "s2"], ["y"], allowzero=allowzero)]
    return _model(nodes, [_vi("x", list(in_shape))], [_vi("y", out_shape)],
                  inits=[_init("s1", [4, 6]), _init("s2", shape2)], vi=[_vi("t", [4, 6])])


def op_m_rw_reshape():
    from onnxscript.rewriter.rules.common import _basic_rules
    return _rewrite(_reshape_reshape_model([0, -1], [4, 6]), [_basic_rules.reshape_reshape_rule])


def op_m_rw_reshape_b():
    from onnxscript.rewriter.rules.common import _basic_rules
    return _rewrite(_reshape_reshape_model([3, 0, -1], [3, 6, "N"]), [_basic_rules.reshape_reshape_rule])


def op_m_rw_reshape_allowzero():
    from onnxscript.rewriter.rules.common import _basic_rules
    m = _reshape_reshape_model([0, 24], [0, 24], allowzero=1, in_shape=(0, 24))
    return _rewrite(m, [_basic_rules.reshape_reshape_rule])


def op_m_rw_reshape_nofire():
    """shape with both 0 and -1 and unknown output: check() fails after having stashed state"""
    from onnxscript.rewriter.rules.common import _basic_rules
    nodes = [helper.make_node("Reshape", ["x", "s1"], ["t"]), helper.make_node("Reshape", ["t", "s2"], ["y"])]
    m = _model(nodes, [_vi("x", ["A", "B"])], [helper.make_tensor_value_info("y", TensorProto.FLOAT, None)],
               inits=[_init("s1", [4, -1]), _init("s2", [0, 0, -1])])
    return _rewrite(m, [_basic_rules.reshape_reshape_rule])


def op_x_rw_reshape_raises():
    """the annotated output rank exceeds the shape constant: check() raises after stashing _new_shape"""
    from onnxscript.rewriter.rules.common import _basic_rules
    return _rewrite(_reshape_reshape_model([8, 3], [2, 2, 2, 3]), [_basic_rules.reshape_reshape_rule])


def _flatten_model(axis, shape):
    nodes = [helper.make_node("Flatten", ["x"], ["y"], axis=axis)]
    return _model(nodes, [_vi("x", shape)], [helper.make_tensor_value_info("y", TensorProto.FLOAT, None)])


def op_m_rw_flatten():
    from onnxscript.rewriter.rules.common import _basic_rules
    return _rewrite(_flatten_model(2, [2, 3, 4, 5]), [_basic_rules.flatten_to_reshape_rule])


def op_m_rw_flatten_b():
    from onnxscript.rewriter.rules.common import _basic_rules
    return _rewrite(_flatten_model(0, ["N", 3, 4]), [_basic_rules.flatten_to_reshape_rule])


def _pad_conv_model(pads, conv_pads=None, neg=False):
    kw = {} if conv_pads is None else {"pads": conv_pads}
    nodes = [helper.make_node("Pad", ["x", "pads"], ["p"], mode="constant"),
             helper.make_node("Conv", ["p", "w"], ["y"], **kw)]
    w = numpy_helper.from_array(np.ones((2, 3, 3, 3), dtype=np.float32), "w")
    return _model(nodes, [_vi("x", [1, 3, 8, 8])], [helper.make_tensor_value_info("y", TensorProto.FLOAT, None)],
                  inits=[_init("pads", pads), w], vi=[])


def op_m_rw_padconv():
    from onnxscript.rewriter.rules.common import _fuse_pad_into_conv
    return _rewrite(_pad_conv_model([0, 0, 1, 2, 0, 0, 3, 4]), _fuse_pad_into_conv.rules)


def op_m_rw_padconv_b():
    from onnxscript.rewriter.rules.common import _fuse_pad_into_conv
    return _rewrite(_pad_conv_model([0, 0, 2, 2, 0, 0, 2, 2], conv_pads=[1, 1, 1, 1]), _fuse_pad_into_conv.rules)


def op_m_rw_padconv_nofire():
    from onnxscript.rewriter.rules.common import _fuse_pad_into_conv
    return _rewrite(_pad_conv_model([0, 1, 1, 2, 0, 0, 3, 4]), _fuse_pad_into_conv.rules)


def _materialize_model(out_shape):
    nodes = [helper.make_node("Shape", ["x"], ["sh"]),
             helper.make_node("Reshape", ["x", "sh"], ["y"])]
    return _model(nodes, [_vi("x", out_shape)], [_vi("y", out_shape)], vi=[_vi("sh", [len(out_shape)], TensorProto.INT64)])


def op_m_rw_materialize():
    from onnxscript.rewriter.rules.common import _materialize_reshape_shape
    return _rewrite(_materialize_model([2, "N", 4]), _materialize_reshape_shape.rules)


def op_m_rw_materialize_b():
    from onnxscript.rewriter.rules.common import _materialize_reshape_shape
    return _rewrite(_materialize_model([5, 7]), _materialize_reshape_shape.rules)


def _layer_norm_model(eps, dtype=TensorProto.FLOAT, npdt=np.float32):
    nodes = [
        helper.make_node("ReduceMean", ["x", "axes"], ["mean"], keepdims=1),
        helper.make_node("Sub", ["x", "mean"], ["d"]),
        helper.make_node("Mul", ["d", "d"], ["dd"]),
        helper.make_node("ReduceMean", ["dd", "axes"], ["var"], keepdims=1),
        helper.make_node("Add", ["var", "eps"], ["ve"]),
        helper.make_node("Sqrt", ["ve"], ["sd"]),
        helper.make_node("Reciprocal", ["sd"], ["isd"]),
        helper.make_node("Mul", ["d", "isd"], ["nrm"]),
        helper.make_node("Mul", ["nrm", "scale"], ["y"]),
    ]
    inits = [_init("axes", [-1]), numpy_helper.from_array(np.array(eps, dtype=npdt), "eps"),
             numpy_helper.from_array(np.arange(1, 5, dtype=npdt), "scale")]
    vis = [_vi(n, [2, 3, 4] if n in ("d", "dd", "nrm") else [2, 3, 1], dtype) for n in ("mean", "d", "dd", "var", "ve", "sd", "isd", "nrm")]
    return _model(nodes, [_vi("x", [2, 3, 4], dtype)], [_vi("y", [2, 3, 4], dtype)], inits=inits, vi=vis)


def op_m_rw_layernorm():
    from onnxscript.rewriter.rules.fusion import _layer_norm
    return _rewrite(_layer_norm_model(1e-5), _layer_norm.layer_normalization_ruleset)


def op_m_rw_layernorm_b():
    from onnxscript.rewriter.rules.fusion import _layer_norm
    return _rewrite(_layer_norm_model(0.25, TensorProto.DOUBLE, np.float64), _layer_norm.layer_normalization_ruleset)


def _rms_model(eps, dtype=TensorProto.FLOAT, npdt=np.float32):
    nodes = [
        helper.make_node("Pow", ["x", "two"], ["sq"]),
        helper.make_node("ReduceMean", ["sq", "axes"], ["ms"], keepdims=1, noop_with_empty_axes=0),
        helper.make_node("Add", ["ms", "eps"], ["mse"]),
        helper.make_node("Sqrt", ["mse"], ["rms"]),
        helper.make_node("Reciprocal", ["rms"], ["rrms"]),
        helper.make_node("Mul", ["x", "rrms"], ["nrm"]),
        helper.make_node("Mul", ["nrm", "scale"], ["y"]),
    ]
    inits = [_init("axes", [-1]), numpy_helper.from_array(np.array(2.0, dtype=npdt), "two"),
             numpy_helper.from_array(np.array(eps, dtype=npdt), "eps"),
             numpy_helper.from_array(np.arange(1, 5, dtype=npdt), "scale")]
    vis = [_vi(n, [2, 3, 4] if n in ("sq", "nrm") else [2, 3, 1], dtype) for n in ("sq", "ms", "mse", "rms", "rrms", "nrm")]
    return _model(nodes, [_vi("x", [2, 3, 4], dtype)], [_vi("y", [2, 3, 4], dtype)], inits=inits, vi=vis, opset=23, ir_version=10)


def op_m_rw_rmsnorm():
    from onnxscript.rewriter.rules.fusion import _rms_normalization
    return _rewrite(_rms_model(1e-6), _rms_normalization.rms_normalization_ruleset)


def op_m_rw_rmsnorm_b():
    from onnxscript.rewriter.rules.fusion import _rms_normalization
    return _rewrite(_rms_model(0.5, TensorProto.DOUBLE, np.float64), _rms_normalization.rms_normalization_ruleset)


def op_m_rw_default():
    """the default rule set of rewriter.rewrite on a model where several rules fire"""
    from onnxscript import rewriter
    nodes = [helper.make_node("Reshape", ["x", "s1"], ["t"]),
             helper.make_node("Reshape", ["t", "s2"], ["u"]),
             helper.make_node("Transpose", ["u"], ["v"], perm=[1, 0]),
             helper.make_node("Transpose", ["v"], ["w"], perm=[1, 0]),
             helper.make_node("Cast", ["w"], ["c"], to=TensorProto.FLOAT),
             helper.make_node("Relu", ["c"], ["r1"]),
             helper.make_node("Relu", ["r1"], ["y"])]
    m = _model(nodes, [_vi("x", [2, 3, 4])], [_vi("y", [4, 6])], inits=[_init("s1", [6, 4]), _init("s2", [4, 6])],
               vi=[_vi("t", [6, 4]), _vi("u", [4, 6]), _vi("v", [6, 4]), _vi("w", [4, 6]), _vi("c", [4, 6]), _vi("r1", [4, 6])])
    return {"model": _ser(rewriter.rewrite(m))}


# optimizer
def _fold_model(k):
    nodes = [helper.make_node("Add", ["a", "b"], ["ab"]),
             helper.make_node("Mul", ["ab", "ab"], ["ab2"]),
             helper.make_node("Shape", ["x"], ["sx"]),
             helper.make_node("Gather", ["sx", "idx"], ["d1"]),
             helper.make_node("Cast", ["d1"], ["d1f"], to=TensorProto.FLOAT),
             helper.make_node("Add", ["x", "ab2"], ["t"]),
             helper.make_node("Mul", ["t", "d1f"], ["y"])]
    inits = [_init("a", [1.0 * k, 2.0], np.float32), _init("b", [3.0, 4.0 + k], np.float32), _init("idx", 1)]
    return _model(nodes, [_vi("x", [3, 2])], [_vi("y", [3, 2])], inits=inits)


def op_m_opt_fold():
    import onnxscript.optimizer
    return {"model": _ser(onnxscript.optimizer.optimize(_fold_model(1)))}


def op_m_opt_fold_b():
    import onnxscript.optimizer
    return {"model": _ser(onnxscript.optimizer.optimize(_fold_model(5)))}


def _if_model(cond):
    then_g = helper.make_graph([helper.make_node("Add", ["x", "one"], ["t_out"])], "then", [], [_vi("t_out", [2])])
    else_g = helper.make_graph([helper.make_node("Sub", ["x", "one"], ["e_out"])], "else", [], [_vi("e_out", [2])])
    nodes = [helper.make_node("Constant", [], ["c"], value=numpy_helper.from_array(np.array(cond), "c")),
             helper.make_node("If", ["c"], ["y0"], then_branch=then_g, else_branch=else_g),
             helper.make_node("Identity", ["y0"], ["y"])]
    return _model(nodes, [_vi("x", [2])], [_vi("y", [2])], inits=[_init("one", [1.0, 1.0], np.float32)])


def op_m_opt_if():
    import onnxscript.optimizer
    return {"model": _ser(onnxscript.optimizer.optimize(_if_model(True)))}


def _two_if_model(tag, w1, w2, cond=True, name="w"):
    """two If nodes with a constant condition; the taken branch of each owns an initializer called `name` (sibling subgraphs may reuse a
    name): constant folding inlines both branches and must rename one of the two initializers when it moves them to the main graph"""
    def branch(gname, x, out, w, op):
        return helper.make_graph([helper.make_node(op, [x, name], [out])], gname, [], [_vi(out, [2])], initializer=[_init(name, w, np.float32)])

    def other(gname, x, out):
        return helper.make_graph([helper.make_node("Identity", [x], [out])], gname, [], [_vi(out, [2])])
    taken1, idle1 = branch(tag + "_b1", "x", "a_t", w1, "Add"), other(tag + "_o1", "x", "a_e")
    taken2, idle2 = branch(tag + "_b2", "a", "y_t", w2, "Mul"), other(tag + "_o2", "a", "y_e")
    nodes = [helper.make_node("Constant", [], ["cond"], value=helper.make_tensor("c", TensorProto.BOOL, [], [cond])),
             helper.make_node("If", ["cond"], ["a"], then_branch=taken1 if cond else idle1, else_branch=idle1 if cond else taken1),
             helper.make_node("If", ["cond"], ["y"], then_branch=taken2 if cond else idle2, else_branch=idle2 if cond else taken2)]
    m = _model(nodes, [_vi("x", [2])], [_vi("y", [2])])
    onnx.checker.check_model(m)
    return m


def _renamed_branch_initializers(out, name="w"):
    names = sorted(i.name for i in out.graph.initializer)
    assert not any(n.op_type == "If" for n in out.graph.node) and len([n for n in names if n.startswith(name)]) == 2, \
        f"generator degenerate: both branches were expected to be inlined and one initializer renamed, got {names}"
    return out


def op_m_opt_two_if_w():
    """optimize(): both inlined branches own an initializer `w`, one of them is renamed"""
    import onnxscript.optimizer
    return {"model": _ser(_renamed_branch_initializers(onnxscript.optimizer.optimize(_two_if_model("T", [1.0, 2.0], [3.0, 4.0]))))}


def op_m_opt_two_if_w_b():
    """the same initializer name in another model (else branches taken, other values): a collision on the same name earlier in the process"""
    import onnxscript.optimizer
    return {"model": _ser(_renamed_branch_initializers(onnxscript.optimizer.optimize(_two_if_model("U", [5.0, 6.0], [7.0, 8.0], cond=False))))}


def op_m_pass_two_if_w():
    """the same kind of model through the shared FoldConstantsPass object"""
    res = _run_shared_pass(_two_if_model("V", [0.5, 0.25], [2.0, 4.0]))
    _renamed_branch_initializers(onnx.load_from_string(res["model"]))
    return res


_PASS = None


def _shared_pass():
    """one FoldConstantsPass object reused by every call in the process (pass objects are reusable by contract:
    call() starts with _reset())"""
    global _PASS
    if _PASS is None:
        from onnxscript.optimizer import _constant_folding as cf
        _PASS = cf.FoldConstantsPass(shape_inference=True, input_size_limit=cf.DEFAULT_CONSTANT_FOLD_INPUT_SIZE_LIMIT,
                                     output_size_limit=cf.DEFAULT_CONSTANT_FOLD_OUTPUT_SIZE_LIMIT)
    return _PASS


def _run_shared_pass(model_proto):
    from onnxscript import ir
    m = ir.serde.deserialize_model(model_proto)
    res = _shared_pass()(m)
    return {"model": _ser(ir.serde.serialize_model(res.model)), "flag": b"modified" if res.modified else b"unmodified"}


def op_m_pass_fold():
    return _run_shared_pass(_fold_model(2))


def op_m_pass_nofold():
    nodes = [helper.make_node("Add", ["x", "z"], ["y"])]
    return _run_shared_pass(_model(nodes, [_vi("x", [2]), _vi("z", [2])], [_vi("y", [2])]))


def op_m_pass_if():
    return _run_shared_pass(_if_model(False))


def op_x_pass_fold_then_raise():
    """the shared FoldConstantsPass object fails PART-WAY: Add(a, b) of two initializers is folded (the pass has modified the model),
    then the partial evaluator of Gather(Shape(x), [5]) on a rank-2 input raises"""
    import onnx.parser
    text = """
<ir_version: 8, opset_import: ["" : 18]>
broken (float[2,3] x) => (float[2,3] y, int64[1] d)
<float[2,3] a = {1,2,3,4,5,6}, float[2,3] b = {1,1,1,1,1,1}, int64[1] five = {5}>
{
    ab = Add(a, b)
    y = Mul(x, ab)
    s = Shape(x)
    d = Gather<axis=0>(s, five)
}
"""
    return _run_shared_pass(onnx.parser.parse_model(text))


def op_m_pass_nofold_unnamed():
    """nothing to fold, nodes without names: what the shared pass returns (and whether it sends the model through NameFixPass)
    shows a stale `modified` state"""
    import onnx.parser
    text = """
<ir_version: 8, opset_import: ["" : 18]>
target (float[N,3] x, float[N,3] w) => (float[N,3] y)
{
    t = Mul(x, w)
    u = Relu(t)
    y = Add(u, x)
}
"""
    return _run_shared_pass(onnx.parser.parse_model(text))


# one RewriteRuleSet object reused by every call in the process: the shipped Shape->Reshape materialisation rules (new values get
# generated names) plus a user rule whose rewrite() raises on Sign(x)
_SHARED_SET = None


def _shared_rule_set():
    global _SHARED_SET
    if _SHARED_SET is None:
        from onnxscript.rewriter import pattern
        from onnxscript.rewriter.rules.common import _materialize_reshape_shape

        def target(op_, x):
            return op_.Sign(x)

        def repl(op_, x):
            raise RuntimeError("replacement failed")

        _SHARED_SET = pattern.RewriteRuleSet(list(_materialize_reshape_shape.rules.rules) + [pattern.RewriteRule(target, repl)])
    return _SHARED_SET


def _run_shared_set(model_proto):
    from onnxscript import ir
    m = ir.serde.deserialize_model(model_proto)
    n = _shared_rule_set().apply_to_model(m)
    return {"model": _ser(ir.serde.serialize_model(m)), "flag": ("applied %d" % n).encode()}


def op_m_set_materialize():
    return _run_shared_set(_materialize_model([2, "N", 4]))


def op_m_set_materialize_b():
    return _run_shared_set(_materialize_model([5, 7]))


def op_x_set_raises_midway():
    """the shared rule set fails PART-WAY: the Shape->Reshape chain is rewritten first (a new value was named), then Sign(y) raises"""
    nodes = [helper.make_node("Shape", ["x"], ["sh"]),
             helper.make_node("Reshape", ["x", "sh"], ["r"]),
             helper.make_node("Sign", ["r"], ["y"])]
    m = _model(nodes, [_vi("x", [3, 4])], [_vi("y", [3, 4])], vi=[_vi("sh", [2], TensorProto.INT64), _vi("r", [3, 4])])
    return _run_shared_set(m)


def op_x_opt_bad():
    import onnxscript.optimizer
    m = _fold_model(1)
    m.graph.node[0].input[0] = "does_not_exist"
    return {"model": _ser(onnxscript.optimizer.optimize(m))}


# version converter
def _convert_model(opset):
    nodes = [helper.make_node("Softmax", ["x"], ["s"], axis=-1),
             helper.make_node("ReduceSum", ["s", "axes"], ["r"], keepdims=1) if opset >= 13 else helper.make_node("ReduceSum", ["s"], ["r"], axes=[1], keepdims=1),
             helper.make_node("Relu", ["r"], ["y"])]
    inits = [_init("axes", [1])] if opset >= 13 else []
    return _model(nodes, [_vi("x", [2, 3])], [_vi("y", [2, 1])], inits=inits, opset=opset, ir_version=8)


def op_m_convert_up():
    from onnxscript import version_converter
    m = _convert_model(18)
    version_converter.convert_version(m, target_version=21)
    return {"model": _ser(m)}


def op_m_convert_up_b():
    from onnxscript import version_converter
    nodes = [helper.make_node("GridSample", ["x", "grid"], ["y"], mode="bilinear")]
    m = _model(nodes, [_vi("x", [1, 1, 4, 4]), _vi("grid", [1, 2, 2, 2])], [_vi("y", [1, 1, 2, 2])], opset=18, ir_version=8)
    version_converter.convert_version(m, target_version=20)
    return {"model": _ser(m)}


def op_x_convert_bad():
    from onnxscript import version_converter
    m = _convert_model(18)
    version_converter.convert_version(m, target_version=2, fallback=False)
    return {"model": _ser(m)}


def op_x_bad_pattern():
    """a pattern function that raises while the pattern is being built (the global pattern builder is swapped
    by a context manager at that moment)"""
    from onnxscript.rewriter import pattern

    def target(op_, x, y):
        t = x + y
        raise RuntimeError("pattern construction failed")

    def repl(op_, x, y):
        return op_.Add(x, y)

    rule = pattern.RewriteRule(target, repl)
    from onnxscript import rewriter
    return _rewrite(_fold_model(1), [rule])


def op_m_rw_operator_pattern():
    """a rule whose pattern uses python operators on pattern values (goes through the global pattern builder)"""
    from onnxscript.rewriter import pattern

    def target(op_, x, y):
        return (x + y) * (x + y)

    def repl(op_, x, y):
        s = op_.Add(x, y)
        return op_.Mul(s, op_.Identity(s))    # does not match the pattern again

    nodes = [helper.make_node("Add", ["p", "q"], ["s1"]), helper.make_node("Add", ["p", "q"], ["s2"]),
             helper.make_node("Mul", ["s1", "s2"], ["y"])]
    m = _model(nodes, [_vi("p", [2]), _vi("q", [2])], [_vi("y", [2])])
    return _rewrite(m, [pattern.RewriteRule(target, repl)])


# ------------------------------------------------------------------------------------------ as_function extraction: the
# extracted model-local function lists the opset imports of the matched nodes; with nodes of several domains the
# order of that list must not come from a set.

def _multi_domain_model(in_function=False, in_branch=False):
    domains = [("", 18), ("com.microsoft", 1), ("ai.onnx.contrib", 1), ("pkg.custom.a", 1), ("zz.vendor", 2), ("b.ops", 3)]
    nodes = [helper.make_node("Neg", ["x"], ["t0"]),
             helper.make_node("BiasGelu", ["t0", "b"], ["t1"], domain="com.microsoft"),
             helper.make_node("NegPos", ["t1"], ["t2"], domain="ai.onnx.contrib"),
             helper.make_node("Twice", ["t2"], ["t3"], domain="pkg.custom.a"),
             helper.make_node("Vend", ["t3"], ["t4"], domain="zz.vendor"),
             helper.make_node("Bop", ["t4"], ["y"], domain="b.ops")]
    imports = [helper.make_opsetid(d, v) for d, v in domains]
    if in_function:
        f = helper.make_function("local", "chain", ["x", "b"], ["y"], nodes, opset_imports=imports)
        g = helper.make_graph([helper.make_node("chain", ["x", "b"], ["y"], domain="local")], "g",
                              [_vi("x", [2, 4]), _vi("b", [4])], [_vi("y", [2, 4])])
        return helper.make_model(g, opset_imports=imports + [helper.make_opsetid("local", 1)], functions=[f], ir_version=9)
    if in_branch:
        then_g = helper.make_graph(nodes, "then", [], [_vi("y", [2, 4])])
        else_g = helper.make_graph([helper.make_node("Identity", ["x"], ["y2"])], "else", [], [_vi("y2", [2, 4])])
        g = helper.make_graph([helper.make_node("If", ["c"], ["r"], then_branch=then_g, else_branch=else_g)], "g",
                              [_vi("x", [2, 4]), _vi("b", [4]), _vi("c", [], TensorProto.BOOL)], [_vi("r", [2, 4])])
        return helper.make_model(g, opset_imports=imports, ir_version=9)
    g = helper.make_graph(nodes, "g", [_vi("x", [2, 4]), _vi("b", [4])], [_vi("y", [2, 4])])
    return helper.make_model(g, opset_imports=imports, ir_version=9)


def _multi_domain_rule():
    from onnxscript.rewriter import pattern

    def target(op_, x, b):
        t = op_.Neg(x)
        t = op_.BiasGelu(t, b, _domain="com.microsoft")
        t = op_.NegPos(t, _domain="ai.onnx.contrib")
        t = op_.Twice(t, _domain="pkg.custom.a")
        t = op_.Vend(t, _domain="zz.vendor")
        return op_.Bop(t, _domain="b.ops")

    def repl(op_, x, b):
        return op_.FusedChain(x, b, _domain="pkg.custom.a")

    return pattern.RewriteRule(target, repl, as_function=True)


def op_m_rw_as_function_domains():
    """as_function=True with a match whose nodes come from six operator domains (main graph)"""
    return _rewrite(_multi_domain_model(), [_multi_domain_rule()])


def op_m_rw_as_function_domains_fn():
    """the same match inside a model-local function"""
    return _rewrite(_multi_domain_model(in_function=True), [_multi_domain_rule()])


def op_m_rw_as_function_domains_if():
    """the same match inside an If branch"""
    return _rewrite(_multi_domain_model(in_branch=True), [_multi_domain_rule()])


# ------------------------------------------------------------------------------------------ same op types at different
# opset versions (ops whose signature changed), all on constants so that the constant folder has to evaluate them:
# any process-wide cache keyed by less than (domain, op, version) is hit with conflicting keys by these histories.

def _f32(name, arr):
    return numpy_helper.from_array(np.array(arr, dtype=np.float32), name)


def _opt(m):
    import onnxscript.optimizer
    return {"model": _ser(onnxscript.optimizer.optimize(m))}


def _vmodel(nodes, inits, in_shape, out_shape, opset):
    return _model(nodes, [_vi("x", in_shape)], [_vi("y", out_shape)], inits=inits, opset=opset, ir_version=8)


def _axes_model_old(opset, k=1.0):
    """axes as attributes (Squeeze/Unsqueeze-11, ReduceSum-11, ReduceMax-11/12)"""
    c = _f32("c", [[1.0 * k, 5.0], [7.0, 2.0]])
    nodes = [helper.make_node("ReduceSum", ["c"], ["r"], axes=[0], keepdims=1),
             helper.make_node("Squeeze", ["r"], ["s"], axes=[0]),
             helper.make_node("Unsqueeze", ["s"], ["u"], axes=[0]),
             helper.make_node("ReduceMax", ["c"], ["mx"], axes=[1], keepdims=0),
             helper.make_node("Add", ["u", "mx"], ["um"]),
             helper.make_node("Add", ["x", "um"], ["y"])]
    return _vmodel(nodes, [c], [3, 2], [3, 2], opset)


def _axes_model_new(opset, k=1.0):
    """axes as inputs (Squeeze/Unsqueeze/ReduceSum-13; ReduceMax-18 when opset >= 18)"""
    c = _f32("c", [[1.0 * k, 5.0], [7.0, 2.0]])
    inits = [c, _init("ax0", [0]), _init("ax1", [1])]
    rmax = (helper.make_node("ReduceMax", ["c", "ax1"], ["mx"], keepdims=0) if opset >= 18
            else helper.make_node("ReduceMax", ["c"], ["mx"], axes=[1], keepdims=0))
    nodes = [helper.make_node("ReduceSum", ["c", "ax0"], ["r"], keepdims=1),
             helper.make_node("Squeeze", ["r", "ax0"], ["s"]),
             helper.make_node("Unsqueeze", ["s", "ax0"], ["u"]),
             rmax,
             helper.make_node("Add", ["u", "mx"], ["um"]),
             helper.make_node("Add", ["x", "um"], ["y"])]
    return _vmodel(nodes, inits, [3, 2], [3, 2], opset)


def op_m_opt_axes_v11():
    return _opt(_axes_model_old(11))


def op_m_opt_axes_v12():
    return _opt(_axes_model_old(12, k=3.0))


def op_m_opt_axes_v13():
    return _opt(_axes_model_new(13, k=2.0))


def op_m_opt_axes_v18():
    return _opt(_axes_model_new(18))


def _misc_model_old(opset):
    """Clip-6 (min/max attributes), Pad-2 (pads attribute), Slice-1 (attributes), Split-2/11 (split attribute)"""
    c = _f32("c", [[-3.0, 0.5, 4.0, 9.0], [1.0, 2.0, 3.0, 8.0]])
    nodes = [helper.make_node("Clip", ["c"], ["cl"], min=0.0, max=5.0),
             helper.make_node("Pad", ["cl"], ["pd"], mode="constant", pads=[0, 1, 0, 1], value=1.0),
             helper.make_node("Slice", ["pd"], ["sl"], axes=[1], starts=[1], ends=[5]),
             helper.make_node("Split", ["sl"], ["sa", "sb"], axis=1, split=[1, 3]),
             helper.make_node("Concat", ["sb", "sa"], ["cc"], axis=1),
             helper.make_node("Add", ["x", "cc"], ["y"])]
    return _vmodel(nodes, [c], [2, 4], [2, 4], opset)


def _misc_model_new(opset):
    """Clip-11+ (inputs), Pad-11+ (inputs), Slice-10+ (inputs), Split-13+ (split input)"""
    c = _f32("c", [[-3.0, 0.5, 4.0, 9.0], [1.0, 2.0, 3.0, 8.0]])
    inits = [c, _f32("lo", 0.0), _f32("hi", 5.0), _init("pads", [0, 1, 0, 1]), _f32("pv", 1.0),
             _init("st", [1]), _init("en", [5]), _init("axs", [1]), _init("spl", [1, 3])]
    nodes = [helper.make_node("Clip", ["c", "lo", "hi"], ["cl"]),
             helper.make_node("Pad", ["cl", "pads", "pv"], ["pd"], mode="constant"),
             helper.make_node("Slice", ["pd", "st", "en", "axs"], ["sl"]),
             helper.make_node("Split", ["sl", "spl"], ["sa", "sb"], axis=1),
             helper.make_node("Concat", ["sb", "sa"], ["cc"], axis=1),
             helper.make_node("Add", ["x", "cc"], ["y"])]
    return _vmodel(nodes, inits, [2, 4], [2, 4], opset)


def op_m_opt_misc_v9():
    return _opt(_misc_model_old(9))


def op_m_opt_misc_v13():
    return _opt(_misc_model_new(13))


def op_m_opt_misc_v18():
    return _opt(_misc_model_new(18))


def _func_model(body_kind, opset=18):
    """a model-local function custom::F with the same identifier but different bodies"""
    if body_kind == "a":
        fnodes = [helper.make_node("Unsqueeze", ["a", "ax"], ["o"])]
    else:
        fnodes = [helper.make_node("Unsqueeze", ["a", "ax"], ["t"]), helper.make_node("Neg", ["t"], ["o"])]
    f = helper.make_function("custom", "F", ["a", "ax"], ["o"], fnodes, opset_imports=[helper.make_opsetid("", opset)])
    nodes = [helper.make_node("F", ["c", "ax0"], ["u"], domain="custom"), helper.make_node("Add", ["x", "u"], ["y"])]
    g = helper.make_graph(nodes, "g", [_vi("x", [3, 2])], [_vi("y", [3, 2])], initializer=[_f32("c", [4.0, 6.0]), _init("ax0", [0])])
    return helper.make_model(g, opset_imports=[helper.make_opsetid("", opset), helper.make_opsetid("custom", 1)], ir_version=8, functions=[f])


def op_m_opt_func_a():
    return _opt(_func_model("a"))


def op_m_opt_func_b():
    return _opt(_func_model("b"))


def op_m_opt_func_a_v13():
    return _opt(_func_model("a", opset=13))


def op_m_rw_default_v13():
    """the default rule set on the graph of m_rw_default at another opset"""
    from onnxscript import rewriter
    nodes = [helper.make_node("Reshape", ["x", "s1"], ["t"]),
             helper.make_node("Reshape", ["t", "s2"], ["u"]),
             helper.make_node("Transpose", ["u"], ["v"], perm=[1, 0]),
             helper.make_node("Transpose", ["v"], ["w"], perm=[1, 0]),
             helper.make_node("Relu", ["w"], ["r1"]),
             helper.make_node("Relu", ["r1"], ["y"])]
    m = _model(nodes, [_vi("x", [2, 3, 4])], [_vi("y", [4, 6])], inits=[_init("s1", [6, 4]), _init("s2", [4, 6])],
               vi=[_vi("t", [6, 4]), _vi("u", [4, 6]), _vi("v", [6, 4]), _vi("w", [4, 6]), _vi("r1", [4, 6])], opset=13, ir_version=8)
    return {"model": _ser(rewriter.rewrite(m))}


def op_m_convert_up_c():
    """the model of m_convert_up to another target version"""
    from onnxscript import version_converter
    m = _convert_model(18)
    version_converter.convert_version(m, target_version=23)
    return {"model": _ser(m)}


# scripts: the same body against different opset versions / the same custom domain at different versions
# (Opset objects are process-wide singletons per (class, domain, version))
def op_s_opset15():
    from onnxscript import opset15 as op15

    @script(default_opset=op15)
    def versioned(x: FLOAT[None]) -> FLOAT[None]:
        return op15.Squeeze(op15.Unsqueeze(x, [0]), [0]) + op15.ReduceSum(x, keepdims=1)

    return _script_result(versioned)


def op_s_opset18():
    @script(default_opset=op)
    def versioned(x: FLOAT[None]) -> FLOAT[None]:
        return op.Squeeze(op.Unsqueeze(x, [0]), [0]) + op.ReduceSum(x, keepdims=1)

    return _script_result(versioned)


def op_s_domain_v1():
    from onnxscript.values import Opset
    dom = Opset("c14.custom", 1)

    @script(dom, default_opset=op)
    def twice(x: FLOAT[None]) -> FLOAT[None]:
        return x + x

    @script(default_opset=op)
    def use(x: FLOAT[None]) -> FLOAT[None]:
        return twice(x) * ALPHA

    return _script_result(use)


def op_s_domain_v2():
    from onnxscript.values import Opset
    dom = Opset("c14.custom", 2)

    @script(dom, default_opset=op)
    def twice(x: FLOAT[None]) -> FLOAT[None]:
        return x * 2.0

    @script(default_opset=op)
    def use(x: FLOAT[None]) -> FLOAT[None]:
        return twice(x) * ALPHA

    return _script_result(use)


# ------------------------------------------------------------------------------------------ version conversion of models with
# model-local functions and subgraphs; to_model_proto with different options in sequence

def _convert_model_fn_sub(opset):
    inner = [helper.make_node("Softmax", ["a"], ["s"], axis=-1),
             helper.make_node("ReduceSum", ["s", "ax"], ["r"], keepdims=1),
             helper.make_node("Relu", ["r"], ["o"])]
    f = helper.make_function("local", "SoftSum", ["a", "ax"], ["o"], inner, opset_imports=[helper.make_opsetid("", opset)])
    then_g = helper.make_graph([helper.make_node("SoftSum", ["x", "axes"], ["t0"], domain="local"),
                                helper.make_node("GridSample", ["img", "grid"], ["gs"], mode="bilinear"),
                                helper.make_node("ReduceSum", ["gs", "axes4"], ["t1"], keepdims=0),
                                helper.make_node("Add", ["t0", "t1"], ["t_out"])], "then", [], [_vi("t_out", [2, 1])])
    else_g = helper.make_graph([helper.make_node("SoftSum", ["x", "axes"], ["e0"], domain="local"),
                                helper.make_node("Neg", ["e0"], ["e_out"])], "else", [], [_vi("e_out", [2, 1])])
    nodes = [helper.make_node("If", ["c"], ["y0"], then_branch=then_g, else_branch=else_g),
             helper.make_node("SoftSum", ["y0", "axes"], ["y"], domain="local")]
    g = helper.make_graph(nodes, "g", [_vi("x", [2, 3]), _vi("c", [], TensorProto.BOOL), _vi("img", [1, 1, 4, 4]), _vi("grid", [1, 2, 1, 2])],
                          [_vi("y", [2, 1])], initializer=[_init("axes", [1]), _init("axes4", [0, 1, 3])])
    return helper.make_model(g, opset_imports=[helper.make_opsetid("", opset), helper.make_opsetid("local", 1)], functions=[f], ir_version=8)


def op_m_convert_fn_sub():
    """a model with a model-local function (called from the main graph and from both If branches) converted 18 -> 21"""
    from onnxscript import version_converter
    m = _convert_model_fn_sub(18)
    version_converter.convert_version(m, target_version=21)
    return {"model": _ser(m)}


def op_m_convert_fn_sub_b():
    """the same model converted 18 -> 23"""
    from onnxscript import version_converter
    m = _convert_model_fn_sub(18)
    version_converter.convert_version(m, target_version=23)
    return {"model": _ser(m)}


def op_m_convert_fn_sub_ir():
    """the same conversion through the IR pass object"""
    from onnxscript import ir, version_converter
    m = ir.serde.deserialize_model(_convert_model_fn_sub(19))
    version_converter.convert_version(m, target_version=22)
    return {"model": _ser(ir.serde.serialize_model(m))}


def op_s_proto_options():
    """to_model_proto with different options in sequence: every option set gives the same bytes whenever it is used, and the
    plain call is not affected by the calls with options in between"""
    @script()
    def opt_helper(x: FLOAT[None]) -> FLOAT[None]:
        return op.Relu(x) * ALPHA

    @script(default_opset=op, producer_name="c14")
    def opt_main(x: FLOAT[None], c: BOOL) -> FLOAT[None]:
        if c:
            y = opt_helper(x) + 1.0
        else:
            y = x - 1.0
        return y

    calls = [{}, {"io_types": FLOAT[None]}, {"ir_version": 8}, {"opset_version": 17}, {"input_types": [FLOAT[3], BOOL], "output_types": [FLOAT[3]]},
             {"value_infos": {"y": FLOAT[None]}}, {"producer_name": "other"}, {"functions": []}]
    first = {}
    same = True
    order = [0, 1, 0, 2, 3, 1, 4, 0, 5, 6, 2, 7, 0, 4, 3, 5, 6, 7, 0]
    f0 = _ser(opt_main.to_function_proto())
    for i in order:
        try:
            b = _ser(opt_main.to_model_proto(**calls[i]))
        except Exception as e:  # noqa: BLE001
            b = ("ERR " + type(e).__name__).encode()
        if first.setdefault(i, b) != b:
            same = False
    same = same and f0 == _ser(opt_main.to_function_proto())
    import hashlib
    digest = hashlib.sha256(b"".join(first[i] for i in sorted(first))).hexdigest().encode()
    return {"function": f0, "model": first[0], "obs_options": digest, "flag": b"options-identical" if same else b"OPTIONS-DIFFER"}


# ------------------------------------------------------------------------------------------ self-test of the oracle: a *user*
# rule that keeps a counter on the rule object is history dependent by construction; the harness requires that the
# comparison with the fresh process notices it (it is not a target of the property)

_USER_RULESET = None


def selftest_user_counter_rule():
    global _USER_RULESET
    from onnxscript.rewriter import RewriteRuleClassBase, RewriteRuleSet

    class CountingRule(RewriteRuleClassBase):
        def __init__(self):
            super().__init__("CountingRule")
            self.count = 0

        def pattern(self, op_, x):
            return op_.Relu(x)

        def check(self, context, x):
            self.count += 1
            return True

        def rewrite(self, op_, x):
            return op_.Clip(x, op_.Constant(value_float=float(self.count)))

    if _USER_RULESET is None:
        _USER_RULESET = RewriteRuleSet([CountingRule.rule()])
    m = _model([helper.make_node("Relu", ["x"], ["y"])], [_vi("x", [2])], [_vi("y", [2])])
    return _rewrite(m, _USER_RULESET)


OPS = {k[3:]: v for k, v in sorted(globals().items()) if k.startswith("op_") and callable(v)}
OPS["t_rw_user_counter"] = selftest_user_counter_rule
