(* C13 property theorems (inline_const literal rule): statements only.  `const_repr` models _get_const_repr,
   `literal_dims/data/dtype` how the converter reads the printed literal back; both are tied to the real code by
   correspondence in the harness.  Not covered: the textual float formatting (checked by the harness: the printed
   text parses back to the same float32), non-finite values (finding C13:inline_const:non-finite-literal), and the
   CastLike the converter inserts next to a typed sibling (observed through execution). *)
From Coq Require Import List ZArith.
Import ListNotations.
Require Import OV.Export.ConstRepr OV.Export.ConstReprProofs.

Theorem C13_inlined_literal_reenters_unchanged : forall ht d dims data l,
  wf_tensor dims data -> const_repr ht d dims data = Some l ->
  literal_dims l = dims /\ literal_data l = data /\ literal_dtype l = d.
Proof. exact const_repr_preserves. Qed.
Print Assumptions C13_inlined_literal_reenters_unchanged.

Example C13_inlined_literal_instances :
  const_repr true INT64 [1] [1%Z] = Some (LList INT64 [1%Z]) /\ const_repr true FLOAT [] [1073741824%Z] = Some (LScalar FLOAT 1073741824%Z) /\
  const_repr true INT64 [5] [1%Z; 2%Z; 3%Z; 4%Z; 5%Z] = None /\ const_repr true FLOAT [1; 1] [0%Z] = None.
Proof. vm_compute. repeat split. Qed.

Theorem C13_inlined_literal_domain : forall ht d dims data l,
  const_repr ht d dims data = Some l ->
  ht = true /\ d <> OTHER /\ (dims = [] \/ exists n, dims = [n] /\ n < 5).
Proof. exact const_repr_domain. Qed.
Print Assumptions C13_inlined_literal_domain.

Theorem C13_singleton_vector_is_not_a_scalar : forall d x,
  d <> OTHER ->
  const_repr true d [1] [x] = Some (LList d [x]) /\ const_repr true d [] [x] = Some (LScalar d x) /\
  literal_dims (LList d [x]) <> literal_dims (LScalar d x).
Proof. exact const_repr_keeps_rank_of_singleton. Qed.
Print Assumptions C13_singleton_vector_is_not_a_scalar.

(* ---- repair variants (C13_04 nan / inf not inlined, C13_09 the empty vector not inlined): `const_repr_fx fin ne`;
   the harness decides by probe which flags the implementation shows and compares against that variant ---- *)
Theorem C13_const_repr_fx_as_read : forall ht d dims data, const_repr_fx false false ht d dims data = const_repr ht d dims data.
Proof. exact const_repr_fx_as_read. Qed.
Print Assumptions C13_const_repr_fx_as_read.

Theorem C13_const_repr_fx_inlines_less : forall fin ne ht d dims data l,
  const_repr_fx fin ne ht d dims data = Some l -> const_repr ht d dims data = Some l.
Proof. exact const_repr_fx_sub. Qed.
Print Assumptions C13_const_repr_fx_inlines_less.

Theorem C13_const_repr_repaired_printable : forall ht d dims data l,
  const_repr_fx true true ht d dims data = Some l ->
  has_nonfinite d (literal_data l) = false /\ (forall e, l <> LList e []).
Proof. exact const_repr_fx_printable. Qed.
Print Assumptions C13_const_repr_repaired_printable.

(* the rule as read inlines nan and the empty vector (known findings C13:inline_const:non-finite-literal, :empty-list-literal) *)
Theorem C13_const_repr_unprintable_refuted :
  const_repr true FLOAT [] [2143289344%Z] = Some (LScalar FLOAT 2143289344%Z) /\ has_nonfinite FLOAT [2143289344%Z] = true /\
  const_repr true FLOAT [0] [] = Some (LList FLOAT []) /\
  const_repr_fx true true true FLOAT [] [2143289344%Z] = None /\ const_repr_fx true true true FLOAT [0] [] = None.
Proof. exact const_repr_unprintable_refuted. Qed.
Print Assumptions C13_const_repr_unprintable_refuted.
