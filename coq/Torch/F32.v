(* C08 -- the float32 detour of aten_div_mode on integer tensors:
     quotient = Div(Cast(self, FLOAT), Cast(other, FLOAT));  "floor": CastLike(Floor(quotient), self);
     "trunc": CastLike(Floor(Abs(quotient)) * Sign(quotient), self).
   IEEE-754 binary32 with round-to-nearest-even, normal range only (all operands are integers of magnitude
   < 2^63, quotients are 0 or of magnitude in [2^-63, 2^63]): a finite float is m * 2^e with |m| < 2^24.
   No proofs in this file. *)
From Coq Require Import ZArith Bool.
Local Open Scope Z_scope.

(* p / q (q > 0, p >= 0) rounded to the nearest integer, ties to even *)
Definition rne_div (p q : Z) : Z :=
  let f := p / q in
  let r := p mod q in
  if 2 * r <? q then f else if q <? 2 * r then f + 1 else if Z.even f then f else f + 1.

(* the binary exponent k of x / y (x, y > 0): 2^k <= x / y < 2^(k+1) *)
Definition quot_exp (x y : Z) : Z :=
  let k0 := Z.log2 x - Z.log2 y in
  if 0 <=? k0 then (if x <? y * 2 ^ k0 then k0 - 1 else k0)
  else (if x * 2 ^ (- k0) <? y then k0 - 1 else k0).

(* x / y (x, y > 0) rounded to 24 significant bits: (m, e) with value m * 2^e *)
Definition round24 (x y : Z) : Z * Z :=
  let e := quot_exp x y - 23 in
  (if 0 <=? e then rne_div x (y * 2 ^ e) else rne_div (x * 2 ^ (- e)) y, e).

(* Cast int64 -> float32: the result is again an integer *)
Definition cast_f32 (z : Z) : Z :=
  if z =? 0 then 0
  else let '(m, e) := round24 (Z.abs z) 1 in Z.sgn z * (if 0 <=? e then m * 2 ^ e else m / 2 ^ (- e)).

(* Div on float32 of two integer-valued floats, as (sign, m, e) *)
Definition f32_div (a b : Z) : Z * Z * Z :=
  if a =? 0 then (0, 0, 0)
  else let '(m, e) := round24 (Z.abs a) (Z.abs b) in (Z.sgn a * Z.sgn b, m, e).

(* Floor of sign * m * 2^e *)
Definition f32_floor (q : Z * Z * Z) : Z :=
  let '(s, m, e) := q in
  if 0 <=? e then s * m * 2 ^ e else (s * m) / 2 ^ (- e).
(* Floor(Abs(q)) * Sign(q) *)
Definition f32_trunc (q : Z * Z * Z) : Z :=
  let '(s, m, e) := q in
  s * (if 0 <=? e then m * 2 ^ e else m / 2 ^ (- e)).

Definition aten_div_mode_int (floor_mode : bool) (a b : Z) : Z :=
  let q := f32_div (cast_f32 a) (cast_f32 b) in
  if floor_mode then f32_floor q else f32_trunc q.
